"""C07 - readers put the stored samples on the right components for every format."""
from __future__ import annotations

import ast
import re._parser as rp       # regex ASTs only: no pattern is ever executed
from typing import Dict, List, Optional

from ..astutil import call_name, calls_in, own_nodes, unparse, kwarg, bind_call
from ..cfg import cfg_of, events_per_iteration
from ..dataflow import reaching, value_sources
from ..model import AnalysisError, Program, norm_key, parent_of
from ..report import Checker
from .common import family_nodes
import sympy as sp
from ..expr import Translator, equal

EXPLANATION = (
    "Role-tag, path, def-use and table rules over data_wrangler.py and regex.py. Decided: (R1) component roles: "
    "_arrange_traces selects by channel-name suffix (endswith E/N/Z -> ew/ns/vt, each once), returns (ns, ew, vt) and "
    "every caller unpacks in that order; SAF fills columns (V, N, E) from the channel indices found by the "
    "patterns naming V, N and E and unpacks data.T in the same order; MiniShark columns (V, N, E) likewise, with "
    "gain and conversion factor divided out; PEER picks the vertical by UP/VER/..Z and the horizontals by azimuth "
    "or suffix; all six readers hand (ns, ew, vt, degrees_from_north, meta) to the constructor; (R2) errors instead "
    "of recordings: the suffix chain ends in a raise, every text reader compares the header count with its own "
    "row counter (incremented once per parsed row) through _check_npts which raises on inequality, trace-count "
    "and PEER time-step checks raise, read_single re-raises after the last reader; (R3) every header field parsed "
    "with a pattern is used afterwards; (R4) an explicit degrees_from_north always wins: every assignment to it "
    "inside a reader is guarded by `degrees_from_north is None`; the six readers share one signature; (R5) read(): "
    "each argument is repeated exactly when the test on *that* argument says it is a single value, and the three "
    "streams are zipped and passed on in matching order; (R6) the number of capturing groups of every pattern "
    "agrees with its consumers. Not decided: obspy's decoding of miniSEED/SAC/GCF bytes; single-precision rounding "
    "of the text formats; line endings inside the patterns.")

RULES = {
    "C07.R1": "component roles: suffix/pattern -> column -> variable -> constructor slot, consistently (N, E, V)",
    "C07.R2": "mismatches raise: suffix chain, header count vs own row counter, trace counts, PEER dt, re-raise after the last reader",
    "C07.R3": "every parsed header field is used",
    "C07.R4": "explicit degrees_from_north wins (`is None` guards); common reader signature",
    "C07.R5": "read(): guard subject == broadcast subject; zipped and forwarded in matching order",
    "C07.R6": "regex capturing groups == consumer arity",
}

READERS = ["_read_mseed", "_read_saf", "_read_minishark", "_read_sac", "_read_gcf", "_read_peer"]


_PROG: List[Optional[Program]] = [None]


def run(ck: Checker, prog: Program, tier: str):
    _PROG[0] = prog
    ck.guard(_arrange, ck, prog)
    ck.guard(_saf, ck, prog)
    ck.guard(_minishark, ck, prog)
    ck.guard(_peer, ck, prog)
    ck.guard(_common, ck, prog)
    ck.guard(_argument_purity, ck, prog)
    ck.guard(_retry_rewinds, ck, prog)
    ck.guard(_no_wrapping_decorators, ck, prog)
    from . import c04
    with ck.borrow(c04, "C07.R4+"):
        ck.guard(c04._orientation_carried, ck, prog)
    ck.guard(_check_npts_rule, ck, prog)
    ck.guard(_read_single, ck, prog)
    ck.guard(_obspy_wrapper, ck, prog)
    ck.guard(_per_file_state, ck, prog)
    ck.guard(_one_trace_per_file, ck, prog)
    ck.guard(_read, ck, prog)
    ck.guard(_regex, ck, prog)
    from .common import check_identity_comparisons as _cic
    ck.guard(_cic, ck, prog, "C07.R1", "C07")


def _ctor_call(f) -> Optional[ast.Call]:
    rets = [r for r in own_nodes(f.node) if isinstance(r, ast.Return) and isinstance(r.value, ast.Call) and call_name(r.value) == "SeismicRecording3C"]
    return rets[-1].value if rets else None


def _arrange(ck: Checker, prog: Program):
    f = prog.func("data_wrangler._arrange_traces")
    if not any(isinstance(st, ast.For) for st in f.node.body) and _arrange_sorted(ck, prog, f):
        _arrange_callers(ck, prog)
        return
    try:
        _arrange_table(ck, prog)
    except AnalysisError as e:
        ck.note(f"_arrange_traces: table form not applicable ({e}); using the statement forms")
        _arrange_forms(ck, prog)
        return
    _arrange_callers(ck, prog)


def _arrange_sorted(ck: Checker, prog: Program, f) -> bool:
    """Loop-free variant: the traces are put in the order of a sort key and unpacked.  Sorting by the channel name's last letter
    gives (E, N, Z); sorting by anything more (the whole channel code) lets band / instrument letters decide the component."""
    q = f.qualname
    tr_param = f.params[0]
    body = f.node.body
    defs = {st.targets[0].id: st.value for st in body if isinstance(st, ast.Assign) and len(st.targets) == 1 and isinstance(st.targets[0], ast.Name)}

    def deref(e):
        seen = 0
        while isinstance(e, ast.Name) and e.id in defs and seen < 5:
            e = defs[e.id]
            seen += 1
        return e

    def key_kind(e, var) -> Optional[str]:
        ch = f"{var}.meta.channel"
        u = unparse(e)
        if u in (f"{ch}[-1]", f"{ch}[-1:]"):
            return "last"
        if u in (ch, f"{var}.stats.channel", f"{var}.id"):
            return "whole"
        if u in (f"{var}.stats.channel[-1]", f"{var}.stats.channel[-1:]"):
            return "last"
        return None

    def keys_of(e) -> Optional[str]:
        """kind of a per-trace key list [key(t) for t in traces]"""
        e = deref(e)
        if isinstance(e, (ast.ListComp, ast.GeneratorExp)) and len(e.generators) == 1 and not e.generators[0].ifs and isinstance(e.generators[0].target, ast.Name):
            g = e.generators[0]
            src = deref(g.iter)
            if isinstance(g.iter, ast.Name) and g.iter.id == tr_param:
                return key_kind(e.elt, g.target.id)
            inner = keys_of(g.iter)
            if inner == "whole" and unparse(e.elt) in (f"{g.target.id}[-1]", f"{g.target.id}[-1:]"):
                return "last"
        return None
    unpack = [st for st in body if isinstance(st, ast.Assign) and len(st.targets) == 1 and isinstance(st.targets[0], (ast.Tuple, ast.List))
              and len(st.targets[0].elts) == 3 and all(isinstance(e, ast.Name) for e in st.targets[0].elts)]
    rets = [r for r in own_nodes(f.node) if isinstance(r, ast.Return)]
    if len(unpack) != 1 or len(rets) != 1 or not isinstance(rets[0].value, ast.Tuple) or len(rets[0].value.elts) != 3 \
            or not all(isinstance(e, ast.Name) for e in rets[0].value.elts):
        return False
    v = deref(unpack[0].value)
    if not (isinstance(v, (ast.ListComp, ast.GeneratorExp)) and len(v.generators) == 1 and not v.generators[0].ifs and isinstance(v.generators[0].target, ast.Name)
            and isinstance(v.elt, ast.Call) and call_name(v.elt) == "from_trace" and len(v.elt.args) == 1):
        return False
    g = v.generators[0]
    it = deref(g.iter)
    kind = None
    arg = unparse(v.elt.args[0])
    if isinstance(it, ast.Call) and call_name(it) == "argsort" and it.args and arg == f"{tr_param}[{g.target.id}]":
        kind = keys_of(it.args[0])
    elif isinstance(it, ast.Call) and call_name(it) == "sorted" and it.args and unparse(it.args[0]) == tr_param and arg == g.target.id:
        k = kwarg(it, "key")
        if isinstance(k, ast.Lambda) and len(k.args.args) == 1:
            kind = key_kind(k.body, k.args.args[0].arg)
    if kind is None:
        return False
    slots = [e.id for e in rets[0].value.elts]          # callers unpack (ns, ew, vt)
    got = [e.id for e in unpack[0].targets[0].elts]
    if kind == "last":
        ck.ok("C07.R1", q, "traces ordered by the last letter of the channel name")
    else:
        ck.violation("C07.R1", q, "component order key", "the traces are ordered by the whole channel code, not by its last letter: band/instrument letters or "
                     "trace order could decide the component (e.g. channels BHZ, HHE, HHN)", loc=f.loc(unpack[0]))
    if got == [slots[1], slots[0], slots[2]]:
        ck.ok("C07.R1", q, "sorted order (E, N, Z) unpacked into (ew, ns, vt); returns (ns, ew, vt)")
    else:
        ck.violation("C07.R1", q, "return order", f"the sorted traces (E, N, Z) are unpacked into {got} and returned as {slots}; callers unpack (ns, ew, vt)", loc=f.loc(unpack[0]))
    # refusal: the multiset of last letters must be exactly E, N, Z
    refusal = False
    for st in body:
        if isinstance(st, ast.If) and any(isinstance(b, ast.Raise) for b in st.body) and isinstance(st.test, ast.Compare) and len(st.test.ops) == 1 \
                and isinstance(st.test.ops[0], ast.NotEq):
            a, b = st.test.left, st.test.comparators[0]
            for x, y in ((a, b), (b, a)):
                if isinstance(x, ast.Call) and call_name(x) == "sorted" and x.args and keys_of(x.args[0]) == "last" \
                        and isinstance(y, (ast.List, ast.Tuple)) and [getattr(e, "value", None) for e in y.elts] == ["E", "N", "Z"]:
                    refusal = True
    if refusal:
        ck.ok("C07.R2", q, "anything else raises (missing / duplicate / misnamed component)")
    else:
        ck.violation("C07.R2", q, "refusal", "a missing, duplicated or misnamed component is not refused (the last letters are not required to be exactly E, N, Z)", loc=f.loc())
    return True


def _arrange_table(ck: Checker, prog: Program):
    """_arrange_traces as a decision table of one pass of its loop over the finite worlds (last letter of the channel name,
    which components were already found): letter N / E / Z with its slot free -> that slot of the returned (ns, ew, vt)
    receives TimeSeries.from_trace(trace) and the slot is marked taken; slot taken or any other letter -> raise."""
    from ..pathtable import PathTable
    import itertools as _it
    f = prog.func("data_wrangler._arrange_traces")
    q = f.qualname
    loops = [st for st in f.node.body if isinstance(st, ast.For)]
    if len(loops) != 1 or unparse(loops[0].iter) != f.params[0] or not isinstance(loops[0].target, ast.Name) or loops[0].orelse:
        raise AnalysisError(f"{q}: loop over the traces not found")
    lp = loops[0]
    rets = [r for r in own_nodes(f.node) if isinstance(r, ast.Return)]
    if len(rets) != 1 or not isinstance(rets[0].value, ast.Tuple) or len(rets[0].value.elts) != 3 or not all(isinstance(e, ast.Name) for e in rets[0].value.elts):
        raise AnalysisError(f"{q}: the routine does not return three named components")
    slots = [e.id for e in rets[0].value.elts]          # callers unpack (ns, ew, vt)
    TR = sp.Symbol("<trace>", real=True)
    leaves = PathTable(prog, f.module, env={lp.target.id: TR}, structured=True).leaves(lp.body)
    CH = sp.Function("attr_channel")(sp.Function("attr_meta")(TR))
    fn = lambda e: getattr(getattr(e, "func", None), "__name__", "")   # noqa: E731
    gi = sp.Function("getitem")
    flags = set()
    for l in leaves:
        for c, _t in l.conds:
            flags |= {a for a in c.atoms(sp.Symbol) if a != TR and not a.name.startswith("'")}

    def ev(e, letter, fl):
        """truth of a condition in the world (last letter, flag values); None when it mentions anything else"""
        if e in (sp.true, sp.false):
            return bool(e)
        if isinstance(e, sp.Not):
            v = ev(e.args[0], letter, fl)
            return None if v is None else not v
        if isinstance(e, (sp.And, sp.Or)):
            vs = [ev(a, letter, fl) for a in e.args]
            if any(v is None for v in vs):
                return None
            return all(vs) if isinstance(e, sp.And) else any(vs)
        if e in fl:
            return fl[e]
        if isinstance(e, (sp.Eq, sp.Ne)):
            a, b = e.lhs, e.rhs
            val = None
            if b == sp.true and fn(a) == "truth":
                val = ev(a.args[0], letter, fl)
            elif a in fl and b in (sp.true, sp.false):
                val = fl[a] == bool(b)
            else:
                for x, y in ((a, b), (b, a)):
                    if x in (gi(CH, sp.Integer(-1)), gi(CH, sp.Function("slice")(sp.Integer(-1), sp.Symbol("None"), sp.Symbol("None")))) and y.is_Symbol and y.name.startswith("'"):
                        val = y.name.strip("'") == letter
            if val is None:
                return None
            return val if isinstance(e, sp.Eq) else not val
        if fn(e) == "truth":
            return ev(e.args[0], letter, fl)
        if fn(e) == "endswith" and e.args[0] == CH and e.args[1].is_Symbol and e.args[1].name.startswith("'"):
            return letter.endswith(e.args[1].name.strip("'"))
        return None

    def outcome(letter, fl):
        live = []
        for l in leaves:
            vals = [ev(c, letter, fl) for c, t in l.conds]
            if any(v is None for v in vals):
                raise AnalysisError(f"{q}: a condition of the component selection is not about the channel's last letter or a found-flag: {l.cond()}")
            if all(v == t for v, (c, t) in zip(vals, l.conds)):
                live.append(l)
        if len(live) != 1:
            raise AnalysisError(f"{q}: {len(live)} paths for letter {letter!r}")
        return live[0]
    flags = sorted(flags, key=str)
    if len(flags) > 4:
        raise AnalysisError(f"{q}: too many state variables in the component selection")
    want_slot = {"N": 0, "E": 1, "Z": 2}
    taken_flag = {}
    problems = []
    for L, k in want_slot.items():
        l = outcome(L, {fl: False for fl in flags})
        if l.exit != "fall":
            problems.append(f"a first trace whose channel ends in {L!r} is refused")
            continue
        assigned = {nm: v for nm, v in l.env.items() if nm != lp.target.id and v == sp.Function("from_trace")(sp.Symbol("TimeSeries", real=True), TR)}
        if list(assigned) != [slots[k]]:
            problems.append(f"a trace whose channel ends in {L!r} is stored as {sorted(assigned) or 'nothing'}; the callers unpack position {k} ({('ns', 'ew', 'vt')[k]}) from `{slots[k]}`")
        became = [fl for fl in flags if l.env.get(fl.name) == sp.true]
        if len(became) != 1:
            problems.append(f"letter {L!r}: the slot is not marked as taken")
        else:
            taken_flag[L] = became[0]
    if len(set(taken_flag.values())) != len(taken_flag):
        problems.append("two letters share one found-flag")
    if not problems:
        for L, k in want_slot.items():
            for vals in _it.product((False, True), repeat=len(flags)):
                fl = dict(zip(flags, vals))
                l = outcome(L, fl)
                if fl[taken_flag[L]] and l.exit != "raise":
                    problems.append(f"a second trace whose channel ends in {L!r} is accepted")
                if not fl[taken_flag[L]] and l.exit != "fall":
                    problems.append(f"a trace whose channel ends in {L!r} is refused although its slot is free")
        for other in ("X", "1", "H"):
            for vals in _it.product((False, True), repeat=len(flags)):
                if outcome(other, dict(zip(flags, vals))).exit != "raise":
                    problems.append(f"a trace whose channel ends in {other!r} is accepted")
    if not problems:
        for sfx, var in (("E", "ew"), ("N", "ns"), ("Z", "vt")):
            ck.ok("C07.R1", q, f"suffix {sfx!r} -> {var}", detail="selected by the channel name's last letter, once (decision table over letter x found-flags)")
        ck.ok("C07.R2", q, "anything else raises (missing / duplicate / misnamed component)")
        ck.ok("C07.R1", q, "returns (ns, ew, vt)")
    else:
        for pr in sorted(set(problems))[:3]:
            ck.violation("C07.R1" if "refused" not in pr and "accepted" not in pr else "C07.R2", q, pr[:90], pr + ": band/instrument letters or trace order could decide the component", loc=f.loc(lp))


def _arrange_forms(ck: Checker, prog: Program):
    f = prog.func("data_wrangler._arrange_traces")
    q = f.qualname
    loops = [st for st in f.node.body if isinstance(st, ast.For)]
    if len(loops) != 1 or unparse(loops[0].iter) != f.params[0]:
        raise AnalysisError(f"{q}: loop over the traces not found")
    tr = unparse(loops[0].target)
    chain = []
    cur = loops[0].body[0] if loops[0].body and isinstance(loops[0].body[0], ast.If) else None
    while isinstance(cur, ast.If):
        chain.append(cur)
        if len(cur.orelse) == 1 and isinstance(cur.orelse[0], ast.If):
            cur = cur.orelse[0]
        else:
            final_else = cur.orelse
            break
    want = {"E": "ew", "N": "ns", "Z": "vt"}
    seen = {}
    if not chain:
        _arrange_by_code(ck, prog, f, loops[0])
        _arrange_callers(ck, prog)
        return
    for node in chain:
        t = node.test
        okk = isinstance(t, ast.BoolOp) and isinstance(t.op, ast.And) and len(t.values) == 2
        suffix = var = None
        if okk:
            a, b = t.values
            if isinstance(a, ast.Call) and call_name(a) == "endswith" and unparse(a.func.value) == f"{tr}.meta.channel" and a.args and isinstance(a.args[0], ast.Constant):
                suffix = a.args[0].value
            flag = unparse(b.operand) if isinstance(b, ast.UnaryOp) and isinstance(b.op, ast.Not) else None
            asg = {unparse(x.targets[0]): unparse(x.value) for x in node.body if isinstance(x, ast.Assign)}
            var = [k for k, v in asg.items() if v == f"TimeSeries.from_trace({tr})"]
            okk = suffix in want and var == [want[suffix]] and flag is not None and asg.get(flag) == "True" and flag == f"found_{want[suffix]}"
        key = f"suffix {suffix!r} -> {var[0] if var else None}"
        if okk:
            seen[suffix] = True
            ck.ok("C07.R1", q, key, detail="selected by the channel name's last letter, once")
        else:
            ck.violation("C07.R1", q, norm_key(node, 100),
                         f"a component is not selected by `channel.endswith(<E|N|Z>) and not found_<component>` feeding the matching variable "
                         f"(test `{unparse(t)}`): band/instrument letters or trace order could decide the component", loc=f.loc(node))
    if set(seen) != set(want):
        ck.violation("C07.R1", q, "suffix coverage", f"suffixes handled: {sorted(seen)}; expected E, N, Z", loc=f.loc())
    if chain and any(isinstance(b, ast.Raise) for b in final_else):
        ck.ok("C07.R2", q, "anything else raises (missing / duplicate / misnamed component)")
    else:
        ck.violation("C07.R2", q, "final else", "a trace that matches no free component does not raise", loc=f.loc())
    rets = [r for r in own_nodes(f.node) if isinstance(r, ast.Return)]
    if len(rets) == 1 and unparse(rets[0].value) == "(ns, ew, vt)":
        ck.ok("C07.R1", q, "returns (ns, ew, vt)")
    else:
        ck.violation("C07.R1", q, "return order", f"returns {unparse(rets[0].value) if rets else None}; callers unpack (ns, ew, vt)", loc=f.loc())
    _arrange_callers(ck, prog)


def _arrange_by_code(ck: Checker, prog: Program, f, loop):
    """Variant: components collected in a dict keyed by the channel's last letter."""
    from ..pathtable import PathTable, literals, same_rel
    from ..resolve import Resolver, canon
    q = f.qualname
    tr = unparse(loop.target)
    leaves = PathTable(prog, f.module).leaves(loop.body)
    keep = [l for l in leaves if l.exit == "fall"]
    if len(keep) != 1 or any(l.exit not in ("fall", "raise") for l in leaves):
        raise AnalysisError(f"{q}: component selection not recognised ({len(keep)} accepting paths)")
    l = keep[0]
    stores = [e for e in l.events if e[0] == "store" and id(e[3]) in l.store_at]
    if len(stores) != 1:
        raise AnalysisError(f"{q}: component selection not recognised (stores per trace: {len(stores)})")
    base, code = l.store_at[id(stores[0][3])]
    T = Translator()
    ch = T.sym(f"{tr}.meta.channel")
    gi, sl, NONE = sp.Function("getitem"), sp.Function("slice"), sp.Symbol("None")
    codes = [gi(ch, sl(sp.Integer(-1), NONE, NONE)), gi(ch, sp.Integer(-1))]
    if code not in codes or not base.is_Symbol:
        raise AnalysisError(f"{q}: component key `{code}` is not the last letter of the channel name")
    val_ok = stores[0][2] == sp.Function("from_trace")(T.sym("TimeSeries"), T.sym(tr))
    lits = literals(l)
    in_ = sp.Function("in_")
    letters = sp.Tuple(sp.Symbol("'E'"), sp.Symbol("'N'"), sp.Symbol("'Z'"))
    known = any(same_rel(x, sp.Eq(in_(code, p_), sp.true, evaluate=False)) for x in lits for p_ in _perms(letters))
    nodup = any(same_rel(x, sp.Ne(in_(code, base), sp.true, evaluate=False)) for x in lits)
    if val_ok and known:
        for sfx, var in (("E", "ew"), ("N", "ns"), ("Z", "vt")):
            ck.ok("C07.R1", q, f"suffix {sfx!r} -> {var}", detail="selected by the channel name's last letter (keyed store)")
    else:
        ck.violation("C07.R1", q, "suffix coverage", f"a trace is stored under {code} without checking that it is one of E, N, Z (value ok: {val_ok})", loc=f.loc(loop))
    if nodup and known:
        ck.ok("C07.R2", q, "anything else raises (missing / duplicate / misnamed component)")
    else:
        ck.violation("C07.R2", q, "final else", "a trace that matches no free component does not raise", loc=f.loc())
    rets = [r for r in own_nodes(f.node) if isinstance(r, ast.Return)]
    R = Resolver(prog, f, keep={str(base)})
    want = sp.Tuple(*[gi(base, sp.Symbol(f"'{c}'")) for c in ("N", "E", "Z")])
    if len(rets) == 1 and canon(R.value(rets[0].value, rets[0])) == want:
        ck.ok("C07.R1", q, "returns (ns, ew, vt)")
    else:
        ck.violation("C07.R1", q, "return order", f"returns {unparse(rets[0].value) if rets else None}; callers unpack (ns, ew, vt)", loc=f.loc())


def _perms(t):
    import itertools as _it
    return [sp.Tuple(*p) for p in _it.permutations(list(t))]


def _arrange_callers(ck: Checker, prog: Program):
    n = 0
    for r in ("_read_mseed", "_read_sac", "_read_gcf"):
        g = prog.func(f"data_wrangler.{r}")
        cs = calls_in(g.node, "_arrange_traces")
        n += len(cs)
        st = parent_of(cs[0]) if cs else None
        if len(cs) == 1 and isinstance(st, ast.Assign) and unparse(st.targets[0]) == "(ns, ew, vt)" and unparse(cs[0].args[0]) == "traces":
            ck.ok("C07.R1", g.qualname, norm_key(st))
        else:
            ck.violation("C07.R1", g.qualname, "unpack of _arrange_traces", "the result of _arrange_traces is not unpacked as ns, ew, vt", loc=g.loc())
        cnt = [x for x in own_nodes(g.node) if isinstance(x, ast.If) and unparse(x.test) == "len(traces) != 3" and any(isinstance(b, ast.Raise) for b in x.body)]
        if cnt:
            ck.ok("C07.R2", g.qualname, "len(traces) != 3 raises", nontrivial=False)
        else:
            ck.violation("C07.R2", g.qualname, "trace count", "a file set that does not hold exactly three traces is not refused", loc=g.loc())
    ck.floor("C07.R1", n, 3, "callers of _arrange_traces")
    ft = prog.func("timeseries.TimeSeries.from_trace")
    from ..pathtable import PathTable
    init = prog.func("timeseries.TimeSeries.__init__")

    def hook(call, T):
        if isinstance(call.func, ast.Name) and call.func.id == "cls":
            b = bind_call(call, init.params, skip_first=True)
            return sp.Function("TimeSeries")(*[T.tr(b[p]) if p in b else sp.Symbol("<missing>") for p in init.params[1:]])
        return None
    leaves = PathTable(prog, ft.module, call_hook=hook, structured=True).leaves(ft.node.body)
    T_ = sp.Symbol("trace", real=True)
    want = sp.Function("TimeSeries")(sp.Function("attr_data")(T_), sp.Function("attr_delta")(sp.Function("attr_stats")(T_)))
    if len(leaves) == 1 and leaves[0].exit == "return" and leaves[0].value == want:
        ck.ok("C07.R1", ft.qualname, "samples = trace.data, time step = trace.stats.delta")
    else:
        ck.violation("C07.R1", ft.qualname, "from_trace", f"a trace is not converted as (trace.data, trace.stats.delta) but as {[str(l.value) for l in leaves]}", loc=ft.loc())


def _pattern_text(prog: Program, exec_name: str) -> Optional[str]:
    mod = prog.module("regex")
    sym = mod.symbols.get(exec_name)
    if not sym or sym[0] != "const" or not isinstance(sym[1], ast.Call):
        return None
    a = sym[1].args[0] if sym[1].args else None

    def text(e, depth=0) -> Optional[str]:
        """A pattern text written as literals, module constants and their concatenation."""
        if depth > 6 or e is None:
            return None
        if isinstance(e, ast.Constant):
            return e.value if isinstance(e.value, str) else None
        if isinstance(e, ast.Name):
            s2 = mod.symbols.get(e.id)
            return text(s2[1], depth + 1) if s2 and s2[0] == "const" else None
        if isinstance(e, ast.BinOp) and isinstance(e.op, ast.Add):
            l_, r_ = text(e.left, depth + 1), text(e.right, depth + 1)
            return None if l_ is None or r_ is None else l_ + r_
        if isinstance(e, ast.JoinedStr):
            parts = []
            for v in e.values:
                if isinstance(v, ast.Constant):
                    parts.append(v.value)
                elif isinstance(v, ast.FormattedValue) and v.format_spec is None and v.conversion == -1:
                    t_ = text(v.value, depth + 1)
                    if t_ is None:
                        return None
                    parts.append(t_)
                else:
                    return None
            return "".join(parts)
        return None
    return text(a)


def _header_field(st: ast.Assign) -> Optional[str]:
    """name of the regex object for `x = conv(<re>_exec.search(text).groups()[0])`"""
    for c in calls_in(st.value, "search"):
        if isinstance(c.func, ast.Attribute) and isinstance(c.func.value, ast.Name) and c.func.value.id.endswith("_exec"):
            return c.func.value.id
    return None


def _column_reader(ck: Checker, prog: Program, fname: str, roles_from_patterns: bool):
    f = prog.func(f"data_wrangler.{fname}")
    q = f.qualname
    loops = [st for st in f.node.body if isinstance(st, ast.For) and "finditer" in unparse(st.iter)]
    if len(loops) != 1:
        raise AnalysisError(f"{q}: row loop not found")
    lp = loops[0]
    stores = {}
    for st in lp.body:
        if isinstance(st, ast.Assign) and isinstance(st.targets[0], ast.Subscript) and unparse(st.targets[0].value) == "data":
            sl = st.targets[0].slice
            if isinstance(sl, ast.Tuple) and len(sl.elts) == 2 and unparse(sl.elts[0]) == "idx" and isinstance(sl.elts[1], ast.Constant):
                stores[sl.elts[1].value] = st.value
    return f, q, lp, stores


def _store_name(st) -> Optional[str]:
    t = st.targets[0] if isinstance(st, ast.Assign) else None
    return t.value.id if isinstance(t, ast.Subscript) and isinstance(t.value, ast.Name) else None


def _regex_of(v) -> Optional[str]:
    """Name of the compiled pattern whose first group a header value is taken from: conv(search(<re>, text).groups()[0])."""
    for a in sp.preorder_traversal(v):
        if getattr(getattr(a, "func", None), "__name__", "") == "search" and a.args and a.args[0].is_Symbol and a.args[0].name.endswith("_exec"):
            return a.args[0].name
    return None


def _column_provenance(ck: Checker, prog: Program, fname: str, roles, fs_exec: str, npts_exec: str, scalings=()):
    """Column reader as a provenance table: file field -> data column -> constructor slot, plus scalings, time step and the
    row counter.  `roles(source term)` names the component (V/N/E) of what is stored into a column."""
    from ..pathtable import PathTable, literals
    f = prog.func(f"data_wrangler.{fname}")
    q = f.qualname
    pt = PathTable(prog, f.module, unroll=True, structured=True, opaque=("_check_npts",))
    leaves = pt.leaves(f.node.body)
    rets = [l for l in leaves if l.exit == "return"]
    if not rets:
        raise AnalysisError(f"{q}: no returning path")
    loops = [st for st in f.node.body if isinstance(st, ast.For) and any(call_name(c) == "finditer" for c in calls_in(st.iter))]
    if len(loops) != 1:
        raise AnalysisError(f"{q}: row loop not found")
    lp = loops[0]
    l = rets[0]
    if id(lp) not in l.snaps:
        raise AnalysisError(f"{q}: a returning path skips the row loop")
    env0 = dict(l.snaps[id(lp)][0])
    GROUP = sp.Symbol("<row match>", real=True)
    if not isinstance(lp.target, ast.Name):
        raise AnalysisError(f"{q}: row loop target")
    # the running row counter: incremented by one in the row loop
    counters = [st.target.id for st in lp.body if isinstance(st, ast.AugAssign) and isinstance(st.target, ast.Name) and isinstance(st.op, ast.Add)
                and isinstance(st.value, ast.Constant) and st.value.value == 1]
    if len(counters) != 1:
        raise AnalysisError(f"{q}: the row counter of the row loop was not identified ({counters})")
    rowvar = counters[0]
    ROW = sp.Symbol("<row>", integer=True)
    env = dict(env0)
    env[lp.target.id] = GROUP
    env[rowvar] = ROW
    sub = PathTable(prog, f.module, env=env, unroll=True, structured=True).leaves(lp.body)
    if len(sub) != 1:
        raise AnalysisError(f"{q}: branching row loop")
    # number of fields in a row: the capturing groups of the row pattern
    it = lp.iter
    pat = it.func.value.id if isinstance(it, ast.Call) and isinstance(it.func, ast.Attribute) and isinstance(it.func.value, ast.Name) else None
    ptxt = _pattern_text(prog, pat) if pat else None
    ngroups = _groups(ptxt) if ptxt is not None else None
    cols, arrs = {}, set()
    from ..pathtable import comp_element
    for e in sub[0].events:
        if e[0] == "store" and id(e[3]) in sub[0].store_at:
            base, ix = sub[0].store_at[id(e[3])]
            if getattr(ix, "func", None) == sp.Function("idx") and ix.args[0] == ROW and len(ix.args) == 2 and ix.args[1].is_Integer:
                cols[int(ix.args[1])] = e[2]
                arrs.add(_store_name(e[3]))
            elif getattr(ix, "func", None) == sp.Function("idx") and ix.args[0] == ROW and len(ix.args) == 2 and isinstance(ix.args[1], sp.Tuple):
                # data[row, [c0, c1, c2]] = values: value j lands in column c_j
                v = e[2]
                if not isinstance(v, sp.Tuple) and comp_element(v, 0) is not None:
                    v = sp.Tuple(*[comp_element(v, i) for i in range(len(ix.args[1]))])
                if not isinstance(v, sp.Tuple) or len(v) != len(ix.args[1]):
                    raise AnalysisError(f"{q}: row store `{norm_key(e[3], 60)}` not understood")
                for cj, x in zip(ix.args[1], v):
                    cols[int(cj) if cj.is_Integer else cj] = x
                arrs.add(_store_name(e[3]))
            elif ix == ROW or (getattr(ix, "func", None) == sp.Function("idx") and ix.args == (ROW,)):
                # whole row at once: a display of values, or a map over the fields of the row
                v = e[2]
                if not isinstance(v, sp.Tuple) and comp_element(v, 0) is not None:
                    g = (v.args[0] if getattr(v.func, "__name__", "") in ("list", "tuple") else v).args[1].args[1]
                    if g == sp.Function("groups")(GROUP) and ngroups is not None:
                        v = sp.Tuple(*[comp_element(v, i) for i in range(ngroups)])
                if not isinstance(v, sp.Tuple):
                    raise AnalysisError(f"{q}: row store `{norm_key(e[3], 60)}` not understood")
                for j, x in enumerate(v):
                    cols[j] = x
                arrs.add(_store_name(e[3]))
    if len(arrs) != 1 or None in arrs:
        raise AnalysisError(f"{q}: expected the row values to be stored into one local array, found {sorted(map(str, arrs))}")
    arr = next(iter(arrs))
    col_role = {j: roles(v, GROUP) for j, v in cols.items()}
    if sorted(col_role.values(), key=str) != ["E", "N", "V"] or sorted(cols, key=str) != [0, 1, 2]:
        ck.violation("C07.R1", q, "column filling", f"data columns are filled with components {col_role} (sources { {j: str(v)[:80] for j, v in cols.items()} }); each of V, N, E must fill exactly one column",
                     loc=f.loc(lp))
        return f, q, lp
    ck.ok("C07.R1", q, f"data columns {dict(sorted(col_role.items(), key=str))} by the file's own channel description")
    # constructor slots, scalings and time step - per returning path (the text may come from a file or a StringIO)
    bad, bad_scale, bad_dt = [], [], []
    ARR = sp.Symbol(arr, real=True)
    gi = sp.Function("getitem")
    for l in rets:
        v = l.value
        if getattr(getattr(v, "func", None), "__name__", "") != "SeismicRecording3C" or len(v.args) < 3:
            bad.append(f"returns {str(v)[:80]}")
            continue
        envl = l.snaps[id(lp)][0] if id(lp) in l.snaps else {}
        want_arr = ARR
        for ex in scalings:
            fld = None
            for nm, val in envl.items():
                if hasattr(val, "args") and _regex_of(val) == ex:
                    fld = val
            if fld is None:
                bad_scale.append(f"the header field read by {ex} is not used")
                continue
            want_arr = want_arr / fld
        for slot, want in zip(v.args[:3], ("N", "E", "V")):
            if getattr(getattr(slot, "func", None), "__name__", "") != "TimeSeries" or len(slot.args) < 2:
                bad.append(f"slot {want}: {str(slot)[:60]}")
                continue
            data, dt = slot.args[0], slot.args[1]
            j = a_ = None
            if getattr(data, "func", None) == gi and getattr(getattr(data.args[0], "func", None), "__name__", "") == "attr_T" and data.args[1].is_Integer:
                j, a_ = int(data.args[1]), data.args[0].args[0]
            elif getattr(data, "func", None) == gi and getattr(data.args[1], "func", None) == sp.Function("idx") and data.args[1].args[1].is_Integer:
                j, a_ = int(data.args[1].args[1]), data.args[0]
            if j is None or col_role.get(j) != want:
                bad.append(f"the {want} slot of the recording receives column {j} ({col_role.get(j)})")
            if a_ is not None and not equal(a_, want_arr):
                bad_scale.append(f"the columns handed on are those of {str(a_)[:100]}; expected {str(want_arr)[:100]}")
            flds = [a for a in sp.preorder_traversal(dt) if getattr(a, "func", None) == gi]
            if not (_regex_of(dt) == fs_exec and flds and equal(dt, 1 / flds[0])):
                bad_dt.append(f"the time step is {str(dt)[:80]}")
    if not bad:
        ck.ok("C07.R1", q, "constructor slots (ns, ew, vt) receive the N, E, V columns, each as TimeSeries(column, dt)")
    else:
        ck.violation("C07.R1", q, "column unpack", "; ".join(bad[:3]), loc=f.loc())
    if not bad_scale:
        if scalings:
            ck.ok("C07.R1", q, "samples divided by the header's gain and conversion factor (whole array, after the rows are read)")
    else:
        ck.violation("C07.R1", q, "header scaling", "; ".join(sorted(set(bad_scale))[:2]), loc=f.loc())
    if not bad_dt:
        ck.ok("C07.R1", q, "dt = 1 / sample rate of the header")
    else:
        ck.violation("C07.R1", q, "time step", f"{sorted(set(bad_dt))[0]}, not 1/(sample rate) from the header field {fs_exec}", loc=f.loc())
    _counter_and_check(ck, f, q, lp, npts_exec, rowvar)
    return f, q, lp


def _saf(ck: Checker, prog: Program):
    def roles(v, GROUP):
        ex = _regex_of(v)
        pat = _pattern_text(prog, ex) if ex else None
        if pat is None or pat.count("(") != 1:
            return None
        for letter in ("V", "N", "E"):
            if pat.rstrip().endswith(f"_ID = {letter}"):
                return letter
        return None
    f, q, lp = _column_provenance(ck, prog, "_read_saf", roles, "saf_fs_exec", "saf_npts_exec")
    # NORTH_ROT handling: decision table of the orientation handed to the constructor
    from ..pathtable import PathTable, literals, same_rel, negate
    pt = PathTable(prog, f.module, unroll=True, structured=True, opaque=("_check_npts",))
    rets = [l for l in pt.leaves(f.node.body) if l.exit == "return"]
    R = lambda n: sp.Symbol(n, real=True)   # noqa: E731
    DFN, NONE = R("degrees_from_north"), sp.Symbol("None")
    seen = {}
    for l in rets:
        v = l.value
        if getattr(getattr(v, "func", None), "__name__", "") != "SeismicRecording3C" or len(v.args) < 4:
            continue
        o = v.args[3]
        lits = literals(l)
        given = any(same_rel(x, sp.Ne(DFN, NONE, evaluate=False)) for x in lits)
        raised = any("raised(" in str(x) for x in lits)
        ex = _regex_of(o)
        if given:
            seen["given"] = (o == DFN)
        elif raised:
            seen["missing"] = (o == 0)
        elif ex == "saf_north_rot_exec":
            rot = [a for a in sp.preorder_traversal(o) if getattr(getattr(a, "func", None), "__name__", "") == "getitem" and _regex_of(a) == "saf_north_rot_exec"]
            d = sp.simplify(o - rot[0]) if rot else None
            chan = [x for x in lits if isinstance(x, sp.Eq) and x.rhs == 1 or isinstance(x, sp.Eq) and x.lhs == 1]
            which = {_regex_of(x) for x in chan}
            if d == 0:
                seen["north first"] = which == {"saf_n_ch_exec"}
            elif d == 90:
                seen["east first"] = "saf_e_ch_exec" in which
            else:
                seen[f"offset {d}"] = False
        else:
            seen[f"orientation {str(o)[:40]}"] = False
    need = {"given", "missing", "north first", "east first"}
    if need <= set(seen) and all(seen.values()):
        ck.ok("C07.R1", q, "NORTH_ROT applied (+90 when the east channel comes first)", detail="explicit orientation wins; missing keyword -> 0")
    else:
        ck.violation("C07.R1", q, "NORTH_ROT", f"the orientation metadata NORTH_ROT is not applied as documented (cases {seen})", loc=f.loc())


def _minishark(ck: Checker, prog: Program):
    def roles(v, GROUP):
        gi = sp.Function("getitem")
        if getattr(v, "func", None) == gi and v.args[0] == sp.Function("groups")(GROUP) and v.args[1].is_Integer:
            return {0: "V", 1: "N", 2: "E"}.get(int(v.args[1]))
        return None
    _column_provenance(ck, prog, "_read_minishark", roles, "mshark_fs_exec", "mshark_npts_exec", scalings=("mshark_gain_exec", "mshark_conversion_exec"))


def _unpack_and_build(ck: Checker, f, q: str, order: List[str]):
    unp = [st for st in f.node.body if isinstance(st, ast.Assign) and unparse(st.value) == "data.T"]
    good = len(unp) == 1 and isinstance(unp[0].targets[0], ast.Tuple) and [unparse(e) for e in unp[0].targets[0].elts] == order
    builds = {}
    for st in f.node.body:
        if isinstance(st, ast.Assign) and isinstance(st.value, ast.Call) and call_name(st.value) == "TimeSeries":
            builds[unparse(st.targets[0])] = (unparse(st.value.args[0]) if st.value.args else None, unparse(kwarg(st.value, "dt_in_seconds")) if kwarg(st.value, "dt_in_seconds") else None)
    good = good and builds == {c: (c, "dt") for c in order}
    if good:
        ck.ok("C07.R1", q, f"{', '.join(order)} = data.T; each wrapped as TimeSeries(., dt)")
    else:
        ck.violation("C07.R1", q, "column unpack", f"columns are unpacked as {[unparse(e) for e in unp[0].targets[0].elts] if unp else None} / wrapped as {builds}; expected {order}",
                     loc=f.loc())


def _counter_and_check(ck: Checker, f, q: str, lp: ast.For, npts_exec: str, idxname: str = "idx"):
    """`idx` counts the parsed rows (0 before the loop, +1 once per row) and _check_npts(header, idx) follows the loop."""
    cfg = cfg_of(f)

    def classify(n):
        st = cfg.ast_of(n)
        if cfg.kind(n) == "stmt" and isinstance(st, ast.AugAssign) and unparse(st.target) == idxname:
            return 0 if (isinstance(st.op, ast.Add) and unparse(st.value) == "1") else 1
        if cfg.kind(n) == "stmt" and isinstance(st, ast.Assign) and unparse(st.targets[0]) == idxname:
            return 1
        return None
    res = events_per_iteration(cfg, lp, classify, 2)
    init = [st for st in own_nodes(f.node) if isinstance(st, ast.Assign) and unparse(st.targets[0]) == idxname and st.lineno < lp.lineno]
    init_ok = init and unparse(init[-1].value) == "0" and (parent_of(init[-1]) is parent_of(lp))
    cs = [c for c in calls_in(parent_of(lp), "_check_npts") if c.lineno > lp.end_lineno]
    hdr = None
    # the comparison is symmetric: the two counts handed over (by position or keyword) are the row counter and the header count
    two = None
    if len(cs) == 1 and not any(isinstance(a_, ast.Starred) for a_ in cs[0].args) and not any(k.arg is None for k in cs[0].keywords):
        bnd = bind_call(cs[0], _npts_params(_PROG[0]))
        if len(bnd) == 2 and len(cs[0].args) + len(cs[0].keywords) == 2:
            two = list(bnd.values())
    others = [x for x in (two or []) if unparse(x) != idxname]
    hname = unparse(others[0]) if two is not None and len(others) == 1 else None
    hexpr = others[0] if hname is not None else None
    for st in own_nodes(f.node):
        if isinstance(st, ast.Assign) and unparse(st.targets[0]) == hname:
            hdr = _header_field(st)
    if hexpr is not None and hdr is None:
        for c2 in calls_in(hexpr, "search"):
            if isinstance(c2.func, ast.Attribute) and isinstance(c2.func.value, ast.Name):
                hdr = c2.func.value.id
    okc = two is not None and hname is not None and hdr == npts_exec
    if res == {(1, 0)} and init_ok and okc:
        ck.ok("C07.R2", q, "_check_npts(npts_header, idx) with idx = number of rows parsed", detail=f"header count from {hdr}")
    else:
        ck.violation("C07.R2", q, "sample-count cross check",
                     f"the header's sample count is not compared with the reader's own row counter after the rows are read "
                     f"(counter per row: {sorted(res)}, starts at 0: {bool(init_ok)}, call: {[unparse(a) for a in (two or [])]})", loc=f.loc(lp))
    alloc = [st for st in own_nodes(f.node) if isinstance(st, ast.Assign) and hname is not None and hname in unparse(st.value) and isinstance(st.value, ast.Call) and call_name(st.value) in ("empty", "zeros")]
    if alloc:
        ck.ok("C07.R2", q, "array sized from the header count", nontrivial=False)


def _peer(ck: Checker, prog: Program):
    f = prog.func("data_wrangler._read_peer")
    q = f.qualname
    files = [st for st in f.node.body if isinstance(st, ast.For) and unparse(st.iter) == "fnames"]
    if len(files) != 1:
        raise AnalysisError(f"{q}: per-file loop not found")
    fl = files[0]
    rows = [st for st in fl.body if isinstance(st, ast.For) and "finditer" in unparse(st.iter)]
    if len(rows) != 1:
        raise AnalysisError(f"{q}: sample loop not found")
    counters = [st.target.id for st in rows[0].body if isinstance(st, ast.AugAssign) and isinstance(st.target, ast.Name) and isinstance(st.op, ast.Add)
                and isinstance(st.value, ast.Constant) and st.value.value == 1]
    _counter_and_check(ck, f, q, rows[0], "peer_npts_exec", counters[0] if len(counters) == 1 else "idx")
    # ---- structural facts of the PEER reader (no source fragments: names and layout are free)
    cfg = cfg_of(f)
    # parallel lists: initialised empty before the per-file loop, appended exactly once per file
    lists = {}
    for st in f.node.body:
        if isinstance(st, ast.Assign) and len(st.targets) == 1 and isinstance(st.targets[0], ast.Name) and isinstance(st.value, ast.List) and not st.value.elts \
                and st.lineno < fl.lineno:
            lists[st.targets[0].id] = []
    for c in calls_in(fl, "append"):
        if isinstance(c.func.value, ast.Name) and c.func.value.id in lists and len(c.args) == 1:
            lists[c.func.value.id].append(c)
    par = {k: v for k, v in lists.items() if v}
    evs = [c for v in par.values() for c in v]

    def classify(n):
        if cfg.kind(n) != "stmt":
            return None
        a = cfg.ast_of(n)
        for i, c in enumerate(evs):
            if any(x is c for x in ast.walk(a)):
                return i
        return None
    res = events_per_iteration(cfg, fl, classify, max(1, len(evs)))
    if evs and res == {tuple(1 for _ in evs)} and all(len(v) == 1 for v in par.values()):
        ck.ok("C07.R1", q, f"per file exactly one entry is appended to each of {sorted(par)}", detail="component, key and time-step lists stay aligned")
    else:
        ck.violation("C07.R1", q, "per-file lists", f"per file the lists {sorted(par)} receive {sorted(res)} entries: keys, time steps and components would not stay aligned", loc=f.loc(fl))
    # one list of per-file tuples, split afterwards into lists by position ([t[k] for t in parsed]): the derived lists are the
    # parallel lists, entry k of every appended tuple is what each of them receives per file
    appended = {nm: (v[0].args[0], v[0]) for nm, v in par.items()}        # list -> (what is appended, where)
    if len(par) == 1:
        (only, v), = par.items()
        tup = v[0].args[0]
        if isinstance(tup, ast.Name):
            defs_ = [x for x in ast.walk(fl) if isinstance(x, ast.Assign) and len(x.targets) == 1 and isinstance(x.targets[0], ast.Name) and x.targets[0].id == tup.id]
            tup = defs_[-1].value if len(defs_) == 1 else tup
        if isinstance(tup, ast.Tuple):
            derived = {}
            for st in f.node.body:
                if isinstance(st, ast.Assign) and len(st.targets) == 1 and isinstance(st.targets[0], ast.Name) and isinstance(st.value, ast.ListComp) \
                        and len(st.value.generators) == 1 and not st.value.generators[0].ifs and isinstance(st.value.generators[0].iter, ast.Name) \
                        and st.value.generators[0].iter.id == only and st.lineno > fl.lineno:
                    g = st.value.generators[0]
                    if isinstance(g.target, ast.Tuple) and len(g.target.elts) == len(tup.elts) and isinstance(st.value.elt, ast.Name):
                        ks = [k for k, e in enumerate(g.target.elts) if isinstance(e, ast.Name) and e.id == st.value.elt.id]
                        if len(ks) == 1:
                            derived[st.targets[0].id] = ks[0]
                    elif isinstance(g.target, ast.Name) and isinstance(st.value.elt, ast.Subscript) and isinstance(st.value.elt.value, ast.Name) \
                            and st.value.elt.value.id == g.target.id and isinstance(st.value.elt.slice, ast.Constant) and isinstance(st.value.elt.slice.value, int):
                        derived[st.targets[0].id] = st.value.elt.slice.value
            if len(derived) >= 3:
                appended = {nm: (tup.elts[k], v[0]) for nm, k in derived.items() if 0 <= k < len(tup.elts)}
    # which list is which: by what is appended (regex group / TimeSeries)
    keys_l = dts_l = comp_l = None
    for nm, (a, at_) in appended.items():
        srcs, stmts = value_sources(f, a, at_)
        text = " ".join(unparse(x.value) if isinstance(x, ast.Assign) else "" for x in stmts) + " " + unparse(a)
        if "TimeSeries(" in text and comp_l is None and isinstance(a, ast.Call) and call_name(a) == "TimeSeries":
            comp_l = nm
        elif "peer_direction_exec" in text:
            keys_l = nm
        elif "peer_dt_exec" in text:
            dts_l = nm
    if None in (keys_l, dts_l, comp_l):
        raise AnalysisError(f"{q}: the lists of component keys / time steps / components were not identified ({sorted(appended)})")
    ck.ok("C07.R1", q, f"component key from the direction field, time step from the DT field, one TimeSeries per file", nontrivial=False)
    # the series appended is built from this file's samples and this file's time step
    ts_call, ts_at = appended[comp_l]
    dt_arg = kwarg(ts_call, "dt_in_seconds") or (ts_call.args[1] if len(ts_call.args) > 1 else None)
    amp_arg = ts_call.args[0] if ts_call.args else kwarg(ts_call, "amplitude")
    dsrc, dst = value_sources(f, dt_arg, ts_at) if dt_arg is not None else (set(), [])
    asrc, ast_ = value_sources(f, amp_arg, ts_at) if amp_arg is not None else (set(), [])
    dt_ok = any("peer_dt_exec" in unparse(x) for x in dst) and all(any(y is x for y in ast.walk(fl)) for x in dst if isinstance(x, ast.Assign))
    sample_store = [st for st in ast.walk(rows[0]) if isinstance(st, ast.Assign) and isinstance(st.targets[0], ast.Subscript) and isinstance(amp_arg, ast.Name)
                    and unparse(st.targets[0].value) == amp_arg.id]
    amp_ok = len(sample_store) == 1 and any(isinstance(x, ast.Assign) and any(y is x for y in ast.walk(fl)) for x in ast_)
    if dt_ok and amp_ok:
        ck.ok("C07.R1", q, "series per file = TimeSeries(this file's samples, this file's time step)")
    else:
        ck.violation("C07.R1", q, "series per file", f"the series appended per file is not built from that file's samples and time step (time step ok: {dt_ok}, samples ok: {amp_ok})", loc=f.loc(ts_call))
    # deletions keep the key and component lists aligned
    dels = [st for st in own_nodes(f.node) if isinstance(st, ast.Delete)]
    bad_del = []
    for st in dels:
        idxs = {}
        for t in st.targets:
            if isinstance(t, ast.Subscript) and isinstance(t.value, ast.Name) and t.value.id in (keys_l, comp_l):
                idxs[t.value.id] = unparse(t.slice)
        if idxs and (set(idxs) != {keys_l, comp_l} or len(set(idxs.values())) != 1):
            # a sibling delete statement in the same block may complete the pair
            blk = [x for x in own_nodes(f.node) if isinstance(x, ast.Delete) and parent_of(x) is parent_of(st)]
            allidx = {}
            for x in blk:
                for t in x.targets:
                    if isinstance(t, ast.Subscript) and isinstance(t.value, ast.Name) and t.value.id in (keys_l, comp_l):
                        allidx.setdefault(t.value.id, set()).add(unparse(t.slice))
            if set(allidx) != {keys_l, comp_l} or allidx[keys_l] != allidx[comp_l]:
                bad_del.append(st)
    if not bad_del:
        ck.ok("C07.R1", q, "vertical removed before the horizontals are chosen", detail="entries are deleted from the key list and the component list together")
    for st in bad_del:
        ck.violation("C07.R1", q, "vertical removed before the horizontals are chosen",
                     f"`{norm_key(st, 70)}` removes an entry from only one of the aligned lists ({keys_l}, {comp_l}): the horizontals would be looked up at shifted positions", loc=f.loc(st))
    # constructor components are elements of the component list, selected through the key list
    c = _ctor_call(f)
    if c is None or len(c.args) < 3:
        raise AnalysisError(f"{q}: constructor call not found")
    n_ok = 0
    for a, role in zip(c.args[:3], ("ns", "ew", "vt")):
        srcs, stmts = value_sources(f, a, c)
        from_list = any(isinstance(x, ast.Assign) and isinstance(x.value, ast.Subscript) and unparse(x.value.value) == comp_l for x in stmts)
        if from_list:
            n_ok += 1
        else:
            ck.violation("C07.R1", q, f"{role} component", f"the {role} component handed to the constructor is not an element of the per-file component list", loc=f.loc(c))
    if n_ok == 3:
        ck.ok("C07.R1", q, "ns, ew, vt are elements of the per-file component list")
    # the literals that decide the roles
    fam = list(family_nodes(prog, f))        # the reader and any new helper it delegates to
    consts = {x.value for x in fam if isinstance(x, ast.Constant) and isinstance(x.value, (str, int)) and not isinstance(x.value, bool)}
    need = {"UP", "VER", "N", "E", 180, 360}
    zed = bool({"z", "Z"} & consts)
    if need <= consts and zed:
        ck.ok("C07.R1", q, "roles decided by UP / VER / ..Z, ..N / ..E and azimuths wrapped at 180 (literals present)", nontrivial=False)
    else:
        ck.violation("C07.R1", q, "role literals", f"the literals that decide the component roles are incomplete: missing {sorted(map(str, need - consts))}{'' if zed else ' and z'}", loc=f.loc())
    # the argmin / argmax of |relative azimuth| choose north / east
    calls = {call_name(x) for x in fam if isinstance(x, ast.Call)}
    # by value where the selection is written as index = argmin / argmax(<something>): the something is |relative azimuth|, the same
    # vector for both, north takes the argmin and east the argmax
    sel = {}
    for st in fam:
        if isinstance(st, ast.Assign) and len(st.targets) == 1 and isinstance(st.targets[0], ast.Name) and isinstance(st.value, ast.Call) \
                and call_name(st.value) in ("argmin", "argmax") and st.value.args:
            a0 = st.value.args[0]
            if isinstance(a0, ast.Name):
                # the magnitudes computed once under a name of their own
                defs_ = [d for d in fam if isinstance(d, ast.Assign) and len(d.targets) == 1 and isinstance(d.targets[0], ast.Name) and d.targets[0].id == a0.id]
                if len(defs_) == 1:
                    a0 = defs_[0].value
            inner = a0.args[0] if isinstance(a0, ast.Call) and call_name(a0) in ("abs", "absolute", "fabs") and len(a0.args) == 1 else None
            sel[st.targets[0].id] = (call_name(st.value), unparse(inner) if inner is not None else None, st)
    picks = {}
    for st in fam:
        if isinstance(st, ast.Assign) and len(st.targets) == 1 and isinstance(st.targets[0], ast.Name) and st.targets[0].id in ("ns", "ew") \
                and isinstance(st.value, ast.Subscript) and isinstance(st.value.slice, ast.Name) and st.value.slice.id in sel:
            picks[st.targets[0].id] = sel[st.value.slice.id]
    sel_bad = None
    if set(picks) == {"ns", "ew"}:
        if picks["ns"][0] != "argmin" or picks["ew"][0] != "argmax":
            sel_bad = f"north is taken at the {picks['ns'][0]} and east at the {picks['ew'][0]}"
        elif picks["ns"][1] is None or picks["ew"][1] is None:
            w = "ns" if picks["ns"][1] is None else "ew"
            sel_bad = f"`{norm_key(picks[w][2], 70)}` does not take the absolute value of the relative azimuth: a component coded beyond 180 degrees (folded to a negative angle) is mistaken for the other horizontal"
        elif picks["ns"][1] != picks["ew"][1]:
            sel_bad = f"north and east are chosen from different vectors ({picks['ns'][1]} / {picks['ew'][1]})"
    if sel_bad:
        ck.violation("C07.R1", q, "numeric azimuth roles", f"numeric component codes: {sel_bad}", loc=f.loc(picks["ns"][2]))
    elif {"argmin", "argmax"} <= calls:
        ck.ok("C07.R1", q, "north = smallest, east = largest |relative azimuth|", nontrivial=False)
    else:
        ck.violation("C07.R1", q, "numeric azimuth roles", "numeric component codes are not resolved by argmin / argmax of the relative azimuth", loc=f.loc())
    # a vertical coded UP or VER comes with horizontals coded by azimuth: on the path where that code is found, the flag that selects the
    # numeric (argmin / argmax) resolution of the horizontals is set
    num_ifs = [x for x in own_nodes(f.node) if isinstance(x, ast.If) and isinstance(x.test, ast.Name)
               and any(isinstance(c_, ast.Call) and call_name(c_) in ("argmin", "argmax") for b_ in x.body for c_ in ast.walk(b_))]
    if len(num_ifs) == 1:
        flag = num_ifs[0].test.id

        def sets_flag(stmts) -> bool:
            return any(isinstance(y, ast.Assign) and any(isinstance(t, ast.Name) and t.id == flag for t in y.targets)
                       and isinstance(y.value, ast.Constant) and y.value.value is True for b_ in stmts for y in ast.walk(b_))
        for code in ("UP", "VER"):
            sites = [x for x in own_nodes(f.node) if isinstance(x, ast.Assign) and isinstance(x.value, ast.Call) and call_name(x.value) == "index"
                     and len(x.value.args) == 1 and isinstance(x.value.args[0], ast.Constant) and x.value.args[0].value == code]
            if not sites:
                continue            # the code is looked up some other way: the literal rule above still requires it to be present
            for site in sites:
                par_ = parent_of(site)
                blk = None
                for fld in ("body", "orelse", "finalbody"):
                    sub = getattr(par_, fld, None)
                    if isinstance(sub, list) and any(y is site for y in sub):
                        blk = sub
                after_ = blk[[i for i, y in enumerate(blk) if y is site][0] + 1:] if blk is not None else []
                also = list(par_.orelse) if isinstance(par_, ast.Try) and blk is par_.body else []
                if sets_flag(after_) or sets_flag(also):
                    ck.ok("C07.R1", q, f"vertical coded {code}: horizontals resolved by azimuth", nontrivial=False)
                else:
                    ck.violation("C07.R1", q, f"vertical coded {code}",
                                 f"when the vertical is coded {code} the flag `{flag}` that selects the azimuth (argmin / argmax) resolution of the horizontals is not set: "
                                 f"a set with numeric horizontal codes is sent to the letter-code branch and refused", loc=f.loc(site))
    # unequal time steps raise
    guards = [x for x in own_nodes(f.node) if isinstance(x, ast.If) and isinstance(x.test, ast.Compare) and isinstance(x.test.ops[0], ast.NotEq)
              and dts_l in {n.id for n in ast.walk(x.test) if isinstance(n, ast.Name)} | {n.id for lp_ in [parent_of(x)] if isinstance(lp_, ast.For) for n in ast.walk(lp_.iter) if isinstance(n, ast.Name)}
              and any(isinstance(b, ast.Raise) for b in x.body)]
    if guards:
        ck.ok("C07.R2", q, "unequal time steps raise")
    else:
        ck.violation("C07.R2", q, "time-step agreement", "files with different time steps are not refused", loc=f.loc())
    n_raise = sum(1 for x in fam if isinstance(x, ast.Raise))
    if n_raise >= 4:
        ck.ok("C07.R1", q, "unknown codes raise", nontrivial=False)
    else:
        ck.violation("C07.R1", q, "unknown codes raise", f"only {n_raise} refusals remain in the PEER reader (unrecognised component codes must raise)", loc=f.loc())


# one named exemption of the argument-purity rule, with its reason (an observation, not a finding: no reader after the SAC
# reader interprets the key, and the SAC reader sets it before each of its own attempts)
PRIVATE_OPTION_KEYS = {
    ("data_wrangler._read_sac", "obspy_read_kwargs", "byteorder"):
        "`byteorder` is interpreted by obspy's SAC plug-in only and is (re)set by _read_sac before every attempt; the readers tried "
        "afterwards (GCF, PEER) and a later miniSEED read ignore it",
}


def _written_keys(text: str):
    """Literal keys a statement writes into a dict: d['k'] = v, d.setdefault('k', v), d.update(k=v) / d.update({'k': v})."""
    try:
        st = ast.parse(text).body[0]
    except SyntaxError:
        return set()
    keys = set()
    if isinstance(st, (ast.Assign, ast.AugAssign)):
        for t in (st.targets if isinstance(st, ast.Assign) else [st.target]):
            if isinstance(t, ast.Subscript) and isinstance(t.slice, ast.Constant) and isinstance(t.slice.value, str):
                keys.add(t.slice.value)
            else:
                return set()
    elif isinstance(st, ast.Expr) and isinstance(st.value, ast.Call) and isinstance(st.value.func, ast.Attribute):
        c = st.value
        if c.func.attr == "setdefault" and c.args and isinstance(c.args[0], ast.Constant):
            keys.add(c.args[0].value)
        elif c.func.attr == "update" and not c.args and c.keywords and all(k.arg for k in c.keywords):
            keys |= {k.arg for k in c.keywords}
        elif c.func.attr == "update" and len(c.args) == 1 and isinstance(c.args[0], ast.Dict) and all(isinstance(k, ast.Constant) for k in c.args[0].keys):
            keys |= {k.value for k in c.args[0].keys}
        else:
            return set()
    return keys


def _argument_purity(ck: Checker, prog: Program):
    """read_single hands the same fnames / obspy_read_kwargs / degrees_from_north objects to one reader after the other:
    a reader that writes into one of them changes what the next reader (and the caller) sees."""
    from .common import engine, group_effects, describe_effect, chain_text
    eng = engine(prog)
    n = 0
    for name in READERS + ["read_single", "read"]:
        f = prog.func(f"data_wrangler.{name}")
        s = eng.summary(f)
        effs = [e for e in s.effects if e.origin[0] == "P"]
        n += 1
        if not effs:
            ck.ok("C07.R4", f.qualname, "arguments are not modified", detail="no store / in-place call on a parameter, directly or through callees")
        for (func, text), es in group_effects(prog, effs).items():
            pname = f.params[es[0].origin[1]] if es[0].origin[1] < len(f.params) else "?"
            keys = _written_keys(text)
            why = None
            if keys and all((func, pname, k) in PRIVATE_OPTION_KEYS for k in keys):
                why = PRIVATE_OPTION_KEYS[(func, pname, sorted(keys)[0])]
            if why is not None:
                ck.ok("C07.R4", func, f"{pname}[{', '.join(sorted(keys))}] is written", nontrivial=False, detail="exempt: " + why)
                continue
            ck.violation("C07.R4", func, text, f"{f.qualname} modifies its argument `{pname}`: {describe_effect(es[0])} - the next reader tried by read_single "
                         f"(and the caller) see the changed object", loc=es[0].chain[0].loc, path=chain_text(es[0]))
    ck.floor("C07.R4", n, 8, "readers checked for argument purity")


def _one_trace_per_file(ck: Checker, prog: Program):
    """The three-file miniSEED branch takes `stream[0]` of every file: a file is accepted only when it holds exactly one trace -
    a second trace (a gap, another component) would be dropped silently.  Decided on the decision table of the per-file loop."""
    from ..pathtable import PathTable, literals, same_rel
    f = prog.func("data_wrangler._read_mseed")
    loops = [x for x in own_nodes(f.node) if isinstance(x, ast.For) and any(True for _ in calls_in(x, "_quiet_obspy_read"))]
    if len(loops) != 1:
        raise AnalysisError(f"{f.qualname}: the per-file loop is not recognised")
    lp = loops[0]
    env = {n.id: sp.Symbol("<file>", real=True) for n in ast.walk(lp.target) if isinstance(n, ast.Name)}

    def hook(call, T):
        if call_name(call) == "_quiet_obspy_read":
            return sp.Symbol("<stream>", real=True)
        return None
    leaves = PathTable(prog, f.module, env=env, call_hook=hook, structured=True).leaves(lp.body)
    ONE = sp.Eq(sp.Function("len")(sp.Symbol("<stream>", real=True)), 1, evaluate=False)
    keep = [l for l in leaves if l.exit != "raise"]
    if not keep:
        raise AnalysisError(f"{f.qualname}: no accepting path through the per-file loop")
    bad = [l for l in keep if not any(same_rel(x, ONE) for x in literals(l))]
    if not bad:
        ck.ok("C07.R2", f.qualname, "a component file is accepted only with exactly one trace", detail=f"{len(keep)} accepting path(s)")
    else:
        ck.violation("C07.R2", f.qualname, "traces per file",
                     f"a component file is accepted under {[str(x) for x in literals(bad[0])] or 'no condition'}, not only when it holds exactly one trace: "
                     f"further traces of the file (after a gap, or of another component) are silently dropped", loc=f.loc(lp))


def _per_file_state(ck: Checker, prog: Program):
    """How a file is read does not depend on the files read before it: nothing but the collected traces is carried from one pass
    of a per-file loop to the next (names bound only by `except ... as e` are not state)."""
    from ..dataflow import loop_carried
    n = 0
    for name in READERS + ["read"]:
        f = prog.func(f"data_wrangler.{name}")
        for lp in [x for x in f.node.body if isinstance(x, ast.For)]:
            its = {x.id for x in ast.walk(lp.iter) if isinstance(x, ast.Name)}
            if "fnames" not in its:
                continue
            n += 1
            exc_names = {h.name for x in ast.walk(lp) if isinstance(x, ast.Try) for h in x.handlers if h.name}
            plain_stores = {x.id for x in ast.walk(lp) if isinstance(x, ast.Name) and isinstance(x.ctx, ast.Store)}
            carried = [(nm, use, d) for nm, use, d in loop_carried(f, lp) if not (nm in exc_names and not any(
                isinstance(st, (ast.Assign, ast.AugAssign)) and any(isinstance(t, ast.Name) and t.id == nm for t in (st.targets if isinstance(st, ast.Assign) else [st.target]))
                for st in ast.walk(lp)))]
            if not carried:
                ck.ok("C07.R1", f.qualname, f"nothing is carried from one file to the next ({norm_key(lp, 50)})", nontrivial=False)
            for nm, use, d in carried:
                ck.violation("C07.R1", f.qualname, f"{nm} carried between files",
                             f"`{nm}` (set by `{norm_key(d, 60)}`) is read when the next file is handled: how a file is read depends on the files before it "
                             f"(their order, their byte order)", loc=f.loc(d))
    ck.floor("C07.R1", n, 3, "per-file loops of the readers")


def _obspy_wrapper(ck: Checker, prog: Program):
    """_quiet_obspy_read hands its arguments to obspy.read as given (no option added: a `dtype`, `format` or `headonly` the caller
    did not ask for changes the samples that are read) and returns what obspy.read returned."""
    f = prog.funcs.get("data_wrangler._quiet_obspy_read")
    if f is None:
        raise AnalysisError("data_wrangler._quiet_obspy_read not found")
    q = f.qualname
    va, kwa = (f.node.args.vararg.arg if f.node.args.vararg else None), (f.node.args.kwarg.arg if f.node.args.kwarg else None)
    reads = [c for c in calls_in(f.node, "read") if isinstance(c.func, ast.Attribute) and unparse(c.func.value) == "obspy"]
    if len(reads) != 1:
        raise AnalysisError(f"{q}: expected one obspy.read call")
    c = reads[0]
    if va is None and kwa is None:
        raise AnalysisError(f"{q}: signature without *args / **kwargs")
    as_given = [unparse(a) for a in c.args] == ([f"*{va}"] if va else []) and [(k.arg, unparse(k.value)) for k in c.keywords] == ([(None, kwa)] if kwa else [])
    inside = {id(x) for x in ast.walk(c)}
    other = [x for x in ast.walk(f.node) if isinstance(x, ast.Name) and x.id in (va, kwa) and id(x) not in inside]
    if as_given and not other:
        ck.ok("C07.R1", q, "obspy.read(*args, **kwargs): the caller's arguments and options, nothing added")
    else:
        what = norm_key(parent_stmt(other[0]), 70) if other else norm_key(c, 70)
        ck.violation("C07.R1", q, "options handed to obspy.read", f"obspy.read does not receive exactly the caller's arguments and options (`{what}`): the samples read "
                     f"(type, precision, selection) are no longer those stored in the file", loc=f.loc(other[0] if other else c))
    rets = [r for r in own_nodes(f.node) if isinstance(r, ast.Return)]
    good = False
    if len(rets) == 1:
        if rets[0].value is c:
            good = True
        elif isinstance(rets[0].value, ast.Name):
            nm = rets[0].value.id
            defs = [st for st in ast.walk(f.node) if isinstance(st, ast.Assign) and any(isinstance(t, ast.Name) and t.id == nm for t in st.targets)]
            uses = [x for x in ast.walk(f.node) if isinstance(x, ast.Name) and x.id == nm and isinstance(x.ctx, ast.Load)]
            good = len(defs) == 1 and defs[0].value is c and len(uses) == 1
    if good:
        ck.ok("C07.R1", q, "returns the stream obspy.read returned", nontrivial=False)
    else:
        ck.violation("C07.R1", q, "returned stream", "the stream returned is not the one obspy.read returned, untouched", loc=f.loc())


def parent_stmt(n):
    while n is not None and not isinstance(n, ast.stmt):
        n = parent_of(n)
    return n


def _common(ck: Checker, prog: Program):
    reg = prog.registry("data_wrangler", "READ_FUNCTION_DICT")
    if [unparse(v) for v in reg.values()] == READERS and list(reg) == ["mseed", "saf", "minishark", "sac", "gcf", "peer"]:
        ck.ok("C07.R2", "data_wrangler.READ_FUNCTION_DICT", "six readers tried in order, peer last")
    else:
        ck.violation("C07.R2", "data_wrangler.READ_FUNCTION_DICT", "registry", f"registry is {list(reg)} -> {[unparse(v) for v in reg.values()]}", loc="hvsrpy/data_wrangler.py")
    for r in READERS:
        f = prog.func(f"data_wrangler.{r}")
        q = f.qualname
        d = f.defaults()
        if f.params == ["fnames", "obspy_read_kwargs", "degrees_from_north"] and all(isinstance(d.get(p), ast.Constant) and d[p].value is None for p in f.params[1:]):
            ck.ok("C07.R4", q, "signature (fnames, obspy_read_kwargs=None, degrees_from_north=None)", nontrivial=False)
        else:
            ck.violation("C07.R4", q, "signature", f"signature is {f.params}", loc=f.loc())
        c = _ctor_call(f)
        okc = c is not None and [unparse(a) for a in c.args[:3]] == ["ns", "ew", "vt"] and kwarg(c, "degrees_from_north") is not None \
            and unparse(kwarg(c, "degrees_from_north")) == "degrees_from_north" and kwarg(c, "meta") is not None
        if okc:
            ck.ok("C07.R1", q, "SeismicRecording3C(ns, ew, vt, degrees_from_north=degrees_from_north, meta=meta)")
        else:
            ck.violation("C07.R1", q, "constructor call", f"the recording is built as `{unparse(c) if c is not None else None}`; expected (ns, ew, vt, degrees_from_north=degrees_from_north, meta=...)",
                         loc=f.loc(c) if c is not None else f.loc())
        # R4: every assignment to degrees_from_north is guarded by `degrees_from_north is None`
        n_asg = 0
        for st in own_nodes(f.node):
            if isinstance(st, ast.Assign) and any(unparse(t) == "degrees_from_north" for t in st.targets):
                n_asg += 1
                p, child, guarded = parent_of(st), st, False
                while p is not None and p is not f.node:
                    if isinstance(p, ast.If) and unparse(p.test) == "degrees_from_north is None":
                        # the statement must be in the true branch (possibly nested in try/else inside it)
                        node = child
                        guarded = any(x is st for b in p.body for x in ast.walk(b))
                    child, p = p, parent_of(p)
                if guarded:
                    ck.ok("C07.R4", q, norm_key(st), detail="only when no orientation was given")
                else:
                    ck.violation("C07.R4", q, norm_key(st),
                                 "degrees_from_north is overwritten although the caller may have given a value (the assignment is not inside "
                                 "`if degrees_from_north is None:`; note that 0 is a value)", loc=f.loc(st))
        if n_asg == 0:
            ck.violation("C07.R4", q, "default orientation", "no default orientation is set when none is given", loc=f.loc())
        # R3: header fields used
        for st in own_nodes(f.node):
            if isinstance(st, ast.Assign) and isinstance(st.targets[0], ast.Name) and _header_field(st):
                name = st.targets[0].id
                if name == "_":
                    continue
                later = [n for n in own_nodes(f.node) if isinstance(n, ast.Name) and n.id == name and isinstance(n.ctx, ast.Load) and n.lineno >= st.lineno]
                if later:
                    ck.ok("C07.R3", q, f"{name} ({_header_field(st)}) is used", nontrivial=False)
                else:
                    ck.violation("C07.R3", q, f"header field {name}", f"`{name}` is parsed from the header ({_header_field(st)}) but never used", loc=f.loc(st))


def _npts_params(prog: Program) -> List[str]:
    f = prog.func("data_wrangler._check_npts")
    ps = list(f.params) + [k for k in f.kwonly if k not in f.params]
    if len(ps) != 2:
        raise AnalysisError(f"{f.qualname}: expected two counts, found parameters {ps}")
    return ps


def _check_npts_rule(ck: Checker, prog: Program):
    """_check_npts as a decision table: it raises exactly on the paths where its two counts differ (the comparison is symmetric,
    so which parameter is the header count does not matter)."""
    from ..pathtable import PathTable, literals, same_rel
    f = prog.func("data_wrangler._check_npts")
    a, b = [sp.Symbol(x, real=True) for x in _npts_params(prog)]
    ne, eq = sp.Ne(a, b, evaluate=False), sp.Eq(a, b, evaluate=False)
    leaves = PathTable(prog, f.module).leaves(f.node.body)
    good = bool(leaves)
    seen_raise = False
    for l in leaves:
        lits = literals(l)
        differ = any(same_rel(x, ne) for x in lits)
        same = any(same_rel(x, eq) for x in lits)
        if l.exit == "raise":
            seen_raise = True
            good = good and differ and not same
        else:
            good = good and same and not differ
    if good and seen_raise:
        ck.ok("C07.R2", f.qualname, "raises when header count != rows found")
    else:
        ck.violation("C07.R2", f.qualname, "count comparison", "_check_npts does not raise exactly when its two counts differ", loc=f.loc())


def _read_single(ck: Checker, prog: Program):
    """One pass of read_single's loop over the registry as a decision table: the reader is called with the caller's three
    arguments; success ends the search with that recording; failure moves on - except for the last format ("peer"), whose
    failure is re-raised."""
    from ..pathtable import PathTable, literals, same_rel
    f = prog.func("data_wrangler.read_single")
    q = f.qualname
    if f.params[:3] != ["fnames", "obspy_read_kwargs", "degrees_from_north"]:
        raise AnalysisError(f"{q}: parameters are {f.params}")
    R_ = lambda n: sp.Symbol(n, real=True)   # noqa: E731
    F = sp.Function
    loops = [st for st in f.node.body if isinstance(st, ast.For) and isinstance(st.target, ast.Tuple) and len(st.target.elts) == 2
             and all(isinstance(e, ast.Name) for e in st.target.elts)]
    T0 = PathTable(prog, f.module)._T({})
    loops = [lp for lp in loops if T0.tr(lp.iter) == F("items")(R_("READ_FUNCTION_DICT"))]
    if len(loops) != 1:
        ck.violation("C07.R2", q, "format dispatch", "read_single does not try the readers of READ_FUNCTION_DICT in order", loc=f.loc())
        return
    lp = loops[0]
    # an absent orientation means "as the file says" to the SAF and PEER readers: it must reach the readers as given
    pre = f.node.body[:f.node.body.index(lp)]
    for l in PathTable(prog, f.module).leaves([st for st in pre if not (isinstance(st, ast.Expr) and isinstance(st.value, ast.Constant))]):
        got = l.env.get("degrees_from_north", R_("degrees_from_north"))
        if l.exit == "fall" and sp.sympify(got) != R_("degrees_from_north"):
            ck.violation("C07.R4", q, "degrees_from_north replaced",
                         f"read_single replaces the caller's `degrees_from_north` by `{got}` before the readers are tried: an absent orientation no longer "
                         f"reaches the SAF / PEER readers, which would have taken it from the file header", loc=f.loc())
            break
    else:
        ck.ok("C07.R4", q, "degrees_from_north reaches the readers as given", nontrivial=False)
    FT, RF = R_("<format>"), R_("<reader>")
    leaves = PathTable(prog, f.module, env={lp.target.elts[0].id: FT, lp.target.elts[1].id: RF}).leaves(lp.body)
    want_call = F("call")(RF, R_("fnames"), F("kw_obspy_read_kwargs")(R_("obspy_read_kwargs")), F("kw_degrees_from_north")(R_("degrees_from_north")))
    alt_call = F("call")(RF, R_("fnames"), R_("obspy_read_kwargs"), R_("degrees_from_north"))
    peer = sp.Eq(FT, sp.Symbol("'peer'"), evaluate=False)
    problems = []
    seen = set()
    for l in leaves:
        lits = literals(l)
        failed = any("raised(" in str(x) for x in lits)
        is_peer = True if any(same_rel(x, peer) for x in lits) else False if any(same_rel(x, sp.Ne(FT, sp.Symbol("'peer'"), evaluate=False)) for x in lits) else None
        calls = {a_ for v in list(l.env.values()) + ([l.value] if l.value is not None else []) for a_ in sp.preorder_traversal(sp.sympify(v))
                 if getattr(getattr(a_, "func", None), "__name__", "") == "call" and a_.args and a_.args[0] == RF}
        if not failed:
            seen.add("success")
            if l.exit not in ("break", "return"):
                problems.append("a successful read does not end the search")
            if not calls or not calls <= {want_call, alt_call}:
                problems.append(f"the reader is called as {sorted(map(str, calls))}, not with (fnames, obspy_read_kwargs, degrees_from_north)")
            if l.exit == "return" and l.value not in (want_call, alt_call):
                problems.append(f"the value returned on success is {l.value}")
        elif is_peer is True:
            seen.add("last fails")
            if l.exit != "raise":
                problems.append("the failure of the last reader (peer) is not re-raised")
        elif is_peer is False:
            seen.add("other fails")
            if l.exit not in ("fall", "continue"):
                problems.append(f"after a failed reader the search does not go on ({l.exit})")
        else:
            problems.append("a failed read is handled without distinguishing the last reader")
    if seen != {"success", "last fails", "other fails"}:
        problems.append(f"outcomes covered: {sorted(seen)}")
    # what comes after an exhausted search / which value is returned after `break`
    rets = [r for r in own_nodes(f.node) if isinstance(r, ast.Return) and not any(r is x for x in ast.walk(lp))]
    for r in rets:
        if not (isinstance(r.value, ast.Name) and any(isinstance(x, ast.Assign) and any(isinstance(t, ast.Name) and t.id == r.value.id for t in x.targets) for x in ast.walk(lp))):
            problems.append(f"`{norm_key(r, 60)}` does not return the recording read in the loop")
    if not problems:
        ck.ok("C07.R2", q, "each reader gets (fnames, obspy_read_kwargs, degrees_from_north); first success wins; failure of the last reader re-raises",
              detail=f"{len(leaves)} paths through one pass of the loop")
    else:
        ck.violation("C07.R2", q, "format dispatch", "read_single does not try every reader with the caller's arguments and re-raise after the last one: " + "; ".join(sorted(set(problems))[:3]), loc=f.loc())



def _single_types(c, subject) -> Optional[set]:
    """Types for which a predicate says 'one value for all files': isinstance(x, (A, B, type(None))) / x is None / or-combinations."""
    truth, isin = sp.Function("truth"), sp.Function("isinstance")
    if isinstance(c, sp.Or):
        out = set()
        for a in c.args:
            t = _single_types(a, subject)
            if t is None:
                return None
            out |= t
        return out
    if isinstance(c, sp.Eq) and c.rhs == sp.true and getattr(c.lhs, "func", None) == truth:
        inner = c.lhs.args[0]
        if getattr(inner, "func", None) == isin and inner.args[0] == subject:
            ts = inner.args[1]
            elems = list(ts) if isinstance(ts, sp.Tuple) else [ts]
            out = set()
            for e in elems:
                if getattr(e, "func", None) == sp.Function("type") and e.args[0] == sp.Symbol("None"):
                    out.add("None")
                elif e.is_Symbol:
                    out.add(e.name)
                else:
                    return None
            return out
        return None
    if isinstance(c, sp.Eq) and {c.lhs, c.rhs} == {subject, sp.Symbol("None")}:
        return {"None"}
    return None


def _read(ck: Checker, prog: Program):
    from ..pathtable import PathTable, literals, flatten_cases, negate
    f = prog.func("data_wrangler.read")
    q = f.qualname
    loops = [st for st in f.node.body if isinstance(st, ast.For) and isinstance(st.iter, ast.Call) and call_name(st.iter) == "zip"]
    if len(loops) != 1 or len(loops[0].iter.args) != 3 or not isinstance(loops[0].target, ast.Tuple) or len(loops[0].target.elts) != 3:
        raise AnalysisError(f"{q}: `for a, b, c in zip(<files>, <kwargs stream>, <orientation stream>)` not found")
    lp = loops[0]
    pt = PathTable(prog, f.module)
    leaves = [l for l in pt.leaves(f.node.body) if id(lp) in l.snaps]
    if not leaves:
        raise AnalysisError(f"{q}: the loop over the files is not reached")
    T0 = Translator()
    want_types = {"obspy_read_kwargs": {"dict", "None"}, "degrees_from_north": {"int", "float", "None"}}
    n = 0
    for pos, pname in ((1, "obspy_read_kwargs"), (2, "degrees_from_north")):
        X = T0.sym(pname)
        cases = []
        for l in leaves:
            env, nc = l.snaps[id(lp)]
            v = Translator(env=env).tr(lp.iter.args[pos])
            from ..pathtable import Leaf
            cases += flatten_cases(literals(Leaf(l.conds[:nc], env, [])), v)
        reps = (sp.Function("repeat")(X), sp.Function("repeat")(T0.sym("itertools"), X))
        bad = None
        seen_rep = seen_pass = False
        for lits, v in cases:
            if v in reps:
                seen_rep = True
                ts = [t for t in (_single_types(x, X) for x in lits) if t is not None]
                if not ts:
                    bad = f"`{pname}` is repeated for every file under {lits}: not a test of `{pname}` itself"
                elif ts[0] != want_types[pname]:
                    bad = f"`{pname}` is repeated for every file when it is one of {sorted(ts[0])}; single values are {sorted(want_types[pname])}"
            elif v == X:
                seen_pass = True
                ts = [t for t in (_single_types(negate(x) if not isinstance(x, sp.Not) else x.args[0], X) for x in lits) if t is not None]
                if not ts:
                    bad = f"`{pname}` is used per file under {lits}: not a test of `{pname}` itself"
                elif ts[0] != want_types[pname]:
                    bad = f"`{pname}` is taken per file unless it is one of {sorted(ts[0])}; single values are {sorted(want_types[pname])}"
            else:
                bad = f"the stream zipped for `{pname}` is {v}"
        n += 1
        if bad is None and seen_rep and seen_pass:
            ck.ok("C07.R5", q, f"{pname}: repeat({pname}) iff it is a single value ({'/'.join(sorted(want_types[pname]))}), else taken per file")
        else:
            ck.violation("C07.R5", q, f"broadcast of {pname}",
                         (bad or f"`{pname}` is not both broadcast (single value) and taken per file (sequence)") +
                         f": a per-recording `{pname}` would be handed whole to every file (or a single value iterated)", loc=f.loc(lp))
    ck.floor("C07.R5", n, 2, "broadcast decisions in read()")
    # ---- the files themselves: the sequence given, in the order given (a single name wrapped in a list)
    FN = T0.sym(f.params[0])
    okf, seenf = True, []
    for l in leaves:
        env, _nc = l.snaps[id(lp)]
        v = Translator(env=env).tr(lp.iter.args[0])
        seenf.append(v)
        if v not in (FN, sp.Tuple(FN)):
            okf = False
    if okf:
        ck.ok("C07.R5", q, "the files are visited in the order given", nontrivial=False)
    else:
        badv = [str(x) for x in seenf if x not in (FN, sp.Tuple(FN))][0]
        ck.violation("C07.R5", q, "order of the files", f"the files are visited as `{badv[:100]}`, not in the order given: the recordings come back in another order and "
                     f"per-recording options / orientations are paired with other files", loc=f.loc(lp))
    # ---- forwarding
    g = prog.func("data_wrangler.read_single")
    tg = [unparse(e) for e in lp.target.elts]
    cs = calls_in(lp, "read_single")
    good = False
    if len(cs) == 1 and unparse(lp.iter.args[0]) == "fnames":
        b = bind_call(cs[0], g.params)
        from ..resolve import Resolver, canon
        R = Resolver(prog, f, inline=False)
        st_call = cs[0]
        while not isinstance(st_call, ast.stmt):
            st_call = parent_of(st_call)
        good = unparse(b.get(g.params[1])) == tg[1] and unparse(b.get(g.params[2])) == tg[2] if len(g.params) >= 3 and b.get(g.params[1]) is not None and b.get(g.params[2]) is not None else False
        first = b.get(g.params[0])
        good = good and isinstance(first, ast.Name) and first.id == tg[0]
        app = [c for c in calls_in(lp, "append")]
        good = good and len(app) == 1 and not any(isinstance(x, (ast.Break, ast.Continue)) for x in ast.walk(lp))
        if good:
            a_st = app[0]
            while not isinstance(a_st, ast.stmt):
                a_st = parent_of(a_st)
            good = canon(R.value(app[0].args[0], a_st)).has(sp.Function("read_single")) or any(x is cs[0] for x in ast.walk(app[0]))
    if good:
        ck.ok("C07.R5", q, "zip(fnames, kwargs stream, orientation stream) -> read_single(fname, obspy_read_kwargs=., degrees_from_north=.) in order")
    else:
        ck.violation("C07.R5", q, "zip and forward", "the three streams are not zipped and forwarded to read_single in matching order", loc=f.loc())


def _groups(pattern: str) -> int:
    return rp.parse(pattern).state.groups - 1


# Witness lines per pattern, written from the file-format descriptions (SESAME ASCII, MiniShark, PEER NGA, hvsrpy / Geopsy output),
# with the fields a reader must obtain from them.  Interpreted on the pattern's syntax tree (hvsa/rxmatch.py).
REGEX_WITNESSES = {
    "saf_row_exec": ("CH0_ID = V\n0 1 2\n-12 5 -7\r\n3 4 5\n", [("0", "1", "2"), ("-12", "5", "-7"), ("3", "4", "5")]),
    "saf_npts_exec": ("NDAT = 1200\nSAMP_FREQ = 100\n", [("1200",)]),
    "saf_fs_exec": ("NDAT = 1200\nSAMP_FREQ = 100\n", [("100",)]),
    "saf_v_ch_exec": ("CH0_ID = V\nCH1_ID = N\nCH2_ID = E\n", [("0",)]),
    "saf_n_ch_exec": ("CH0_ID = V\nCH1_ID = N\nCH2_ID = E\n", [("1",)]),
    "saf_e_ch_exec": ("CH0_ID = V\nCH1_ID = N\nCH2_ID = E\n", [("2",)]),
    "saf_north_rot_exec": ("NORTH_ROT = 20\n", [("20",)]),
    "mshark_npts_exec": ("#Sample number:\t1500\n", [("1500",)]),
    "mshark_fs_exec": ("#Sample rate (sps):\t250\n", [("250",)]),
    "mshark_gain_exec": ("#Gain:\t64\n#Conversion factor:\t32768\n", [("64",)]),
    "mshark_conversion_exec": ("#Gain:\t64\n#Conversion factor:\t32768\n", [("32768",)]),
    "mshark_row_exec": ("#Gain:\t64\n12\t-3\t45\r\n-1\t0\t7\n", [("12", "-3", "45"), ("-1", "0", "7")]),
    "peer_direction_exec": ("RSN, 1/1/2000, STATION, UP\nX, 090\nY, HNZ\n", [("UP",), ("090",), ("HNZ",)]),
    "peer_npts_exec": ("NPTS=  4000, DT=   .0050 SEC\n", [("4000",)]),
    "peer_dt_exec": ("NPTS=  4000, DT=   .0050 SEC\nNPTS= 1, DT= 0.0100 SEC", [(".0050",), ("0.0100",)]),
    "peer_sample_exec": ("  -.1234567E-02   0.9876543E+01 -1.5e-3\n  .5E+00", [("-.1234567E-02",), ("0.9876543E+01",), ("-1.5e-3",), (".5E+00",)]),
    "geopsy_line_exec": ("1.5\t2.25\t1.0\t3.5\n10.0\t1.0\t2.0\t4.0\r\n", [("1.5", "2.25", "1.0"), ("10.0", "1.0", "2.0")]),
}


def _regex_witnesses(ck: Checker, prog: Program, pats):
    from .. import rxmatch
    mod = prog.module("regex")
    n = 0
    for name, (text, want) in REGEX_WITNESSES.items():
        if name not in pats:
            raise AnalysisError(f"regex.{name}: pattern not found")
        sym = mod.symbols.get(name)
        ml = any(isinstance(x, ast.Attribute) and x.attr in ("MULTILINE", "M") for k in sym[1].keywords for x in ast.walk(k.value)) or \
            any(isinstance(x, ast.Attribute) and x.attr in ("MULTILINE", "M") for a in sym[1].args[1:] for x in ast.walk(a))
        got = rxmatch.finditer(rxmatch.parse(pats[name], ml), text, ml)
        n += 1
        # the same lines with the other line ending (text handed over as a stream keeps its \r\n): the same fields
        import re as _re
        crlf = _re.sub(r"(?<!\r)\n", "\r\n", text)
        got_crlf = rxmatch.finditer(rxmatch.parse(pats[name], ml), crlf, ml)
        if got == want and got_crlf != want:
            ck.violation("C07.R6", "regex", f"{name}: fields of the witness lines (CRLF)",
                         f"pattern {name} = {pats[name]!r} reads {got_crlf} from the witness text with \\r\\n line endings; the format requires {want} "
                         f"(a header field of a file with Windows line endings is lost)", loc="hvsrpy/regex.py")
            continue
        if got == want:
            ck.ok("C07.R6", "regex", f"{name}: fields of the witness lines", detail=f"{len(want)} match(es): {want[0]} ...")
        else:
            ck.violation("C07.R6", "regex", f"{name}: fields of the witness lines",
                         f"pattern {name} = {pats[name]!r} reads {got} from the witness text {text!r}; the format requires {want} "
                         f"(a field is lost, truncated or split)", loc="hvsrpy/regex.py")
    ck.floor("C07.R6", n, 17, "patterns interpreted on witness lines")


def _regex(ck: Checker, prog: Program):
    mod = prog.module("regex")
    pats = {}
    for name, (kind, val) in mod.symbols.items():
        if kind == "const" and name.endswith("_exec"):
            p = _pattern_text(prog, name)
            if p is None:
                raise AnalysisError(f"regex.{name}: pattern text not found")
            pats[name] = p
    ck.floor("C07.R6", len(pats), 19, "compiled patterns in regex.py")
    consumers = 0
    for f in prog.funcs.values():
        if f.module.name not in ("data_wrangler", "object_io", "hvsr_geopsy") or f.kind == "lambda":
            continue
        for c in calls_in(f.node, "groups"):
            # which pattern?
            base = c.func.value
            pat_name = None
            if isinstance(base, ast.Call) and call_name(base) == "search" and isinstance(base.func.value, ast.Name):
                pat_name = base.func.value.id
            elif isinstance(base, ast.Name):
                rd = reaching(f)
                for d in rd.def_stmts(base.id, c):
                    if isinstance(d, ast.For) and isinstance(d.iter, ast.Call) and call_name(d.iter) == "finditer" and isinstance(d.iter.func.value, ast.Name):
                        pat_name = d.iter.func.value.id
            if pat_name is None or pat_name not in pats:
                ck.violation("C07.R6", f.qualname, norm_key(c), "cannot tell which pattern produces these groups", loc=f.loc(c))
                continue
            consumers += 1
            ng = _groups(pats[pat_name])
            par = parent_of(c)
            need = None
            exact = False
            if isinstance(par, ast.Subscript) and isinstance(par.slice, ast.Constant):
                need = par.slice.value + 1
            elif isinstance(par, ast.Assign) and isinstance(par.targets[0], ast.Tuple):
                need, exact = len(par.targets[0].elts), True
            elif isinstance(par, ast.Assign):
                need = 1
            elif isinstance(par, (ast.comprehension, ast.Call, ast.For, ast.Starred)):
                need = 0            # consumed as a whole: no particular field is demanded here
            good = need is not None and (ng == need if exact else ng >= need)
            if good:
                ck.ok("C07.R6", f.qualname, f"{pat_name}: {ng} group(s), consumer needs {'exactly ' if exact else 'at least '}{need}")
            else:
                ck.violation("C07.R6", f.qualname, norm_key(par if isinstance(par, ast.stmt) else c, 90),
                             f"pattern {pat_name} = {pats[pat_name]!r} has {ng} capturing group(s) but this consumer needs {'exactly ' if exact else 'at least '}{need}",
                             loc=f.loc(c))
    ck.floor("C07.R6", consumers, 18, "groups() consumer sites")
    _regex_witnesses(ck, prog, pats)
    # role letters inside the SAF / row patterns
    for name, want in (("saf_row_exec", 3), ("mshark_row_exec", 3), ("peer_sample_exec", 1), ("geopsy_line_exec", 3)):
        if name in pats:
            if _groups(pats[name]) == want:
                ck.ok("C07.R6", "regex", f"{name}: {want} capturing groups", nontrivial=False)
            else:
                ck.violation("C07.R6", "regex", name, f"{name} has {_groups(pats[name])} capturing groups, the row format has {want} values", loc="hvsrpy/regex.py")


def _no_wrapping_decorators(ck: Checker, prog: Program):
    """A reader returns what the file holds now: no memoising / wrapping decorator on any function of data_wrangler.py."""
    mod = prog.module("data_wrangler")
    n = 0
    for g in prog.funcs.values():
        if g.module is not mod or g.kind == "lambda":
            continue
        n += 1
        extra = [d for d in g.decorators if d not in ("property", "staticmethod", "classmethod")]
        if extra:
            ck.violation("C07.R4", g.qualname, f"decorator {extra[0]}", f"`@{extra[0]}` wraps {g.qualname}: a file that was rewritten (or another in-memory stream) "
                         f"would be answered from the cache, with the old samples", loc=g.loc())
        else:
            ck.ok("C07.R4", g.qualname, "no wrapping decorator", nontrivial=False)
    ck.floor("C07.R4", n, 10, "functions of data_wrangler.py")


def _retry_rewinds(ck: Checker, prog: Program):
    """A loop that tries several ways of reading the *same* stream (byte orders, formats) must start every attempt from the
    beginning of an in-memory stream: in each iteration a `seek(0, 0)` on that stream precedes the read whenever the stream is
    seekable (the test for that may be made inside or before the loop)."""
    from ..pathtable import PathTable, literals, same_rel, negate
    mod = prog.module("data_wrangler")
    n = 0
    for g in prog.funcs.values():
        if g.module is not mod or g.kind == "lambda":
            continue
        for lp in [x for x in own_nodes(g.node) if isinstance(x, ast.For)]:
            reads = [c for c in calls_in(lp, "_quiet_obspy_read") if c.args and isinstance(c.args[0], ast.Name)]
            inner_loops = [x for x in ast.walk(lp) if isinstance(x, ast.For) and x is not lp]
            reads = [c for c in reads if not any(any(y is c for y in ast.walk(il)) for il in inner_loops)]
            if len(reads) != 1:
                continue
            stream = reads[0].args[0].id
            targets = {x.id for x in ast.walk(lp.target) if isinstance(x, ast.Name)}
            if stream in targets or not any(isinstance(x, ast.Try) and any(y is reads[0] for y in ast.walk(x)) for x in ast.walk(lp)):
                continue            # one read per element, or no retry
            n += 1
            F = sp.Function

            def hook(call, T, stream=stream):
                if isinstance(call.func, ast.Attribute) and call.func.attr == "seek" and isinstance(call.func.value, ast.Name) and call.func.value.id == stream:
                    return F("<seek>")(*[T.tr(a) for a in call.args])
                if call_name(call) == "_quiet_obspy_read":
                    return F("<read>")(T.tr(call.args[0]))
                return None
            leaves = PathTable(prog, g.module, call_hook=hook, structured=True).leaves(lp.body)
            seeking, silent = [], []
            for l in leaves:
                names = [getattr(getattr(e[2], "func", None), "__name__", "") for e in l.events] + \
                        [fn_.func.__name__ for v in l.env.values() if hasattr(v, "atoms") for fn_ in v.atoms(sp.Function) if fn_.func.__name__ == "<read>"]
                if "<read>" not in names:
                    continue
                i_read = names.index("<read>")
                rew = [e for e in l.events[:i_read + 1] if getattr(getattr(e[2], "func", None), "__name__", "") == "<seek>" and list(e[2].args[:1]) == [sp.Integer(0)]
                       and (len(e[2].args) == 1 or e[2].args[1] == 0)]
                (seeking if rew else silent).append(l)
            ok = bool(seeking)
            for l in silent:
                ll = literals(l)
                if not any(any(same_rel(x, negate(y)) for x in ll) for s_ in seeking for y in literals(s_)):
                    ok = False
            if ok:
                ck.ok("C07.R6", g.qualname, f"every attempt on `{stream}` starts from the beginning of an in-memory stream", detail=f"{len(seeking)} rewinding path(s)")
            else:
                ck.violation("C07.R6", g.qualname, f"retry loop over `{norm_key(lp.iter, 40)}`",
                             f"an attempt of the retry loop reads `{stream}` without rewinding it first: after a failed attempt an in-memory file is read from "
                             f"where that attempt stopped, and a valid file is refused", loc=g.loc(lp))
    ck.floor("C07.R6", n, 1, "retry loops over one stream")
