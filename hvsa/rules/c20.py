"""C20 - plots and summary tables are read-only and show the object's state."""
from __future__ import annotations

import ast
from typing import Dict, List, Optional

import sympy as sp

from ..astutil import call_name, calls_in, dotted, own_nodes, unparse, kwarg, names_loaded
from ..cfg import cfg_of
from ..dataflow import reaching, value_sources, PARAM
from ..expr import Translator, equal
from ..model import AnalysisError, Program, norm_key, parent_of
from ..report import Checker
from .common import engine, group_effects, describe_effect, chain_text

EXPLANATION = (
    "Effect analysis of every function of postprocessing.py plus CFG pairing and def-use role checks. "
    "Decided: (R1) no plotting/summary function mutates its hvsr/srecords argument (or anything reachable "
    "from it, through any callee), except (R2) temporary overwrites of an attribute that are paired: a "
    "snapshot of that same attribute is taken before the first overwrite and on every normal path to the "
    "exit the last store to the attribute restores that snapshot; (R3) what is drawn is the object's state: "
    "accepted curves are selected with the window mask and rejected ones with its negation, peak markers "
    "with the peak mask, each line is (object.frequency, row), mean / +-1 std / fn band / mean-curve peak "
    "are direct calls of the object's accessors with the caller's distribution argument and n=+-1; "
    "(R4) the period row of the summary table is 1/median, the same log-standard deviation and 1/(+-1 std "
    "values) of the object's own fn statistics; an option that selects windows, or a distribution, which a plotting "
    "function hands to another function of the module under the same name carries the caller's own value. Not decided: what matplotlib renders; restoration of the "
    "masks when plotting raises.")

RULES = {
    "C20.R1": "no function of postprocessing.py mutates an object reachable from its hvsr / srecords argument",
    "C20.R2": "a temporary overwrite of hvsr.<attr> is preceded by a snapshot of <attr> and followed on every path by a store of that snapshot",
    "C20.R3": "drawn data are the object's state: mask-selected rows, accessor calls with the given distribution, n=+-1",
    "C20.R4": "period row = (1/median, same log-std, 1/(-1 std), 1/(+1 std)) of the object's fn frequency statistics",
}

DATA_PARAMS = ("hvsr", "srecords", "srecord", "records")


def run(ck: Checker, prog: Program, tier: str):
    eng = engine(prog)
    funcs = _read_only(ck, prog)
    _r3(ck, prog)
    _r4(ck, prog)
    ck.guard(_option_forwarding, ck, prog, funcs)
    ck.guard(_azimuthal_drawings, ck, prog)
    # the mean-curve peak that is drawn and tabulated is searched inside the object's search range (rule of C08)
    from . import c08
    with ck.borrow(c08, "C20.R3+"):
        ck.guard(c08._r3, ck, prog)
    ck.extra["calls_resolved"] = eng.calls_resolved
    ck.extra["externals_assumed_pure"] = dict(eng.assumed_pure)
    from .common import check_identity_comparisons as _cic
    ck.guard(_cic, ck, prog, "C20.R1", "C20")


def _azimuthal_drawings(ck: Checker, prog: Program):
    """What the azimuthal figures and the pre/post-rejection figure read from the object, by value: (a) the surface is
    frequency x [azimuths, 180] with the object's mean curves by azimuth, closed at 180 degrees by the curve of the *first*
    azimuth (0 and 180 degrees are the same direction); (b) the peak markers are the object's `mean_curve_peak_by_azimuth` for the
    distribution in force, not a maximum read off the drawn surface (that ignores the search range); (c) the waveform panels are
    coloured by the object's *window* mask."""
    from ..resolve import Resolver, canon
    from ..astutil import bind_call
    R_ = "C20.R3"
    # (a)
    f = prog.func("postprocessing._azimuthal_mesh_from_hvsr")
    rets = [r for r in own_nodes(f.node) if isinstance(r, ast.Return)]
    if len(rets) != 1:
        raise AnalysisError(f"{f.qualname}: expected one return")
    RR = Resolver(prog, f, inline=False)
    got = canon(RR.value(rets[0].value, rets[0]))
    E = lambda src: canon(RR.expect(src))     # noqa: E731
    M = "hvsr.mean_curve_by_azimuth(distribution=distribution_mc)"
    wants = [E(f"(np.meshgrid(hvsr.frequency, [*hvsr.azimuths, 180.])[0], np.meshgrid(hvsr.frequency, [*hvsr.azimuths, 180.])[1], np.vstack(({M}, {M}[0])))")]
    third_ok = None
    if isinstance(got, sp.Tuple) and len(got) == 3:
        w3 = wants[0][2]
        alts = [w3, canon(RR.expect(f"np.vstack(({M}, {M}[0:1]))")), canon(RR.expect(f"np.vstack([{M}, {M}[0]])")), canon(RR.expect(f"np.concatenate(({M}, {M}[:1]))"))]
        third_ok = got[2] in alts
    # ... and its azimuth axis is the object's azimuths, in the object's order, followed by 180 (row k of the surface is azimuth k)
    if isinstance(got, sp.Tuple) and len(got) == 3:
        axes = {a_.args[1] for g_ in got[:2] for a_ in sp.preorder_traversal(g_) if getattr(getattr(a_, "func", None), "__name__", "") == "meshgrid" and len(a_.args) >= 2}
        allowed = [canon(RR.expect(src)) for src in ("[*hvsr.azimuths, 180.]", "(*hvsr.azimuths, 180.)", "np.append(hvsr.azimuths, 180.)", "np.array([*hvsr.azimuths, 180.])",
                                                     "list(hvsr.azimuths) + [180.]", "np.concatenate((hvsr.azimuths, [180.]))", "np.hstack((hvsr.azimuths, 180.))")]
        for ax in axes:
            names_ = {getattr(getattr(a_, "func", None), "__name__", "") for a_ in sp.preorder_traversal(ax)}
            if ax in allowed:
                ck.ok(R_, f.qualname, "azimuth axis = the object's azimuths in order, then 180", nontrivial=False)
            elif names_ & {"sorted", "sort", "unique", "flip", "argsort", "reversed"}:
                ck.violation(R_, f.qualname, "azimuth axis", f"the azimuth axis of the surface is `{str(ax)[:100]}`: re-ordered, while the rows of the surface stay in the object's "
                             f"order - each mean curve is drawn at another azimuth", loc=f.loc(rets[0]))
            else:
                raise AnalysisError(f"{f.qualname}: the azimuth axis `{str(ax)[:80]}` is not recognised")
    if third_ok:
        ck.ok(R_, f.qualname, "surface = mean curves by azimuth, closed at 180 degrees by the first azimuth's curve")
    elif third_ok is False:
        ck.violation(R_, f.qualname, "azimuthal surface", f"the surface drawn is {str(got[2])[:160]}; expected the object's mean curves by azimuth with the first azimuth's "
                     f"curve repeated at 180 degrees", loc=f.loc(rets[0]))
    else:
        raise AnalysisError(f"{f.qualname}: the mesh is not returned as (frequency mesh, azimuth mesh, amplitude mesh)")
    # (b)
    n = 0
    for name in ("plot_azimuthal_contour_2d", "plot_azimuthal_contour_3d"):
        g = prog.func(f"postprocessing.{name}")
        blocks = [x for x in own_nodes(g.node) if isinstance(x, ast.If) and isinstance(x.test, ast.Name) and x.test.id == "plot_mean_curve_peak_by_azimuth"]
        if len(blocks) != 1:
            raise AnalysisError(f"{g.qualname}: the block that draws the peak markers is not recognised")
        cs = [c for b in blocks[0].body for c in calls_in(b, "mean_curve_peak_by_azimuth")]
        n += 1
        if len(cs) == 1 and isinstance(cs[0].func, ast.Attribute) and unparse(cs[0].func.value) == "hvsr" and \
                unparse(kwarg(cs[0], "distribution") or (cs[0].args[0] if cs[0].args else ast.Constant(value=None))) == "distribution_mc":
            ck.ok(R_, g.qualname, "peak markers = hvsr.mean_curve_peak_by_azimuth(distribution=distribution_mc)")
        else:
            ck.violation(R_, g.qualname, "peak markers by azimuth", "the peak markers are not the object's mean_curve_peak_by_azimuth(distribution=distribution_mc): "
                         "what is marked need not be the peak the object reports (search range, find_peaks settings)", loc=g.loc(blocks[0]))
    # (c)
    g = prog.func("postprocessing.plot_pre_and_post_rejection")
    cs = calls_in(g.node, "plot_seismic_recordings_3c")
    if len(cs) != 1:
        raise AnalysisError(f"{g.qualname}: expected one call of plot_seismic_recordings_3c")
    tgt = prog.func("postprocessing.plot_seismic_recordings_3c")
    b = bind_call(cs[0], tgt.params)
    mv = b.get("valid_window_boolean_mask")
    RG = Resolver(prog, g, inline=False)
    st = cs[0]
    while not isinstance(st, ast.stmt):
        st = parent_of(st)
    if mv is not None and canon(RG.value(mv, st)) == canon(RG.expect("hvsr.valid_window_boolean_mask")):
        ck.ok(R_, g.qualname, "waveform panels coloured by hvsr.valid_window_boolean_mask")
    else:
        ck.violation(R_, g.qualname, "mask of the waveform panels", f"the waveform panels are coloured by `{unparse(mv) if mv is not None else None}`, not by the object's "
                     f"window mask: an accepted window is drawn as rejected (or the reverse)", loc=g.loc(cs[0]))


def _read_only(ck: Checker, prog: Program):
    """R1 / R2 over every function of postprocessing.py; returns the functions."""
    eng = engine(prog)
    mod = prog.module("postprocessing")
    funcs = [f for f in prog.funcs.values() if f.module is mod and f.cls is None and f.kind == "function"]
    ck.floor("C20.R1", len(funcs), 15, "functions in postprocessing.py")
    for f in sorted(funcs, key=lambda x: x.node.lineno):
        data_idx = [i for i, p in enumerate(f.params) if p in DATA_PARAMS]
        if not data_idx:
            continue
        s = eng.summary(f)
        effs = [e for e in s.effects if e.origin[0] == "P" and e.origin[1] in data_idx]
        # R2: direct attribute rebinding in this very function may be a paired save/restore
        direct = [e for e in effs if len(e.chain) == 1 and e.kind == "attr-store" and e.origin[2] == ()]
        others = [e for e in effs if e not in direct]
        paired_attrs = set()
        if direct:
            paired_attrs = _check_pairing(ck, prog, f, sorted({e.fld for e in direct}))
        leftover = others + [e for e in direct if e.fld not in paired_attrs]
        if not leftover:
            ck.ok("C20.R1", f.qualname, f"no unpaired effect on {[f.params[i] for i in data_idx]}",
                  detail=f"{len(s.effects)} effects in summary")
        for (func, text), es in group_effects(prog, leftover).items():
            e = es[0]
            if e in direct:
                continue  # already reported by R2
            ck.violation("C20.R1", func, text,
                         f"{f.qualname} changes the object it displays: {describe_effect(e)}",
                         loc=e.chain[0].loc, path=chain_text(e))
        # what is drawn is the object's state at the time of the call: the function keeps nothing in module-level state of the
        # package (a mesh / curve remembered from an earlier call outlives a later rejection or range change)
        glob = [e for e in s.effects if e.origin[0] == "G"]
        for (func, text), es in group_effects(prog, glob).items():
            e = es[0]
            ck.violation("C20.R1", func, text,
                         f"{f.qualname} keeps state between calls: {describe_effect(e)} - what it draws next time may be the state of an earlier call",
                         loc=e.chain[0].loc, path=chain_text(e))
    return funcs


# --------------------------------------------------------------------------- R2
def _check_pairing(ck: Checker, prog: Program, f, attrs: List[str]):
    cfg = cfg_of(f)
    rd = reaching(f)
    ok_attrs = set()
    obj_params = [p for p in f.params if p in DATA_PARAMS]
    for attr in attrs:
        stores = []      # (cfg node, stmt, obj name)
        for st in own_nodes(f.node):
            if isinstance(st, ast.Assign):
                for t in st.targets:
                    if isinstance(t, ast.Attribute) and t.attr == attr and isinstance(t.value, ast.Name) \
                            and t.value.id in obj_params:
                        stores.append((cfg.node(st), st, t.value.id))
        if not stores:
            continue
        obj = stores[0][2]
        # snapshots: name = <expr reading obj.attr>, defined at a node that no store reaches
        store_nodes = [n for (n, _s, _o) in stores]

        def is_snapshot_def(st) -> bool:
            if not (isinstance(st, ast.Assign) and len(st.targets) == 1 and isinstance(st.targets[0], ast.Name)):
                return False
            reads = [x for x in ast.walk(st.value) if isinstance(x, ast.Attribute) and x.attr == attr
                     and isinstance(x.value, ast.Name) and x.value.id == obj]
            if not reads:
                return False
            # snapshot must hold the value (copy or alias), not something computed from it
            v = st.value
            if isinstance(v, ast.Attribute):
                return True
            if isinstance(v, ast.Call) and (dotted(v.func) in ("np.array", "numpy.array", "np.copy", "numpy.copy",
                                                                "copy.deepcopy", "deepcopy", "copy.copy", "list")
                                            or call_name(v) in ("copy",)):
                a0 = v.args[0] if v.args else (v.func.value if isinstance(v.func, ast.Attribute) else None)
                return isinstance(a0, ast.Attribute) and a0.attr == attr
            return False

        snaps: Dict[str, int] = {}
        for st in own_nodes(f.node):
            if is_snapshot_def(st):
                n = cfg.node(st)
                # taken before any overwrite: no store node reaches the snapshot
                tainted = any(cfg.exists_path_avoiding(w, n, []) for w in store_nodes if w != n)
                if not tainted:
                    snaps[st.targets[0].id] = n
        restore_nodes = []
        for (n, st, _o) in stores:
            v = st.value
            if isinstance(v, ast.Name) and v.id in snaps and rd.defs_at(v.id, st) == [snaps[v.id]]:
                restore_nodes.append(n)
        bad = None
        if not snaps:
            bad = f"`{obj}.{attr}` is overwritten without a snapshot of `{obj}.{attr}` taken beforehand"
        else:
            for (n, st, _o) in stores:
                if n in restore_nodes:
                    continue
                path = cfg.path_avoiding(n, cfg.exit, restore_nodes)
                if path is not None:
                    bad = (f"after `{norm_key(st, 60)}` there is a path to the exit on which `{obj}.{attr}` is not "
                           f"restored from its own snapshot ({', '.join(sorted(snaps))})")
                    break
            if bad is None:
                for sname, sn in snaps.items():
                    for (n, st, _o) in stores:
                        if not cfg.dominates(sn, n) and n in restore_nodes:
                            pass
        key = f"{obj}.{attr} save/restore"
        if bad:
            # name the offending restore if one restores from a foreign snapshot
            for (n, st, _o) in stores:
                v = st.value
                if isinstance(v, ast.Name) and v.id not in snaps and v.id.startswith("store"):
                    bad += f"; `{norm_key(st, 80)}` restores from `{v.id}`, which is not a snapshot of `{attr}`"
            ck.violation("C20.R2", f.qualname, key, bad, loc=f.loc(stores[0][1]),
                         path=cfg.describe_path(cfg.path_avoiding(stores[0][0], cfg.exit, restore_nodes) or [])[:12])
        else:
            ck.ok("C20.R2", f.qualname, key,
                  detail=f"{len(stores)} stores, {len(restore_nodes)} restore(s) from snapshot(s) {sorted(snaps)}")
            ok_attrs.add(attr)
    return ok_attrs


# --------------------------------------------------------------------------- R3
def _mask_selection(expr: ast.AST, flag: str):
    """Recognise `<h>.MASK if flag else ~<h>.MASK` (or logical_not / == False); returns (obj, MASK)."""
    if not isinstance(expr, ast.IfExp):
        return None
    t = expr.test
    pos_first = None
    if isinstance(t, ast.Name) and t.id == flag:
        pos_first = True
    elif isinstance(t, ast.UnaryOp) and isinstance(t.op, ast.Not) and isinstance(t.operand, ast.Name) and t.operand.id == flag:
        pos_first = False
    if pos_first is None:
        return None
    pos, neg = (expr.body, expr.orelse) if pos_first else (expr.orelse, expr.body)

    def plain(e):
        if isinstance(e, ast.Attribute) and isinstance(e.value, ast.Name):
            return (e.value.id, e.attr)
        return None

    def negated(e):
        if isinstance(e, ast.UnaryOp) and isinstance(e.op, ast.Invert):
            return plain(e.operand)
        if isinstance(e, ast.Call) and call_name(e) == "logical_not" and e.args:
            return plain(e.args[0])
        if isinstance(e, ast.Compare) and len(e.ops) == 1 and isinstance(e.ops[0], (ast.Eq, ast.Is)) \
                and isinstance(e.comparators[0], ast.Constant) and e.comparators[0].value is False:
            return plain(e.left)
        return None
    p, n = plain(pos), negated(neg)
    if p is not None and p == n:
        return p
    return None


def _r3(ck: Checker, prog: Program):
    _PROG[0] = prog
    ck.guard(_one_log_base, ck, prog)
    # ---- individual curves
    f = prog.func("postprocessing._plot_individual_hvsr_curves")
    _check_masked_plot(ck, f, flag="valid", mask="valid_window_boolean_mask",
                       what="accepted/rejected curves", rows=("amplitude",), x="frequency")
    f = prog.func("postprocessing._plot_peak_individual_hvsr_curve")
    _check_masked_plot(ck, f, flag="valid", mask="valid_peak_boolean_mask",
                       what="accepted/rejected peak markers", rows=("_main_peak_frq", "_main_peak_amp"), x=None)

    # ---- accessor-driven artists
    spec = [
        ("postprocessing._plot_peak_mean_hvsr_curve", "plot", "mean_curve_peak", {"distribution": "distribution"}, None),
        ("postprocessing._plot_mean_hvsr_curve", "plot", "mean_curve", {"distribution": "distribution"}, "frequency"),
        ("postprocessing._plot_nth_std_hvsr_curve", "plot", "nth_std_curve", {"distribution": "distribution", "n": "n"}, "frequency"),
    ]
    for (fq, draw, accessor, kws, xattr) in spec:
        f = prog.func(fq)
        draws = [c for c in calls_in(f.node, draw) if isinstance(c.func, ast.Attribute)
                 and isinstance(c.func.value, ast.Name) and c.func.value.id == "ax"]
        if len(draws) != 1:
            raise AnalysisError(f"{fq}: expected one ax.{draw}() call, found {len(draws)}")
        d = draws[0]
        acc = [c for a in d.args for c in calls_in(a, accessor)]
        # the drawn argument IS the accessor's value (possibly unpacked with *), not something computed from it (clipped, scaled, ...)
        direct = [a.value if isinstance(a, ast.Starred) else a for a in d.args]
        wrapped = [a for a in direct if calls_in(a, accessor) and not (isinstance(a, ast.Call) and call_name(a) == accessor)]
        good = len(acc) == 1 and not wrapped and isinstance(acc[0].func, ast.Attribute) and isinstance(acc[0].func.value, ast.Name) \
            and acc[0].func.value.id == "hvsr"
        detail = ""
        if good:
            for k, pname in kws.items():
                v = kwarg(acc[0], k)
                if v is None:
                    idx = {"n": 0, "distribution": 1 if "n" in kws else 0}[k]
                    v = acc[0].args[idx] if idx < len(acc[0].args) else None
                if not (isinstance(v, ast.Name) and v.id == pname and reaching(f).only_param(pname, acc[0])):
                    good = False
                    detail = f"accessor argument {k}={unparse(v) if v is not None else '<default>'} is not the function's `{pname}` parameter"
            if good and xattr is not None:
                x0 = d.args[0]
                if not (isinstance(x0, ast.Attribute) and x0.attr == xattr and isinstance(x0.value, ast.Name) and x0.value.id == "hvsr"):
                    good = False
                    detail = f"x data is `{unparse(x0)}`, not hvsr.{xattr}"
            if good and not reaching(f).only_param("hvsr", acc[0]):
                good = False
                detail = "`hvsr` is rebound before the accessor call"
        elif wrapped:
            detail = f"what is drawn is `{unparse(wrapped[0])[:80]}`: computed from hvsr.{accessor}(...), not the accessor's value itself"
        else:
            detail = f"the drawn data are not a direct call of hvsr.{accessor}(...)"
        if good:
            ck.ok("C20.R3", fq, norm_key(d, 100), detail=f"draws hvsr.{accessor}({', '.join(kws)})")
        else:
            ck.violation("C20.R3", fq, norm_key(d, 100), detail, loc=f.loc(d))

    # ---- fn band
    f = prog.func("postprocessing._plot_nth_std_frequency_range")
    fills = calls_in(f.node, "fill")
    if len(fills) != 1:
        raise AnalysisError(f"{f.qualname}: expected one ax.fill() call")
    T = Translator()
    env = {}
    for st in own_nodes(f.node):
        if isinstance(st, ast.Assign) and len(st.targets) == 1 and isinstance(st.targets[0], ast.Name) \
                and calls_in(st.value, "nth_std_fn_frequency"):
            env[st.targets[0].id] = st.value
    xs = fills[0].args[0] if fills[0].args else None
    good = isinstance(xs, (ast.List, ast.Tuple)) and len(xs.elts) == 4 and all(isinstance(e, ast.Name) and e.id in env for e in xs.elts)
    detail = ""
    if good:
        lo, hi = xs.elts[0].id, xs.elts[2].id
        good = xs.elts[1].id == lo and xs.elts[3].id == hi and lo != hi
        sign = {}
        for nm in (lo, hi):
            c = calls_in(env[nm], "nth_std_fn_frequency")[0]
            nv = kwarg(c, "n") or (c.args[0] if c.args else None)
            dv = kwarg(c, "distribution") or (c.args[1] if len(c.args) > 1 else None)
            tn = T.tr(nv) if nv is not None else None
            sign[nm] = tn
            if not (isinstance(dv, ast.Name) and dv.id == "distribution"):
                good = False
                detail = f"band edge `{nm}` ignores the distribution argument"
            if not (isinstance(c.func, ast.Attribute) and isinstance(c.func.value, ast.Name) and c.func.value.id == "hvsr"):
                good = False
                detail = "band edge not taken from hvsr.nth_std_fn_frequency"
        n_sym = T.sym("n")
        if good and not (sign[lo] is not None and sign[hi] is not None and equal(sign[lo], -n_sym) and equal(sign[hi], n_sym)):
            good = False
            detail = f"band edges use n={sign[lo]} and n={sign[hi]} (expected -n and +n)"
    else:
        detail = "fill() x-coordinates are not [f_min, f_min, f_max, f_max] of hvsr.nth_std_fn_frequency"
    if good:
        ck.ok("C20.R3", f.qualname, norm_key(fills[0], 100), detail="band = hvsr.nth_std_fn_frequency(-n/+n, distribution)")
    else:
        ck.violation("C20.R3", f.qualname, norm_key(fills[0], 100), detail, loc=f.loc(fills[0]))

    # ---- single panel: flags, distributions, n = +1 / -1
    f = prog.func("postprocessing.plot_single_panel_hvsr_curves")
    expect = {
        "_plot_individual_hvsr_curves": [("plot_valid_curves", {"valid": True}), ("plot_invalid_curves", {"valid": False})],
        "_plot_mean_hvsr_curve": [("plot_mean_curve", {"distribution": "distribution_mc"})],
        "_plot_nth_std_hvsr_curve": [("plot_mean_curve", {"distribution": "distribution_mc", "n": 1}),
                                     ("plot_mean_curve", {"distribution": "distribution_mc", "n": -1})],
        "_plot_nth_std_frequency_range": [("plot_frequency_std", {"distribution": "distribution_fn", "n": 1})],
        "_plot_peak_mean_hvsr_curve": [("plot_peak_mean_curve", {"distribution": "distribution_mc"})],
        "_plot_peak_individual_hvsr_curve": [("plot_peak_individual_valid_curves", {"valid": True}),
                                             ("plot_peak_individual_invalid_curves", {"valid": False})],
    }
    from ..model import parent_of
    n_found = 0
    for helper, cases in expect.items():
        calls = calls_in(f.node, helper)
        remaining = list(cases)
        for c in calls:
            guard = None
            p = parent_of(c)
            while p is not None and p is not f.node:
                if isinstance(p, ast.If) and isinstance(p.test, ast.Name):
                    guard = p.test.id
                    break
                p = parent_of(p)
            got = {}
            for k in c.keywords:
                if k.arg in ("valid", "n", "distribution"):
                    if isinstance(k.value, ast.Name):
                        got[k.arg] = k.value.id
                    else:
                        try:
                            got[k.arg] = ast.literal_eval(k.value)
                        except Exception:
                            got[k.arg] = unparse(k.value)
            hv = kwarg(c, "hvsr")
            hv_ok = isinstance(hv, ast.Name) and hv.id == "hvsr" and reaching(f).only_param("hvsr", c)
            match = None
            for case in remaining:
                if case[0] == guard and all(got.get(k) == v for k, v in case[1].items()):
                    match = case
                    break
            n_found += 1
            if match is not None and hv_ok:
                remaining.remove(match)
                ck.ok("C20.R3", f.qualname, norm_key(c, 110), detail=f"guard {guard}, args {got}")
            else:
                ck.violation("C20.R3", f.qualname, norm_key(c, 110),
                             f"call of {helper} under guard `{guard}` with {got} does not match the panel's contract "
                             f"(expected one of {cases}; hvsr passed through: {hv_ok})", loc=f.loc(c))
        for case in remaining:
            ck.violation("C20.R3", f.qualname, f"missing {helper} {case}",
                         f"no call of {helper} guarded by `{case[0]}` with {case[1]}", loc=f.loc())
    ck.floor("C20.R3", n_found, 9, "helper calls in plot_single_panel_hvsr_curves")


def _check_masked_plot(ck: Checker, f, flag: str, mask: str, what: str, rows, x: Optional[str], prog: Program = None):
    """What is drawn per member h (the object itself or each per-azimuth member): rows of h.<rows>[sel] with
    sel = h.<mask> if <flag> else ~h.<mask> (values resolved through temporaries)."""
    from ..resolve import Resolver, canon
    from ..model import parent_of
    key = f"{what}: selection by {mask}"
    prog = prog or _PROG[0]
    R = Resolver(prog, f, inline=False)
    plots = [c for c in calls_in(f.node, "plot") if isinstance(c.func, ast.Attribute)]
    if len(plots) != 1:
        raise AnalysisError(f"{f.qualname}: expected one plot call, found {len(plots)}")
    p = plots[0]
    pst = p
    while not isinstance(pst, ast.stmt):
        pst = parent_of(pst)
    # the member loop: the outermost enclosing for loop with a plain name target
    loops = []
    q = parent_of(pst)
    while q is not None and q is not f.node:
        if isinstance(q, ast.For):
            loops.append(q)
        q = parent_of(q)
    if not loops or not isinstance(loops[-1].target, ast.Name):
        raise AnalysisError(f"{f.qualname}: loop over the members not found")
    member = loops[-1]
    H = member.target.id
    # every member is visited: nothing inside the member loop leaves it (or the function) early
    leaving = [x for x in ast.walk(member) if isinstance(x, (ast.Return, ast.Break)) or (isinstance(x, ast.Raise))]
    inner_loops = [x for x in ast.walk(member) if isinstance(x, (ast.For, ast.While)) and x is not member]
    leaving = [x for x in leaving if isinstance(x, ast.Return) or not any(any(y is x for y in ast.walk(il)) for il in inner_loops)]
    if leaving:
        ck.violation("C20.R3", f.qualname, f"{what}: member loop", f"the loop over the members (azimuths) is left by `{type(leaving[0]).__name__.lower()}` at line "
                     f"{leaving[0].lineno}: the members after that one are not drawn", loc=f.loc(leaving[0]))
    else:
        ck.ok("C20.R3", f.qualname, f"{what}: every member is visited", nontrivial=False)
    # a guard around the drawing call may only skip an empty selection: one line / marker per selected window
    g = parent_of(pst)
    child = pst
    while g is not None and g is not member:
        if isinstance(g, ast.If):
            in_body = any(y is child for y in g.body)
            verdict = _only_skips_empty(g.test) if in_body else None
            if verdict is True:
                ck.ok("C20.R3", f.qualname, f"{what}: the guard only skips an empty selection", nontrivial=False)
            elif verdict is False:
                ck.violation("C20.R3", f.qualname, f"{what}: guard",
                             f"`if {unparse(g.test)}` skips the drawing for a member whose selection is not empty: a member with a single selected window "
                             f"gets no line / marker", loc=f.loc(g))
            else:
                raise AnalysisError(f"{f.qualname}: the guard `{norm_key(g.test, 60)}` around the drawing call is not recognised")
        child = g
        g = parent_of(g)
    if not reaching(f).only_param(flag, pst):
        ck.violation("C20.R3", f.qualname, key, f"`{flag}` is rebound before the selection", loc=f.loc(pst))
        return
    sel_src = f"({H}.{mask} if {flag} else ~{H}.{mask})"
    alt_src = f"({H}.{mask} if {flag} else np.logical_not({H}.{mask}))"
    args = [a for a in p.args if not isinstance(a, ast.Starred)]

    def val(e, at):
        return canon(R.value(e, at))

    def want(src):
        return [canon(R.expect(src.replace("SEL", s_))) for s_ in (sel_src, alt_src)]
    problems = []
    if x is not None:
        if len(args) < 2:
            raise AnalysisError(f"{f.qualname}: plot(x, y) expected")
        if val(args[0], pst) != canon(R.expect(f"{H}.{x}")):
            problems.append(f"x data `{unparse(args[0])}` is not {H}.{x}")
        # y: the loop variable of a loop over h.<rows[0]>[sel]
        inner = loops[0] if len(loops) > 1 else None
        if inner is None or not (isinstance(inner.target, ast.Name) and isinstance(args[1], ast.Name) and args[1].id == inner.target.id):
            problems.append(f"y data `{unparse(args[1])}` is not a row of {H}.{rows[0]}[selection]")
        else:
            got = val(inner.iter, inner)
            if got not in want(f"{H}.{rows[0]}[SEL]"):
                problems.append(f"the rows drawn are those of {got}; expected {H}.{rows[0]}[{H}.{mask} if {flag} else ~{H}.{mask}]")
    else:
        if len(args) < 2:
            raise AnalysisError(f"{f.qualname}: plot(frequency, amplitude) expected")
        for a, r_ in zip(args[:2], rows):
            got = val(a, pst)
            if got not in want(f"{H}.{r_}[SEL]"):
                problems.append(f"markers use {got}; expected {H}.{r_}[{H}.{mask} if {flag} else ~{H}.{mask}]")
    if problems:
        ck.violation("C20.R3", f.qualname, key, "; ".join(problems), loc=f.loc(p))
    else:
        ck.ok("C20.R3", f.qualname, key, detail=f"per member `{H}`: rows {list(rows)} selected by {H}.{mask} / its complement")


def _one_log_base(ck: Checker, prog: Program):
    """Within one drawing function every coordinate that is put on a logarithmic axis goes through the same logarithm: markers drawn at
    np.log(f) on a surface laid out in np.log10(f) do not sit at the object's frequencies."""
    n = 0
    for f in prog.funcs.values():
        if f.module.name != "postprocessing" or f.kind == "lambda":
            continue
        logs = [c for c in own_nodes(f.node) if isinstance(c, ast.Call) and call_name(c) in ("log", "log10", "log2", "log1p")]
        if not logs:
            continue
        n += 1
        bases = sorted({call_name(c) for c in logs})
        if len(bases) == 1:
            ck.ok("C20.R3", f.qualname, f"one logarithm ({bases[0]}) for every log-scaled coordinate", nontrivial=False)
        else:
            odd = min(bases, key=lambda b: sum(1 for c in logs if call_name(c) == b))
            c0 = [c for c in logs if call_name(c) == odd][0]
            ck.violation("C20.R3", f.qualname, "logarithm base", f"`{norm_key(c0, 70)}` uses {odd} while the rest of the drawing uses {[b for b in bases if b != odd][0]}: "
                         f"what is drawn there does not sit at the object's values on the axis", loc=f.loc(c0))
    ck.floor("C20.R3", n, 2, "drawing functions with log-scaled coordinates")


def _only_skips_empty(test: ast.AST) -> Optional[bool]:
    """True: the test holds for every non-empty selection; False: it fails for some non-empty selection; None: not recognised."""
    def count(e) -> bool:
        return (isinstance(e, ast.Call) and call_name(e) in ("len", "count_nonzero", "sum") and len(e.args) == 1) \
            or (isinstance(e, ast.Attribute) and e.attr == "size")
    if count(test):
        return True
    if isinstance(test, ast.Call) and call_name(test) == "any" and len(test.args) <= 1:
        return True
    if isinstance(test, ast.Compare) and len(test.ops) == 1:
        l, op, r = test.left, test.ops[0], test.comparators[0]
        if count(r) and isinstance(l, ast.Constant):
            flip = {ast.Lt: ast.Gt, ast.LtE: ast.GtE, ast.Gt: ast.Lt, ast.GtE: ast.LtE, ast.NotEq: ast.NotEq, ast.Eq: ast.Eq}
            if type(op) not in flip:
                return None
            l, op, r = r, flip[type(op)](), l
        if count(l) and isinstance(r, ast.Constant) and isinstance(r.value, int) and not isinstance(r.value, bool):
            k = r.value
            if isinstance(op, ast.Gt):
                return k <= 0
            if isinstance(op, ast.GtE):
                return k <= 1
            if isinstance(op, ast.NotEq):
                return k == 0
            return False if isinstance(op, (ast.Lt, ast.LtE, ast.Eq)) else None
    return None


_PROG = [None]


# --------------------------------------------------------------------------- R4
def _r4(ck: Checker, prog: Program):
    """Summary table as a decision table over the fn distribution: 3 rows x 4 cells of the object's accessors."""
    from ..pathtable import PathTable, literals, holds
    f = prog.func("postprocessing.summarize_hvsr_statistics")
    rd = reaching(f)
    R = lambda n: sp.Symbol(n, real=True)   # noqa: E731
    hv, dist = R("hvsr"), R("distribution_fn")
    H = sp.Function

    def acc(name, *a):
        return H(name)(hv, *a)

    def norm(v):
        """call(attr_NAME(obj), args) -> NAME(obj, args); keyword wrappers dropped."""
        def is_call(e):
            return getattr(getattr(e, "func", None), "__name__", "") == "call" and getattr(getattr(e.args[0], "func", None), "__name__", "").startswith("attr_")

        def fix(e):
            a0 = e.args[0]
            rest = [x.args[0] if getattr(getattr(x, "func", None), "__name__", "").startswith("kw_") else x for x in e.args[1:]]
            return H(a0.func.__name__[5:])(a0.args[0], *rest)
        for _ in range(4):
            v = v.replace(is_call, fix)
        return v
    pt = PathTable(prog, f.module, unroll=True, structured=True)
    leaves = pt.leaves(f.node.body)
    n_tables = 0
    for branch in ("lognormal", "normal"):
        assign = {dist: sp.Symbol(f"'{branch}'")}
        cands = []
        for l in leaves:
            vals = [holds(x, assign) for x in literals(l) if x.has(dist)]
            if any(v is None for v in vals):
                raise AnalysisError(f"{f.qualname}: a condition on distribution_fn could not be evaluated")
            if all(vals) and l.exit != "raise":
                cands.append(l)
        if not cands:
            ck.violation("C20.R4", f.qualname, f"table[{branch}]", f"no table is produced for distribution_fn = '{branch}'", loc=f.loc())
            continue
        for l in cands[:1]:
            table = None
            for nm, v in l.env.items():
                v = norm(v) if hasattr(v, "replace") else v
                if isinstance(v, sp.Tuple) and len(v) == 3 and all(isinstance(r_, sp.Tuple) and len(r_) == 4 for r_ in v):
                    table = v
            if table is None:
                raise AnalysisError(f"{f.qualname}: summary table is not 3 rows x 4 columns")
            n_tables += 1
            frq = [acc("mean_fn_frequency", dist), acc("std_fn_frequency", dist),
                   acc("nth_std_fn_frequency", sp.Integer(-1), dist), acc("nth_std_fn_frequency", sp.Integer(1), dist)]
            amp = [acc("mean_fn_amplitude", dist), acc("std_fn_amplitude", dist),
                   acc("nth_std_fn_amplitude", sp.Integer(-1), dist), acc("nth_std_fn_amplitude", sp.Integer(1), dist)]
            names = ["median/mean", "standard deviation", "-1 std", "+1 std"]
            bad = []
            for j in range(4):
                if not equal(table[0][j], frq[j]):
                    bad.append(f"frequency row, {names[j]}: `{table[0][j]}`")
                if not equal(table[2][j], amp[j]):
                    bad.append(f"amplitude row, {names[j]}: `{table[2][j]}`")
            if branch == "lognormal":
                per = [1 / frq[0], frq[1], 1 / frq[2], 1 / frq[3]]
                for j in range(4):
                    if not equal(table[1][j], per[j]):
                        bad.append(f"period row, {names[j]}: `{table[1][j]}` is not {per[j]}")
            else:
                for j in range(4):
                    if table[1][j] is not sp.nan:
                        bad.append(f"period row for the normal distribution must be NaN, found `{table[1][j]}`")
            if bad:
                ck.violation("C20.R4", f.qualname, f"table[{branch}]", "; ".join(bad[:4]), loc=f.loc())
            else:
                ck.ok("C20.R4", f.qualname, f"table[{branch}]", detail="12 cells equal the object's accessors (period row reciprocal)")
    ck.floor("C20.R4", n_tables, 2, "summary tables (lognormal, normal)")
    for p_ in ("hvsr", "distribution_fn"):
        uses = [n for n in own_nodes(f.node) if isinstance(n, ast.Name) and n.id == p_ and isinstance(n.ctx, ast.Load)]
        if any(not rd.only_param(p_, u) for u in uses):
            ck.violation("C20.R4", f.qualname, f"{p_} rebound", f"`{p_}` is rebound before the table is built", loc=f.loc())
    # mean-curve peak caption uses the object's accessor with distribution_mc
    caps = [c for c in calls_in(f.node, "mean_curve_peak")]
    for c in caps:
        dv = kwarg(c, "distribution") or (c.args[0] if c.args else None)
        good = isinstance(dv, ast.Name) and dv.id == "distribution_mc" and isinstance(c.func, ast.Attribute) \
            and isinstance(c.func.value, ast.Name) and c.func.value.id == "hvsr"
        if good:
            ck.ok("C20.R4", f.qualname, norm_key(c), nontrivial=False)
        else:
            ck.violation("C20.R4", f.qualname, norm_key(c), "caption peak is not hvsr.mean_curve_peak(distribution=distribution_mc)",
                         loc=f.loc(c))


#: options that decide which windows' lines and markers are drawn (the gating table of the single panel, C20.R3)
STATE_OPTIONS = ("plot_valid_curves", "plot_invalid_curves", "plot_peak_individual_valid_curves", "plot_peak_individual_invalid_curves")


def _option_forwarding(ck: Checker, prog: Program, funcs):
    """A plotting function that hands its own option <k> on to another function of the module which has an option of the same
    name must pass it the value of <k>, not the value of another of its options (crossed wires: the figure then shows a state the
    caller did not ask for).  By def-use: the parameters the passed expression derives from."""
    from ..dataflow import value_sources
    from ..astutil import bind_call
    n = 0
    for f in sorted(funcs, key=lambda x: x.node.lineno):
        mine = set(f.params)
        for c in calls_in(f.node):
            r = prog.resolve_name(f.module, c.func.id) if isinstance(c.func, ast.Name) else None
            if not r or r[0] != "func" or r[1].module is not f.module:
                continue
            g = r[1]
            at = c
            while at is not None and not isinstance(at, ast.stmt):
                at = parent_of(at)
            for k, e in bind_call(c, g.params).items():
                if k not in mine or k in DATA_PARAMS:
                    continue
                src, _stmts = value_sources(f, e, at)
                n += 1
                if k not in STATE_OPTIONS and not k.startswith("distribution"):
                    # options that only add or drop a statistic's marker: whatever is drawn is still the object's statistic
                    ck.ok("C20.R3", f.qualname, f"{g.name}({k}=...) does not select windows or a distribution", nontrivial=False)
                elif k in src or not src:
                    ck.ok("C20.R3", f.qualname, f"{g.name}({k}=...) receives the caller's `{k}`", nontrivial=False)
                else:
                    ck.violation("C20.R3", f.qualname, f"{g.name}: {k}",
                                 f"{f.qualname} passes `{k}={unparse(e)}` to {g.name}: the option `{k}` of the caller is replaced by "
                                 f"{sorted(src)}, so the panel is drawn for options the caller did not give", loc=f.loc(c))
    ck.floor("C20.R3", n, 20, "options forwarded under their own name")
