"""C08 - reported peaks are the highest local maximum inside the search range."""
from __future__ import annotations

import ast
from typing import List

import sympy as sp

from ..astutil import call_name, calls_in, own_nodes, unparse, kwarg, bind_call
from ..cfg import cfg_of, events_per_iteration
from ..dataflow import reaching
from ..expr import Translator, equal, forward_substitute
from ..model import AnalysisError, Program, norm_key, parent_of
from ..report import Checker
from .common import pkg_call_hook
from . import statscommon as S

EXPLANATION = (
    "Formula, CFG and def-use rules over HvsrCurve's peak finders and the update_peaks_bounded / mean_curve_peak "
    "methods of the four result classes. Decided: (R1) the search range is converted with `is None` tests to "
    "index bounds 0 / len(frequency) / argmin|f - limit|, frequency and amplitude are sliced with the same "
    "bounds, candidates come from find_peaks on the amplitude, the reported pair indexes both arrays with the "
    "same candidate chosen by argmax of the candidate amplitudes, and (None, None) is returned exactly when there "
    "are no candidates; (R2) after the cache test the per-window loop covers all rows without break/continue and "
    "every path through its body assigns peak frequency, peak amplitude and both masks exactly once (NaN/False "
    "when absent, the found pair/True otherwise); (R3) no stale range: the cache test compares both arguments "
    "with the stored ones, the non-returning path stores exactly the arguments, the peak search uses them, and "
    "mean_curve_peak of the traditional and azimuthal classes passes the stored range/kwargs (the azimuthal "
    "object reads them from its members); (R4) HvsrAzimuthal.update_peaks_bounded forwards both arguments to "
    "every member. Not decided: what find_peaks returns on plateaus and ties (assumption 2); nearest-grid-point "
    "rounding of the range ends.")

RULES = {
    "C08.R1": "range -> index bounds by `is None`/argmin; same slice for both arrays; argmax candidate indexes both arrays; None iff no candidates",
    "C08.R2": "every window re-evaluated: each loop iteration assigns peak frequency, amplitude and both masks exactly once",
    "C08.R3": "cache test compares both arguments; stored range == arguments; mean-curve peak uses the stored range",
    "C08.R4": "azimuthal fan-out forwards both arguments to every member",
}


def run(ck: Checker, prog: Program, tier: str):
    ck.guard(_r1, ck, prog)
    ck.guard(_r2, ck, prog)
    ck.guard(_r3, ck, prog)
    ck.guard(_r4, ck, prog)


def _ex(prog, f, cls, src, self_name="self"):
    T = Translator(call_hook=pkg_call_hook(prog, f.module, cls, self_name=self_name))
    return T.tr(ast.parse(src, mode="eval").body)


def _r1(ck: Checker, prog: Program):
    cls = prog.cls("HvsrCurve")
    # ---- range -> index
    f = cls.methods["_search_range_to_index_range"]
    T = Translator()
    forward_substitute([st for st in f.node.body if isinstance(st, ast.Assign)], T)
    freq = T.sym("frequency")
    for lim, dflt_src, name in (("f_low", "0", "f_low_idx"), ("f_high", "len(frequency)", "f_high_idx")):
        ifs = [st for st in f.node.body if isinstance(st, ast.If) and lim in unparse(st.test)]
        good = False
        detail = "branch not found"
        if len(ifs) == 1:
            st = ifs[0]
            tst = st.test
            is_none = isinstance(tst, ast.Compare) and isinstance(tst.ops[0], ast.Is) and unparse(tst.left) == lim \
                and isinstance(tst.comparators[0], ast.Constant) and tst.comparators[0].value is None
            TT = Translator()
            a = [b for b in st.body if isinstance(b, ast.Assign) and unparse(b.targets[0]) == name]
            e = [b for b in st.orelse if isinstance(b, ast.Assign) and unparse(b.targets[0]) == name]
            if is_none and len(a) == 1 and len(e) == 1:
                want_d = TT.tr(ast.parse(dflt_src, mode="eval").body)
                want_e = sp.Function("argmin")(sp.Abs(TT.sym("frequency") - TT.sym(lim)))
                good = equal(TT.tr(a[0].value), want_d) and equal(TT.tr(e[0].value), want_e)
                detail = f"None -> {unparse(a[0].value)}; else {unparse(e[0].value)}"
            else:
                detail = f"test `{unparse(tst)}` is not `{lim} is None`" if not is_none else "assignments not found"
        if good:
            ck.ok("C08.R1", f.qualname, f"{name}: {detail}")
        else:
            ck.violation("C08.R1", f.qualname, name,
                         f"index bound for `{lim}`: {detail}; expected `{dflt_src}` only when the limit is None and argmin|frequency - {lim}| otherwise "
                         f"(a limit of 0 is a limit)", loc=f.loc())
    rets = S.returns_of(f)
    if len(rets) == 1 and unparse(rets[0].value) == "(f_low_idx, f_high_idx)":
        ck.ok("C08.R1", f.qualname, norm_key(rets[0]), nontrivial=False)
    else:
        ck.violation("C08.R1", f.qualname, "return", "does not return (f_low_idx, f_high_idx)", loc=f.loc())
    # ---- bounded
    f = cls.methods["_find_peak_bounded"]
    T = Translator(call_hook=pkg_call_hook(prog, f.module, cls, self_name="HvsrCurve"))
    forward_substitute([st for st in f.node.body if isinstance(st, ast.Assign)], T)
    rets = S.returns_of(f)
    got = T.tr(rets[-1].value) if rets else None
    want = _ex(prog, f, cls, "HvsrCurve._find_peak_unbounded(frequency[HvsrCurve._search_range_to_index_range(frequency, search_range_in_hz)[0]:"
                             "HvsrCurve._search_range_to_index_range(frequency, search_range_in_hz)[1]], "
                             "amplitude[HvsrCurve._search_range_to_index_range(frequency, search_range_in_hz)[0]:"
                             "HvsrCurve._search_range_to_index_range(frequency, search_range_in_hz)[1]], find_peaks_kwargs=find_peaks_kwargs)",
               self_name="HvsrCurve")
    # structural variant: compare after replacing item(call, k) for tuple unpacking
    call = [c for c in calls_in(f.node, "_find_peak_unbounded")]
    ok = False
    detail = ""
    if len(call) == 1:
        b = bind_call(call[0], cls.methods["_find_peak_unbounded"].params)
        fa, aa = b.get("frequency"), b.get("amplitude")
        kw = b.get("find_peaks_kwargs")
        if isinstance(fa, ast.Subscript) and isinstance(aa, ast.Subscript) and isinstance(fa.slice, ast.Slice) and isinstance(aa.slice, ast.Slice):
            same = unparse(fa.slice) == unparse(aa.slice)
            bases = (unparse(fa.value), unparse(aa.value)) == ("frequency", "amplitude")
            lo, hi = unparse(fa.slice.lower) if fa.slice.lower else None, unparse(fa.slice.upper) if fa.slice.upper else None
            tgt = [st for st in f.node.body if isinstance(st, ast.Assign) and calls_in(st.value, "_search_range_to_index_range")]
            names = [unparse(e) for e in tgt[0].targets[0].elts] if tgt and isinstance(tgt[0].targets[0], ast.Tuple) else []
            rcall = calls_in(tgt[0].value, "_search_range_to_index_range")[0] if tgt else None
            rargs = [unparse(a) for a in rcall.args] if rcall is not None else []
            ok = same and bases and [lo, hi] == names and rargs == ["frequency", "search_range_in_hz"] and fa.slice.step is None \
                and kw is not None and unparse(kw) == "find_peaks_kwargs"
            detail = f"slices {unparse(fa)} / {unparse(aa)}; bounds from {rargs}"
    # the pair returned is the unbounded result, in order
    ret_ok = False
    if rets and call:
        st = [s for s in f.node.body if isinstance(s, ast.Assign) and any(x is call[0] for x in ast.walk(s.value))]
        if st and isinstance(st[0].targets[0], ast.Tuple):
            ret_ok = unparse(rets[-1].value) == unparse(st[0].targets[0])
        elif isinstance(rets[-1].value, ast.Call):
            ret_ok = rets[-1].value is call[0]
    if ok and ret_ok:
        ck.ok("C08.R1", f.qualname, norm_key(call[0], 110), detail=detail)
    else:
        ck.violation("C08.R1", f.qualname, "bounded search",
                     f"frequency and amplitude are not cut with the same index bounds of the requested range and searched together ({detail}; returns pair: {ret_ok})",
                     loc=f.loc())
    # ---- unbounded
    f = cls.methods["_find_peak_unbounded"]
    T = Translator()
    forward_substitute([st for st in f.node.body if isinstance(st, ast.Assign)], T)
    fp = [c for c in calls_in(f.node, "find_peaks")]
    good = len(fp) == 1 and fp[0].args and unparse(fp[0].args[0]) == "amplitude" and any(k.arg is None and unparse(k.value) == "find_peaks_kwargs" for k in fp[0].keywords)
    if good:
        ck.ok("C08.R1", f.qualname, norm_key(fp[0]), detail="candidates = find_peaks(amplitude, **find_peaks_kwargs)")
    else:
        ck.violation("C08.R1", f.qualname, "find_peaks call", "candidates are not find_peaks(amplitude, **find_peaks_kwargs)", loc=f.loc())
    idxs = None
    for st in f.node.body:
        if isinstance(st, ast.Assign) and fp and any(x is fp[0] for x in ast.walk(st.value)) and isinstance(st.targets[0], ast.Tuple):
            idxs = unparse(st.targets[0].elts[0])
    empties = [st for st in f.node.body if isinstance(st, ast.If) and idxs and unparse(st.test) in (f"len({idxs}) == 0", f"{idxs}.size == 0", f"not len({idxs})")]
    if len(empties) == 1 and any(isinstance(b, ast.Return) and unparse(b.value) == "(None, None)" for b in empties[0].body):
        ck.ok("C08.R1", f.qualname, norm_key(empties[0]), detail="absent iff no candidates")
    else:
        ck.violation("C08.R1", f.qualname, "no-candidate case", "(None, None) is not returned exactly when find_peaks yields no candidates", loc=f.loc())
    rets = [r for r in S.returns_of(f) if unparse(r.value) != "(None, None)"]
    okr = False
    detail = ""
    if len(rets) == 1 and idxs:
        TT = Translator()
        forward_substitute([st for st in f.node.body if isinstance(st, ast.Assign) and not isinstance(st.targets[0], ast.Tuple)], TT)
        got = TT.tr(rets[0].value)
        gi = sp.Function("getitem")
        I, A, F = TT.sym(idxs), TT.sym("amplitude"), TT.sym("frequency")
        sub = sp.Function("argmax")(gi(A, I))
        want = sp.Tuple(gi(F, gi(I, sub)), gi(A, gi(I, sub)))
        okr = equal(got, want) if not isinstance(got, sp.Tuple) else all(equal(x, y) for x, y in zip(got, want)) and len(got) == 2
        detail = str(got)
    if okr:
        ck.ok("C08.R1", f.qualname, norm_key(rets[0], 110), detail="(frequency[i*], amplitude[i*]) with i* = candidates[argmax(amplitude[candidates])]")
    else:
        ck.violation("C08.R1", f.qualname, "reported pair",
                     f"the reported pair is {detail}; expected frequency and amplitude at the same candidate index chosen by argmax of the candidate amplitudes",
                     loc=f.loc())


def _r2(ck: Checker, prog: Program):
    m = prog.cls("HvsrTraditional").methods["update_peaks_bounded"]
    fq = m.qualname
    cfg = cfg_of(m)
    loops = [st for st in m.node.body if isinstance(st, ast.For)]
    if len(loops) != 1:
        raise AnalysisError(f"{fq}: expected one per-window loop")
    lp = loops[0]
    if unparse(lp.iter) != "enumerate(self.amplitude)" or any(isinstance(x, (ast.Break,)) for x in ast.walk(lp)):
        ck.violation("C08.R2", fq, norm_key(lp), "the loop does not visit every row of self.amplitude (or may stop early)", loc=m.loc(lp))
    else:
        ck.ok("C08.R2", fq, norm_key(lp), nontrivial=False)
    idx = unparse(lp.target.elts[0]) if isinstance(lp.target, ast.Tuple) else None
    row = unparse(lp.target.elts[1]) if isinstance(lp.target, ast.Tuple) else None
    targets = ["_main_peak_frq", "_main_peak_amp", "valid_window_boolean_mask", "valid_peak_boolean_mask"]

    def classify(n):
        a = cfg.ast_of(n)
        if cfg.kind(n) == "stmt" and isinstance(a, ast.Assign) and isinstance(a.targets[0], ast.Subscript) \
                and isinstance(a.targets[0].value, ast.Attribute) and unparse(a.targets[0].value.value) == "self" \
                and a.targets[0].value.attr in targets and unparse(a.targets[0].slice) == idx:
            return targets.index(a.targets[0].value.attr)
        return None
    res = events_per_iteration(cfg, lp, classify, 4)
    if res == {(1, 1, 1, 1)}:
        ck.ok("C08.R2", fq, "each iteration assigns frequency, amplitude and both masks exactly once", detail=str(sorted(res)))
    else:
        bad = sorted(res - {(1, 1, 1, 1)})
        ck.violation("C08.R2", fq, "definite assignment per window",
                     f"an iteration can end having written {dict(zip(targets, bad[0])) if bad else res} (times) for window `{idx}`: "
                     f"a peak or mask entry keeps a stale value after the range changes", loc=m.loc(lp))
    # values per branch
    ifs = [st for st in lp.body if isinstance(st, ast.If)]
    good = False
    if len(ifs) == 1 and unparse(ifs[0].test) in ("f_peak is None",):
        def vals(block):
            out = {}
            for b in block:
                if isinstance(b, ast.Assign) and isinstance(b.targets[0], ast.Subscript) and isinstance(b.targets[0].value, ast.Attribute):
                    out[b.targets[0].value.attr] = unparse(b.value)
            return out
        va, vp = vals(ifs[0].body), vals(ifs[0].orelse)
        good = va == {"_main_peak_frq": "np.nan", "_main_peak_amp": "np.nan", "valid_window_boolean_mask": "False", "valid_peak_boolean_mask": "False"} \
            and vp == {"_main_peak_frq": "f_peak", "_main_peak_amp": "a_peak", "valid_window_boolean_mask": "True", "valid_peak_boolean_mask": "True"}
    if good:
        ck.ok("C08.R2", fq, "absent -> NaN/False; found -> (f_peak, a_peak)/True")
    else:
        ck.violation("C08.R2", fq, "values per outcome", "absent peaks are not recorded as NaN with both masks False, or found peaks not as (f_peak, a_peak) with both masks True",
                     loc=m.loc(lp))
    # the search inside the loop: this row, the object's frequency, the range in force
    c = calls_in(lp, "_find_peak_bounded")
    if len(c) == 1:
        b = bind_call(c[0], prog.cls("HvsrCurve").methods["_find_peak_bounded"].params)
        okc = unparse(b.get("frequency")) == "self.frequency" and unparse(b.get("amplitude")) == row \
            and unparse(b.get("search_range_in_hz")) in ("self._search_range_in_hz", "search_range_in_hz") \
            and unparse(b.get("find_peaks_kwargs")) in ("self._find_peaks_kwargs", "find_peaks_kwargs")
        tgt = parent_of(c[0])
        okt = isinstance(tgt, ast.Assign) and unparse(tgt.targets[0]) == "(f_peak, a_peak)"
        if okc and okt:
            ck.ok("C08.R2", fq, norm_key(c[0], 110))
        else:
            ck.violation("C08.R2", fq, norm_key(c[0], 110), "the per-window search does not examine (self.frequency, this row) over the range in force", loc=m.loc(c[0]))
    else:
        ck.violation("C08.R2", fq, "per-window search", "no single call of _find_peak_bounded in the loop", loc=m.loc(lp))
    # HvsrCurve: single curve
    m = prog.cls("HvsrCurve").methods["update_peaks_bounded"]
    st = [s for s in m.node.body if isinstance(s, ast.Assign) and unparse(s.targets[0]) == "(self.peak_frequency, self.peak_amplitude)"]
    nan = [s for s in m.node.body if isinstance(s, ast.If) and unparse(s.test) == "frq is None"]
    c = calls_in(m.node, "_find_peak_bounded")
    okc = len(c) == 1 and [unparse(a) for a in c[0].args[:2]] == ["self.frequency", "self.amplitude"]
    if st and unparse(st[0].value) == "(frq, amp)" and nan and okc:
        ck.ok("C08.R2", m.qualname, "peak_frequency, peak_amplitude = found pair or NaN")
    else:
        ck.violation("C08.R2", m.qualname, "single-curve peak", "HvsrCurve does not store the found pair (NaN when absent)", loc=m.loc())


def _r3(ck: Checker, prog: Program):
    for cname in ("HvsrCurve", "HvsrTraditional"):
        m = prog.cls(cname).methods["update_peaks_bounded"]
        fq = m.qualname
        first = m.node.body[0] if not isinstance(m.node.body[0], ast.Expr) else m.node.body[1]
        good = isinstance(first, ast.If) and any(isinstance(b, ast.Return) for b in first.body)
        if good:
            T = Translator()
            t = T.tr(first.test)
            want = sp.And(sp.Eq(T.sym("search_range_in_hz"), T.sym("self._search_range_in_hz"), evaluate=False),
                          sp.Eq(T.sym("find_peaks_kwargs"), T.sym("self._find_peaks_kwargs"), evaluate=False))
            good = isinstance(t, sp.And) and {str(a) for a in t.args} == {str(a) for a in want.args}
        if good:
            ck.ok("C08.R3", fq, norm_key(first), detail="early return only when both arguments equal the stored ones")
        else:
            ck.violation("C08.R3", fq, "cache test", "the early return does not compare both the range and the find_peaks arguments with the stored values",
                         loc=m.loc(first))
        stores = {}
        for st in ast.walk(m.node):
            if isinstance(st, ast.Assign) and unparse(st.targets[0]) in ("self._search_range_in_hz", "self._find_peaks_kwargs"):
                stores.setdefault(unparse(st.targets[0]), []).append(unparse(st.value))
        ok_r = stores.get("self._search_range_in_hz") == ["tuple(search_range_in_hz)"]
        fk = stores.get("self._find_peaks_kwargs", [])
        ok_k = fk in (["{} if find_peaks_kwargs is None else dict(find_peaks_kwargs)"], ["{}", "dict(find_peaks_kwargs)"])
        if ok_r and ok_k:
            ck.ok("C08.R3", fq, "stored range/kwargs = the arguments")
        else:
            ck.violation("C08.R3", fq, "stored range", f"stored values are {stores}; expected the arguments themselves", loc=m.loc())
        rd = reaching(m)
        for p in ("search_range_in_hz", "find_peaks_kwargs"):
            uses = [x for x in own_nodes(m.node) if isinstance(x, ast.Name) and x.id == p and isinstance(x.ctx, ast.Load)]
            if any(not rd.only_param(p, u) for u in uses):
                ck.violation("C08.R3", fq, f"{p} rebound", f"`{p}` is rebound before use", loc=m.loc())
    # mean-curve peaks use the stored range
    spec = {
        "HvsrTraditional": "HvsrCurve._find_peak_bounded(self.frequency, self.mean_curve(distribution), search_range_in_hz=self._search_range_in_hz, find_peaks_kwargs=self._find_peaks_kwargs)",
        "HvsrAzimuthal": "HvsrCurve._find_peak_bounded(self.frequency, self.mean_curve(distribution), search_range_in_hz=self._search_range_in_hz, find_peaks_kwargs=self._find_peaks_kwargs)",
        "HvsrDiffuseField": "HvsrCurve._find_peak_bounded(self.frequency, self.mean_curve(), search_range_in_hz=search_range_in_hz, find_peaks_kwargs=find_peaks_kwargs)",
    }
    for cname, src in spec.items():
        cls = prog.cls(cname)
        m = cls.methods["mean_curve_peak"]
        c = calls_in(m.node, "_find_peak_bounded")
        good = False
        detail = ""
        if len(c) == 1:
            b = bind_call(c[0], prog.cls("HvsrCurve").methods["_find_peak_bounded"].params)
            wantc = ast.parse(src, mode="eval").body
            wb = bind_call(wantc, prog.cls("HvsrCurve").methods["_find_peak_bounded"].params)
            amp = b.get("amplitude")
            amp_src = unparse(amp)
            if isinstance(amp, ast.Name):
                d = [s for s in m.node.body if isinstance(s, ast.Assign) and unparse(s.targets[0]) == amp.id]
                amp_src = unparse(d[0].value) if d else amp_src
            got = {k: unparse(v) for k, v in b.items()}
            got["amplitude"] = amp_src.replace("distribution=distribution", "distribution")
            want = {k: unparse(v) for k, v in wb.items()}
            good = got == want
            detail = f"{got}"
            tgt = parent_of(c[0])
            pair = unparse(tgt.targets[0]) if isinstance(tgt, ast.Assign) else None
            rets = [r for r in S.returns_of(m)]
            good = good and pair in ("(f_peak, a_peak)", "f_peak, a_peak") and rets and unparse(rets[-1].value) == "(f_peak, a_peak)"
        if good:
            ck.ok("C08.R3", m.qualname, norm_key(c[0], 110))
        else:
            ck.violation("C08.R3", m.qualname, "mean-curve peak search",
                         f"the peak of the mean curve is not searched as `{src}` ({detail})", loc=m.loc())
        raises = [st for st in m.node.body if isinstance(st, ast.If) and any(isinstance(b, ast.Raise) for b in st.body) and "f_peak is None" in unparse(st.test)]
        if not raises:
            ck.violation("C08.R3", m.qualname, "absent mean-curve peak", "an absent mean-curve peak is not refused", loc=m.loc())
    az = prog.cls("HvsrAzimuthal")
    for pname in ("_search_range_in_hz", "_find_peaks_kwargs"):
        m = az.methods.get(pname)
        rets = S.returns_of(m) if m else []
        if m and m.kind == "property" and len(rets) == 1 and unparse(rets[0].value) == f"self.hvsrs[0].{pname}":
            ck.ok("C08.R3", m.qualname, norm_key(rets[0]), detail="the range in force is the members' range")
        else:
            ck.violation("C08.R3", f"hvsr_azimuthal.HvsrAzimuthal.{pname}", "range in force",
                         f"the azimuthal object's `{pname}` is not the value its members use (self.hvsrs[0].{pname})", loc=m.loc() if m else "")


def _r4(ck: Checker, prog: Program):
    m = prog.cls("HvsrAzimuthal").methods["update_peaks_bounded"]
    loops = [st for st in m.node.body if isinstance(st, ast.For)]
    good = False
    if len(loops) == 1 and unparse(loops[0].iter) == "self.hvsrs" and not any(isinstance(x, (ast.Break, ast.Continue, ast.If)) for x in ast.walk(loops[0])):
        c = calls_in(loops[0], "update_peaks_bounded")
        if len(c) == 1 and unparse(c[0].func.value) == unparse(loops[0].target):
            b = bind_call(c[0], m.params, skip_first=True)
            rd = reaching(m)
            good = all(isinstance(b.get(p), ast.Name) and b[p].id == p and rd.only_param(p, c[0]) for p in ("search_range_in_hz", "find_peaks_kwargs"))
    if good:
        ck.ok("C08.R4", m.qualname, "every member updated with (search_range_in_hz, find_peaks_kwargs)")
    else:
        ck.violation("C08.R4", m.qualname, "fan-out", "not every member is updated with the caller's range and find_peaks arguments", loc=m.loc())
    # constructors evaluate peaks once
    for cname in ("HvsrCurve", "HvsrTraditional", "HvsrAzimuthal"):
        init = prog.cls(cname).methods["__init__"]
        last = init.node.body[-1]
        if isinstance(last, ast.Expr) and isinstance(last.value, ast.Call) and call_name(last.value) == "update_peaks_bounded" and not last.value.args and not last.value.keywords:
            ck.ok("C08.R4", init.qualname, "constructor evaluates the peaks over the full range", nontrivial=False)
        else:
            ck.violation("C08.R4", init.qualname, "initial peak evaluation", "the constructor does not finish by evaluating the peaks", loc=init.loc())
