"""C08 - reported peaks are the highest local maximum inside the search range."""
from __future__ import annotations

import ast
from typing import Dict, List

import sympy as sp

from ..astutil import call_name, calls_in, own_nodes, unparse, kwarg, bind_call
from ..cfg import cfg_of, events_per_iteration
from ..dataflow import reaching
from ..expr import Translator, equal, forward_substitute
from ..model import AnalysisError, Program, norm_key, parent_of
from ..report import Checker
from .common import pkg_call_hook
from . import statscommon as S

EXPLANATION = (
    "Formula, CFG and def-use rules over HvsrCurve's peak finders and the update_peaks_bounded / mean_curve_peak "
    "methods of the four result classes. Decided: (R1) the search range is converted with `is None` tests to "
    "index bounds 0 / len(frequency) / argmin|f - limit| (+ 1 for the upper bound: the half-open slice keeps the nearest sample), frequency and amplitude are sliced with the same "
    "bounds, candidates come from find_peaks on the amplitude, the reported pair indexes both arrays with the "
    "same candidate chosen by argmax of the candidate amplitudes, and (None, None) is returned exactly when there "
    "are no candidates; (R2) after the cache test the per-window loop covers all rows without break/continue and "
    "every path through its body assigns peak frequency, peak amplitude and both masks exactly once (NaN/False "
    "when absent, the found pair/True otherwise); (R3) no stale range: the cache test compares both arguments "
    "with the stored ones, the non-returning path stores exactly the arguments, the peak search uses them, and "
    "mean_curve_peak of the traditional and azimuthal classes passes the stored range/kwargs (the azimuthal "
    "object reads them from its members); (R4) HvsrAzimuthal.update_peaks_bounded forwards both arguments to "
    "every member. Not decided: what find_peaks returns on plateaus and ties (assumption 2); nearest-grid-point "
    "rounding of the range ends.")

RULES = {
    "C08.R1": "range -> index bounds by `is None`/argmin (upper bound argmin + 1); same slice for both arrays; argmax candidate indexes both arrays; None iff no candidates",
    "C08.R2": "every window re-evaluated: each loop iteration assigns peak frequency, amplitude and both masks exactly once",
    "C08.R3": "cache test compares both arguments; stored range == arguments; mean-curve peak uses the stored range",
    "C08.R4": "azimuthal fan-out forwards both arguments to every member",
}


def run(ck: Checker, prog: Program, tier: str):
    ck.guard(_r1, ck, prog)
    ck.guard(_r2, ck, prog)
    ck.guard(_r3, ck, prog)
    ck.guard(_r4, ck, prog)
    ck.guard(_members_private, ck, prog)
    from . import c06
    with ck.borrow(c06, "C08.R3+"):
        ck.guard(c06._r6_outer, ck, prog, prog.func(c06.INNER), prog.func(c06.OUTER))
    # "that window does not enter the resonance statistics": an absent peak is NaN and the estimators give NaN entries no
    # weight (estimator rules of C05)
    # an object read from file reports the peak of the range stored with it (reader rule of C12)
    from . import c12
    with ck.borrow(c12, "C08.R3+"):
        ck.guard(c12._r5, ck, prog.func(c12.R))
    from . import c20
    with ck.borrow(c20, "C08.R2+"):
        ck.guard(c20._read_only, ck, prog)          # drawing a result leaves its peak masks as they were (absent peaks stay absent)
    with ck.borrow(c12, "C08.R3+"):
        ck.guard(c12._meta_private, ck, prog)       # the search range stored with the object is the object's own record
    from . import c05
    with ck.borrow(c05, "C08.R2+"):
        ck.guard(S.check_mask_lockstep, ck, prog, "C05.R4")     # an absent peak invalidates the window's peak entry and nothing else
        ck.guard(S.check_estimators, ck, prog, "C05.R3")
    from .common import check_identity_comparisons as _cic
    ck.guard(_cic, ck, prog, "C08.R1", "C08")


def _ex(prog, f, cls, src, self_name="self"):
    T = Translator(call_hook=pkg_call_hook(prog, f.module, cls, self_name=self_name))
    return T.tr(ast.parse(src, mode="eval").body)


def _norecv(hook):
    """Static helpers are called as HvsrCurve.<name>(...): drop the class receiver from the canonical call."""
    HC = sp.Symbol("HvsrCurve", real=True)

    def h(call, T):
        r = hook(call, T)
        if r is not None and r.args and r.args[0] == HC:
            return r.func(*r.args[1:])
        return r
    return h


def _table(prog, f, cls, self_name="self"):
    from ..pathtable import PathTable
    return PathTable(prog, f.module, call_hook=_norecv(pkg_call_hook(prog, f.module, cls, self_name=self_name)), unroll=True, scope=f).leaves(f.node.body)


def _case(l, rel):
    """True / False / None: does the path assume `rel`?"""
    from ..pathtable import literals, same_rel, negate
    ls = literals(l)
    if any(same_rel(x, rel) for x in ls):
        return True
    if any(same_rel(x, negate(rel)) for x in ls):
        return False
    return None


def _under(l, v):
    """A boolean value evaluated under the path's assumptions."""
    if v in (sp.true, sp.false):
        return v
    if isinstance(v, sp.logic.boolalg.Boolean):
        c = _case(l, v)
        if c is True:
            return sp.true
        if c is False:
            return sp.false
    if isinstance(v, sp.Piecewise):
        # a conditional value (`x if found else nan`): the piece whose condition the path assumes
        for val, cond in v.args:
            if cond in (sp.true, True):
                return val
            c = _case(l, cond)
            if c is True:
                return val
            if c is None:
                return v
    return v


def _r1(ck: Checker, prog: Program):
    cls = prog.cls("HvsrCurve")
    R = lambda n: sp.Symbol(n, real=True)   # noqa: E731
    gi, sl, NONE = sp.Function("getitem"), sp.Function("slice"), sp.Symbol("None")
    FRQ, AMP, SR, KW = R("frequency"), R("amplitude"), R("search_range_in_hz"), R("find_peaks_kwargs")
    # ---- the bounded search, by value over the four worlds (lower limit None / given) x (upper limit None / given): what reaches the
    #      unbounded search is frequency[lo:hi] and amplitude[lo:hi] with one pair of bounds - whatever helper computes them, under
    #      whatever name, returning a pair or a slice object
    from ..pathtable import PathTable, outcomes, same_rel, negate, specialise, tidy_items
    f = cls.methods["_find_peak_bounded"]
    if f.params[:4] != ["frequency", "amplitude", "search_range_in_hz", "find_peaks_kwargs"]:
        raise AnalysisError(f"{f.qualname}: parameters are {f.params}")
    fnm = lambda x: getattr(getattr(x, "func", None), "__name__", "")     # noqa: E731

    def hook_b(call, T):
        if call_name(call) == "_find_peak_unbounded":
            g = cls.methods["_find_peak_unbounded"]
            b = bind_call(call, g.params)
            return sp.Function("_find_peak_unbounded")(*[T.tr(b[p_]) if p_ in b else sp.Function("default")(sp.Symbol(p_)) for p_ in g.params])
        return None
    leaves = PathTable(prog, f.module, call_hook=hook_b, unroll=True, scope=f, inline_depth=3).leaves(f.node.body)
    lims = [gi(SR, sp.Integer(0)), gi(SR, sp.Integer(1))]
    dflt = [sp.Integer(0), sp.Function("len")(FRQ)]
    alt_dflt = [[sp.Integer(0), NONE], [sp.Function("len")(FRQ), R("frequency.size"), gi(R("frequency.shape"), sp.Integer(0)), NONE]]
    GIVEN = [sp.Symbol("'<lower limit>'", real=True), sp.Symbol("'<upper limit>'", real=True)]
    problems = {0: [], 1: [], 2: []}
    for lo_none in (True, False):
        for hi_none in (True, False):
            world = {lims[0]: NONE if lo_none else GIVEN[0], lims[1]: NONE if hi_none else GIVEN[1]}
            rows = [r for r in outcomes(leaves, world) if r["exit"] == "return"]
            if not rows:
                raise AnalysisError(f"{f.qualname}: no returning path for limits {world}")
            vals = {tidy_items(specialise(r["value"], world)) for r in rows}
            if len(vals) != 1:
                problems[2].append(f"what is searched depends on more than the requested range and the grid (decisions {[str(c_)[:60] for r in rows for c_ in r['conds']][:2]})")
                continue
            v = next(iter(vals))
            calls = {a_ for a_ in sp.preorder_traversal(v) if fnm(a_) == "_find_peak_unbounded"}
            if len(calls) != 1:
                problems[2].append(f"{len(calls)} unbounded searches")
                continue
            c = next(iter(calls))
            if v not in (c, sp.Tuple(gi(c, sp.Integer(0)), gi(c, sp.Integer(1)))):
                problems[2].append(f"returns {str(v)[:120]}")
            cuts = []
            for arg, base in ((c.args[0], FRQ), (c.args[1], AMP)):
                if fnm(arg) == "getitem" and arg.args[0] == base and fnm(arg.args[1]) == "slice" and (len(arg.args[1].args) == 2 or arg.args[1].args[2] == NONE):
                    cuts.append(tuple(arg.args[1].args[:2]))
                else:
                    problems[2].append(f"the search receives {str(arg)[:100]} for {base}")
            if len(cuts) != 2:
                continue
            if cuts[0] != cuts[1]:
                problems[2].append(f"frequency is cut by {cuts[0]} and amplitude by {cuts[1]}")
                continue
            if len(c.args) < 3 or c.args[2] != KW:
                problems[2].append(f"the find_peaks arguments handed on are {c.args[2] if len(c.args) > 2 else None}")
            for k, none in ((0, lo_none), (1, hi_none)):
                got = cuts[0][k]
                if none:
                    if got not in alt_dflt[k]:
                        problems[k].append(f"None -> {got}")
                else:
                    # the index range [lo, hi) is half-open: the sample nearest to the upper limit may lie inside the range and is
                    # then the right-hand neighbour of the last interior candidate, so the upper bound is one past it
                    nearest = sp.Function("argmin")(sp.Abs(FRQ - GIVEN[k]))
                    if not equal(got, nearest + k):
                        problems[k].append(f"given limit -> {got}")
    for k, name in ((0, "lower"), (1, "upper")):
        if not problems[k]:
            ck.ok("C08.R1", f.qualname, f"{name} index bound: None -> {dflt[k]}; else argmin|frequency - limit|" + (" + 1 (half-open range keeps the nearest sample)" if k else ""))
        else:
            ck.violation("C08.R1", f.qualname, f"{name} index bound",
                         f"index bound for the {name} limit: {'; '.join(sorted(set(problems[k]))[:3])}; expected `{dflt[k]}` only when the limit is None and "
                         f"argmin|frequency - limit|{' + 1' if k else ''} otherwise (a limit of 0 is a limit"
                         + ("; the slice [lo:hi] is half-open, so stopping at the nearest sample drops it: a range reaching to or beyond the end of the grid "
                            "loses the last sample and the local maximum next to it" if k else "") + ")", loc=f.loc())
    if not problems[2]:
        ck.ok("C08.R1", f.qualname, "searches frequency[lo:hi], amplitude[lo:hi] with the bounds of the requested range and returns that pair")
    else:
        ck.violation("C08.R1", f.qualname, "bounded search",
                     f"frequency and amplitude are not cut with the same index bounds of the requested range and searched together ({'; '.join(sorted(set(problems[2]))[:3])})",
                     loc=f.loc())
    # ---- unbounded: a table over (find_peaks arguments None / given) x (candidates found / none)
    f = cls.methods["_find_peak_unbounded"]
    if f.params[:3] != ["frequency", "amplitude", "find_peaks_kwargs"]:
        raise AnalysisError(f"{f.qualname}: parameters are {f.params}")
    base_hook = _norecv(pkg_call_hook(prog, f.module, cls, self_name="HvsrCurve"))

    def fp_hook(call, T):
        if isinstance(call.func, ast.Name) and call.func.id == "find_peaks":
            star = [k.value for k in call.keywords if k.arg is None]
            named = sorted(k.arg for k in call.keywords if k.arg)
            return sp.Function("find_peaks")(*[T.tr(a_) for a_ in call.args], *[sp.Function("kwsplat")(T.tr(v_)) for v_ in star], *[sp.Function("kw_" + n_)(sp.Symbol("<value>")) for n_ in named])
        return base_hook(call, T)
    leaves = PathTable(prog, f.module, call_hook=fp_hook, unroll=True, scope=f).leaves(f.node.body)
    GKW = sp.Symbol("'<find_peaks arguments>'", real=True)
    bad = []
    ok_none = ok_pair = fp_ok = True
    n_rows = 0
    for kw_none in (True, False):
        world = {KW: NONE if kw_none else GKW}
        Cs = sp.Function("find_peaks")(AMP, sp.Function("kwsplat")(GKW)) if not kw_none else sp.Function("find_peaks")(AMP)
        C = gi(Cs, sp.Integer(0))
        sub = sp.Function("argmax")(gi(AMP, C))
        want_pair = sp.Tuple(gi(FRQ, gi(C, sub)), gi(AMP, gi(C, sub)))
        LEN, SIZE = sp.Function("len")(C), sp.Function("attr_size")(C)
        truth = sp.Function("truth")
        empty_forms = [(sp.Eq(X, 0, evaluate=False), True) for X in (LEN, SIZE)] + [(sp.Gt(X, 0, evaluate=False), False) for X in (LEN, SIZE)] + \
            [(sp.Ge(X, 1, evaluate=False), False) for X in (LEN, SIZE)] + [(sp.Eq(truth(X), sp.true, evaluate=False), False) for X in (LEN, SIZE)]
        rows = [r for r in outcomes(leaves, world) if r["exit"] == "return"]
        if not rows:
            raise AnalysisError(f"{f.qualname}: no returning path")
        rows = [dict(r, value=_drop_empty_splat(r["value"]), conds=[_drop_empty_splat(c) for c in r["conds"]]) for r in rows]
        # an entry of the candidate index array is an integer, never None: `c[k] is None` cannot hold (a helper that reports
        # "no candidate" as None and a caller that tests for it)
        def _elt_is_none(c):
            if isinstance(c, (sp.Eq, sp.Ne)):
                for a_, b_ in ((c.lhs, c.rhs), (c.rhs, c.lhs)):
                    if b_ == NONE and getattr(getattr(a_, "func", None), "__name__", "") == "getitem" and a_.args[0] == C:
                        return isinstance(c, sp.Eq)
            return None
        kept = []
        for r in rows:
            verdicts = [_elt_is_none(c) for c in r["conds"]]
            if any(v is True for v in verdicts):
                continue
            kept.append(dict(r, conds=[c for c, v in zip(r["conds"], verdicts) if v is None]))
        rows = kept
        calls = {a_ for r in rows for x in [r["value"]] + r["conds"] for a_ in sp.preorder_traversal(sp.sympify(x)) if getattr(getattr(a_, "func", None), "__name__", "") == "find_peaks"}
        if calls != {Cs}:
            fp_ok = False
        for r in rows:
            n_rows += 1
            empty = None
            for rel, means_empty in empty_forms:
                for x in r["conds"]:
                    if same_rel(x, rel):
                        empty = means_empty
                    elif same_rel(x, negate(rel)):
                        empty = not means_empty
            v = r["value"]
            if empty is None:
                bad.append(f"returns {v} without testing whether there are candidates")
                ok_none = False
            elif empty:
                if v != sp.Tuple(NONE, NONE):
                    bad.append(f"no candidates -> {v}")
                    ok_none = False
            else:
                if not (isinstance(v, sp.Tuple) and len(v) == 2 and all(equal(x, y) for x, y in zip(v, want_pair))):
                    bad.append(f"candidates -> {v}")
                    ok_pair = False
    if fp_ok:
        ck.ok("C08.R1", f.qualname, "candidates = find_peaks(amplitude, **find_peaks_kwargs)", detail="an absent argument dict means no arguments")
    else:
        ck.violation("C08.R1", f.qualname, "find_peaks call", "candidates are not find_peaks(amplitude, **find_peaks_kwargs)", loc=f.loc())
    if ok_none:
        ck.ok("C08.R1", f.qualname, "(None, None) exactly when find_peaks yields no candidates", detail="absent iff no candidates")
    else:
        ck.violation("C08.R1", f.qualname, "no-candidate case", f"(None, None) is not returned exactly when find_peaks yields no candidates ({'; '.join(sorted(set(bad))[:3])})", loc=f.loc())
    if ok_pair:
        ck.ok("C08.R1", f.qualname, "(frequency[i*], amplitude[i*]) with i* = candidates[argmax(amplitude[candidates])]")
    else:
        ck.violation("C08.R1", f.qualname, "reported pair",
                     f"the reported pair is not frequency and amplitude at the same candidate index chosen by argmax of the candidate amplitudes ({'; '.join(sorted(set(bad))[:3])})",
                     loc=f.loc())


def _drop_empty_splat(e):
    """find_peaks(x, **{}) is find_peaks(x)."""
    from ..pathtable import rewrite
    fnm = lambda x: getattr(getattr(x, "func", None), "__name__", "")   # noqa: E731
    return rewrite(e, lambda x: fnm(x) == "find_peaks" and any(fnm(a_) == "kwsplat" and a_.args[0] == sp.Function("dict")() for a_ in x.args),
                   lambda x: x.func(*[a_ for a_ in x.args if not (fnm(a_) == "kwsplat" and a_.args[0] == sp.Function("dict")())]))


def _distinct_arrays(ck: Checker, prog: Program):
    """The per-window arrays of a result (two accept masks, peak frequencies, peak amplitudes) are four different arrays: a write
    to one of them (e.g. "accept every window when no curve has a peak") must not show through another (effect engine: the
    constructor's allocation sites)."""
    from .common import engine
    cls = prog.cls("HvsrTraditional")
    init = cls.find_method("__init__")
    if init is None:
        raise AnalysisError("HvsrTraditional.__init__ not found")
    s = engine(prog).summary(init)
    names = ("valid_window_boolean_mask", "valid_peak_boolean_mask", "_main_peak_frq", "_main_peak_amp")
    got = {}
    for nm in names:
        hv = s.heap.get((("P", 0, ()), nm))
        if hv is None:
            raise AnalysisError(f"{init.qualname}: `self.{nm}` is not stored by the constructor")
        got[nm] = set(hv[0].origins)
    bad = [(a, b) for i, a in enumerate(names) for b in names[i + 1:] if got[a] & got[b]]
    if not bad:
        ck.ok("C08.R2", init.qualname, "accept masks and peak vectors are four separate arrays", detail=", ".join(f"{k}: {len(v)} site(s)" for k, v in got.items()))
    for a, b in bad:
        ck.violation("C08.R2", init.qualname, f"self.{a} / self.{b}", f"`self.{a}` and `self.{b}` are one and the same array: updating one of them (window accepted although "
                     f"it has no peak; peak recorded) silently changes the other", loc=init.loc())


def _r2(ck: Checker, prog: Program):
    from ..pathtable import PathTable
    ck.guard(_distinct_arrays, ck, prog)
    tcls = prog.cls("HvsrTraditional")
    m = tcls.methods["update_peaks_bounded"]
    fq = m.qualname
    cfg = cfg_of(m)
    peak_targets = ("_main_peak_frq", "_main_peak_amp", "valid_window_boolean_mask", "valid_peak_boolean_mask")

    def writes_peaks(st):
        return any(isinstance(x, ast.Subscript) and isinstance(x.ctx, ast.Store) and isinstance(x.value, ast.Attribute) and x.value.attr in peak_targets for x in ast.walk(st))
    loops = [st for st in m.node.body if isinstance(st, ast.For) and writes_peaks(st)]
    if len(loops) == 0:
        _per_window_arrays(ck, prog, m)
        _r2_tail(ck, prog)
        return
    if len(loops) != 1:
        raise AnalysisError(f"{fq}: expected one per-window loop that records the peaks (found {len(loops)})")
    lp = loops[0]
    from ..resolve import Resolver, canon
    RR = Resolver(prog, m, inline=False)
    it_ok = isinstance(lp.target, ast.Tuple) and len(lp.target.elts) == 2 and canon(RR.value(lp.iter, lp)) == canon(RR.expect("enumerate(self.amplitude)"))
    if not it_ok or any(isinstance(x, (ast.Break,)) for x in ast.walk(lp)):
        ck.violation("C08.R2", fq, norm_key(lp), "the loop does not visit every row of self.amplitude (or may stop early)", loc=m.loc(lp))
        return
    ck.ok("C08.R2", fq, norm_key(lp), nontrivial=False)
    idx, row = unparse(lp.target.elts[0]), unparse(lp.target.elts[1])
    targets = ["_main_peak_frq", "_main_peak_amp", "valid_window_boolean_mask", "valid_peak_boolean_mask"]
    # values per outcome (decision table of the loop body)
    R = lambda n: sp.Symbol(n, real=True)   # noqa: E731
    gi, NONE = sp.Function("getitem"), sp.Symbol("None")
    IDX, ROW = sp.Symbol("<window index>", integer=True), R("<window row>")
    hook = _norecv(pkg_call_hook(prog, m.module, prog.cls("HvsrCurve"), self_name="HvsrCurve"))
    leaves = PathTable(prog, m.module, call_hook=hook, env={idx: IDX, row: ROW}, unroll=True).leaves(lp.body)
    # definite assignment: every complete pass writes each of the four per-window entries exactly once, at this window's index
    from ..pathtable import store_site
    counts = set()
    for l in leaves:
        if l.exit == "raise":
            continue
        if l.exit not in ("fall", "continue"):
            counts.add(("leaves the loop", l.exit))
            continue
        n_ = {t: 0 for t in targets}
        for e in l.events:
            if e[0] == "store":
                site = store_site(l, e)
                if site is not None and str(site[0]).startswith("self.") and str(site[0])[5:] in targets and site[1] == IDX:
                    n_[str(site[0])[5:]] += 1
        counts.add(tuple(n_[t] for t in targets))
    if counts == {(1, 1, 1, 1)}:
        ck.ok("C08.R2", fq, "each iteration assigns frequency, amplitude and both masks exactly once", detail=f"{len(leaves)} paths through the loop body")
    else:
        bad = sorted(map(str, counts - {(1, 1, 1, 1)}))
        ck.violation("C08.R2", fq, "definite assignment per window",
                     f"an iteration can end having written {bad[0] if bad else counts} (times, in the order {targets}) for window `{idx}`: "
                     f"a peak or mask entry keeps a stale value after the range changes", loc=m.loc(lp))
    call = None
    for l in leaves:
        for a in sp.preorder_traversal(sp.Tuple(*[e[2] for e in l.events if e[0] == "store"], *[c for c, _t in l.conds])):
            if getattr(a, "func", None) is not None and getattr(a.func, "__name__", "") == "_find_peak_bounded":
                call = a
    if call is None:
        if any(isinstance(c_, ast.Call) and call_name(c_) in ("_find_peak_unbounded", "find_peaks") for c_ in ast.walk(lp)):
            raise AnalysisError(f"{fq}: the per-window peak is searched without _find_peak_bounded (the bounded search is spelled out in place): not decided")
        ck.violation("C08.R2", fq, "per-window search", "no call of _find_peak_bounded decides the per-window peak", loc=m.loc(lp))
        return
    a = list(call.args)
    srs = (R("self._search_range_in_hz"), R("search_range_in_hz"))
    kws = (R("self._find_peaks_kwargs"), R("find_peaks_kwargs"))
    if len(a) == 4 and a[0] == R("self.frequency") and a[1] == ROW and a[2] in srs and a[3] in kws:
        ck.ok("C08.R2", fq, "per-window search over (self.frequency, this row) with the range in force", detail=str(call))
    else:
        ck.violation("C08.R2", fq, "per-window search", f"the per-window search is {call}: it does not examine (self.frequency, this row) over the range in force", loc=m.loc(lp))
    FP, AP = gi(call, sp.Integer(0)), gi(call, sp.Integer(1))
    absent = sp.Eq(FP, NONE, evaluate=False)
    problems = []
    seen = set()
    for l in leaves:
        c = _case(l, absent)
        if c is None:
            problems.append(f"a path ({l.cond()}) does not distinguish found from absent peaks")
            continue
        seen.add(c)
        vals = {}
        for e in l.events:
            if e[0] == "store" and store_site(l, e) is not None:
                base, ix = store_site(l, e)
                if ix == IDX and str(base).startswith("self."):
                    vals[str(base)[5:]] = _under(l, e[2])
        want = {"_main_peak_frq": sp.nan, "_main_peak_amp": sp.nan, "valid_window_boolean_mask": sp.false, "valid_peak_boolean_mask": sp.false} if c else \
            {"_main_peak_frq": FP, "_main_peak_amp": AP, "valid_window_boolean_mask": sp.true, "valid_peak_boolean_mask": sp.true}
        for k, w in want.items():
            g = vals.get(k)
            if g is None or not (g == w or (g is sp.nan and w is sp.nan)):
                problems.append(f"{'absent' if c else 'found'} peak: {k} <- {g} (expected {w})")
    if not problems and seen == {True, False}:
        ck.ok("C08.R2", fq, "absent -> NaN/False; found -> (f_peak, a_peak)/True")
    else:
        ck.violation("C08.R2", fq, "values per outcome", "absent peaks are not recorded as NaN with both masks False, or found peaks not as (f_peak, a_peak) with both masks True: "
                     + "; ".join(problems[:3]), loc=m.loc(lp))
    _r2_tail(ck, prog)


def _per_window_arrays(ck: Checker, prog: Program, m):
    """The same rule for a method that records the peaks with whole-array statements instead of a loop over the windows: every
    sequence that runs over the windows (a comprehension over self.amplitude, arrays made from it, zips of such) is followed
    element by element - its value for one generic window - and so are the stores `self.A[:] = seq`, `self.A[mask] = value` /
    `= [.. for .. if cond]` (cond must be the mask) and the final "accept all windows when no curve has a peak" step.  The four
    per-window entries of a generic window are then compared with the specification for a found / an absent peak."""
    from ..pathtable import same_rel, negate
    fq = m.qualname
    R = lambda n: sp.Symbol(n, real=True)   # noqa: E731
    gi, NONE = sp.Function("getitem"), sp.Symbol("None")
    ROW = R("<window row>")
    hook = _norecv(pkg_call_hook(prog, m.module, prog.cls("HvsrCurve"), self_name="HvsrCurve"))
    targets = ["_main_peak_frq", "_main_peak_amp", "valid_window_boolean_mask", "valid_peak_boolean_mask"]
    elem: Dict[str, sp.Expr] = {"self.amplitude": ROW}
    for t in targets:
        elem["self." + t] = sp.Symbol(f"<old {t}>")
    scalars: Dict[str, sp.Expr] = {}
    ALLFLAT = sp.Symbol("<no curve has a peak>")
    fnm = lambda x: getattr(getattr(x, "func", None), "__name__", "")      # noqa: E731

    class _NotAligned(Exception):
        pass

    def seq_names(e):
        return {unparse(n) for n in ast.walk(e) if isinstance(n, (ast.Name, ast.Attribute)) and unparse(n) in elem}

    def tr(e, extra=None):
        env = dict(scalars)
        env.update(elem)
        if extra:
            env.update(extra)
        T = Translator(env=env, call_hook=hook)
        return T.tr(e)

    def bind(target, value, out):
        if isinstance(target, ast.Name):
            out[target.id] = value
        elif isinstance(target, (ast.Tuple, ast.List)):
            for j, t_ in enumerate(target.elts):
                bind(t_, value[j] if isinstance(value, sp.Tuple) and j < len(value) else gi(value, sp.Integer(j)), out)
        else:
            raise _NotAligned()

    def element_of(e):
        """("elem", value per window) | ("filtered", value, condition) | ("scalar", value)"""
        if isinstance(e, ast.Call) and call_name(e) in ("array", "asarray", "list", "tuple") and len(e.args) == 1:
            return element_of(e.args[0])
        if isinstance(e, (ast.ListComp, ast.GeneratorExp)) and len(e.generators) == 1:
            g = e.generators[0]
            it = g.iter
            if isinstance(it, ast.Call) and call_name(it) == "zip":
                parts = [element_of(a) for a in it.args]
                if not all(p_[0] == "elem" for p_ in parts):
                    raise _NotAligned()
                val = sp.Tuple(*[p_[1] for p_ in parts])
            elif isinstance(it, ast.Call) and call_name(it) == "enumerate" and len(it.args) == 1:
                p_ = element_of(it.args[0])
                if p_[0] != "elem":
                    raise _NotAligned()
                val = sp.Tuple(sp.Symbol("<window index>", integer=True), p_[1])
            else:
                p_ = element_of(it)
                if p_[0] != "elem":
                    raise _NotAligned()
                val = p_[1]
            b = {}
            bind(g.target, val, b)
            v = tr(e.elt, b)
            if g.ifs:
                from ..expr import as_bool
                cond = sp.And(*[as_bool(tr(c, b)) for c in g.ifs]) if len(g.ifs) > 1 else as_bool(tr(g.ifs[0], b))
                return ("filtered", v, cond)
            return ("elem", v)
        if seq_names(e):
            return ("elem", tr(e))
        return ("scalar", tr(e))

    def mask_of(sl):
        from ..expr import as_bool
        k, v = element_of(sl)
        if k != "elem":
            raise _NotAligned()
        return as_bool(v)

    def pw(v, c, old):
        return sp.Piecewise((v, c), (old, True))
    try:
        for st in m.node.body:
            if isinstance(st, ast.Expr) or isinstance(st, (ast.Pass,)):
                continue
            if isinstance(st, ast.For):
                if any(isinstance(x, (ast.Assign, ast.AugAssign, ast.Return, ast.Break)) for x in ast.walk(st)):
                    raise AnalysisError(f"{fq}: a loop of the whole-array form assigns or leaves (`{norm_key(st, 60)}`)")
                continue                # logging only
            if isinstance(st, ast.If):
                # the cache test (returns / stores the remembered arguments) and the final all-flat rule
                stores = [x for x in ast.walk(st) if isinstance(x, ast.Assign) and any(isinstance(t, ast.Subscript) and unparse(t.value) in elem for t in x.targets)]
                if not stores:
                    continue            # examined by the update tables (C08.R3)
                if st.orelse or len(st.body) != 1 or len(stores) != 1:
                    raise AnalysisError(f"{fq}: conditional whole-array store `{norm_key(st, 60)}` not interpreted")
                tst = st.test
                # `not M.any()` / `not np.any(M)` / `(~M).all()` / `M.sum() == 0` over the found-mask
                cond = tr(tst)
                inner = None
                neg = False
                c0 = cond
                if isinstance(c0, sp.Not):
                    neg, c0 = True, c0.args[0]
                if isinstance(c0, sp.Eq) and c0.rhs == sp.true and fnm(c0.lhs) == "truth":
                    c0 = c0.lhs.args[0]
                if fnm(c0) in ("any", "attr_any", "all", "attr_all") or (fnm(c0) == "call" and False):
                    inner = (fnm(c0).replace("attr_", ""), c0.args[0] if c0.args else None)
                if inner is None and isinstance(tst, ast.UnaryOp) and isinstance(tst.op, ast.Not) and isinstance(tst.operand, ast.Call) \
                        and call_name(tst.operand) in ("any", "all"):
                    c_ = tst.operand
                    base = c_.func.value if isinstance(c_.func, ast.Attribute) and not c_.args else (c_.args[0] if c_.args else None)
                    if base is not None:
                        inner, neg = (call_name(c_), mask_of(base)), True
                elif inner is None and isinstance(tst, ast.Call) and call_name(tst) in ("any", "all"):
                    c_ = tst
                    base = c_.func.value if isinstance(c_.func, ast.Attribute) and not c_.args else (c_.args[0] if c_.args else None)
                    if base is not None:
                        inner, neg = (call_name(c_), mask_of(base)), False
                if inner is None or inner[1] is None:
                    raise AnalysisError(f"{fq}: the test `{unparse(tst)}` of a whole-array store is not a statement about all windows")
                kind, mexpr = inner
                scalars_before = ("any", True) if (kind == "any" and neg) else ("all", False) if (kind == "all" and not neg) else None
                if scalars_before is None:
                    raise AnalysisError(f"{fq}: the test `{unparse(tst)}` is not `no window ...` / `every window ...`")
                # not any(M): every window has not M;  all(M'): every window has M'
                every = sp.Not(mexpr) if kind == "any" else mexpr
                x = stores[0]
                t = x.targets[0]
                if unparse(t.slice) != ":" and not (isinstance(t.slice, ast.Slice) and t.slice.lower is None and t.slice.upper is None):
                    raise AnalysisError(f"{fq}: conditional store `{norm_key(x, 60)}` not interpreted")
                k, v = element_of(x.value)[:2]
                name = unparse(t.value)

                def which(c):
                    if isinstance(c, sp.Not):
                        return {"absent": "found", "found": "absent"}.get(which(c.args[0]))
                    if isinstance(c, sp.Eq) and c.rhs == sp.true and fnm(c.lhs) == "truth":
                        return which(c.lhs.args[0])
                    for a_ in sp.preorder_traversal(c):
                        if fnm(a_) == "_find_peak_bounded":
                            pk = gi(a_, sp.Integer(0))
                            if isinstance(c, (sp.Eq, sp.Ne)) and same_rel(c, sp.Eq(pk, NONE, evaluate=False)):
                                return "absent"
                            if isinstance(c, (sp.Eq, sp.Ne)) and same_rel(c, sp.Ne(pk, NONE, evaluate=False)):
                                return "found"
                    return None
                if which(every) != "absent":
                    raise AnalysisError(f"{fq}: the test `{unparse(tst)}` is not `no window has a peak`")
                elem[name] = sp.Piecewise((v, ALLFLAT), (elem[name], True))
                continue
            if isinstance(st, ast.Assign) and len(st.targets) == 1:
                t = st.targets[0]
                if isinstance(t, ast.Name):
                    r = element_of(st.value)
                    if r[0] == "elem":
                        elem[t.id] = r[1]
                    elif r[0] == "scalar":
                        scalars[t.id] = r[1]
                    else:
                        raise AnalysisError(f"{fq}: a filtered sequence is bound to `{t.id}`")
                    continue
                if isinstance(t, ast.Attribute) or (isinstance(t, ast.Subscript) and unparse(t.value) not in elem):
                    continue            # remembered arguments / metadata: examined by the update tables
                if isinstance(t, ast.Subscript) and unparse(t.value) in elem:
                    name = unparse(t.value)
                    full = isinstance(t.slice, ast.Slice) and t.slice.lower is None and t.slice.upper is None and t.slice.step is None
                    r = element_of(st.value)
                    if full:
                        if r[0] == "filtered":
                            raise AnalysisError(f"{fq}: a filtered sequence is stored over all windows")
                        elem[name] = r[1]
                    else:
                        mexpr = mask_of(t.slice)
                        if r[0] == "scalar":
                            elem[name] = pw(r[1], mexpr, elem[name])
                        elif r[0] == "filtered":
                            if not (same_rel(r[2], mexpr) or r[2] == mexpr):
                                raise AnalysisError(f"{fq}: `{norm_key(st, 70)}`: the values are selected by `{r[2]}` but stored where `{mexpr}` holds")
                            elem[name] = pw(r[1], mexpr, elem[name])
                        else:
                            raise AnalysisError(f"{fq}: `{norm_key(st, 70)}`: a value per window is stored into a selection of windows")
                    continue
            raise AnalysisError(f"{fq}: statement `{norm_key(st, 70)}` of the whole-array form is not interpreted")
    except _NotAligned:
        raise AnalysisError(f"{fq}: a sequence of the whole-array form does not run over the windows")
    # ---- the search
    call = None
    for v in elem.values():
        for a in sp.preorder_traversal(v):
            if fnm(a) == "_find_peak_bounded":
                call = a
    if call is None:
        ck.violation("C08.R2", fq, "per-window search", "no call of _find_peak_bounded decides the per-window peak", loc=m.loc())
        return
    ck.ok("C08.R2", fq, "every row of self.amplitude is examined (whole-array form)", nontrivial=False)
    a = list(call.args)
    srs = (R("self._search_range_in_hz"), R("search_range_in_hz"))
    kws = (R("self._find_peaks_kwargs"), R("find_peaks_kwargs"))
    if len(a) == 4 and a[0] == R("self.frequency") and a[1] == ROW and a[2] in srs and a[3] in kws:
        ck.ok("C08.R2", fq, "per-window search over (self.frequency, this row) with the range in force", detail=str(call))
    else:
        ck.violation("C08.R2", fq, "per-window search", f"the per-window search is {call}: it does not examine (self.frequency, this row) over the range in force", loc=m.loc())
    FP, AP = gi(call, sp.Integer(0)), gi(call, sp.Integer(1))
    absent = sp.Eq(FP, NONE, evaluate=False)

    def under(v, found: bool, allflat: bool):
        def dec(c):
            if isinstance(c, (sp.Eq, sp.Ne)):
                if same_rel(c, absent):
                    return sp.false if found else sp.true
                if same_rel(c, negate(absent)):
                    return sp.true if found else sp.false
            if c == ALLFLAT:
                # "every window is without a peak": true exactly in the all-flat case (and then this window is without one, too)
                return sp.true if allflat else sp.false
            return None

        def dec_all(c):
            if isinstance(c, sp.Not):
                r = dec_all(c.args[0])
                return {"absent": "found", "found": "absent"}.get(r)
            if isinstance(c, (sp.Eq, sp.Ne)):
                if same_rel(c, absent):
                    return "absent"
                if same_rel(c, negate(absent)):
                    return "found"
            return None

        def go(x):
            x = sp.sympify(x)
            if isinstance(x, sp.Piecewise):
                for val, c in x.args:
                    cv = cond(c)
                    if cv is True:
                        return go(val)
                    if cv is None:
                        raise AnalysisError(f"{fq}: the condition `{c}` of a stored value is not about the presence of this window's peak")
                raise AnalysisError(f"{fq}: no branch of `{x}` applies")
            if isinstance(x, (sp.Eq, sp.Ne, sp.And, sp.Or, sp.Not)) or x == ALLFLAT or x in (sp.true, sp.false):
                cv = cond(x)
                if cv is None:
                    raise AnalysisError(f"{fq}: the stored truth value `{x}` is not about the presence of this window's peak")
                return sp.true if cv else sp.false
            return x

        def cond(c):
            if c in (sp.true, True):
                return True
            if c in (sp.false, False):
                return False
            if isinstance(c, sp.Not):
                r = cond(c.args[0])
                return None if r is None else not r
            if isinstance(c, sp.And):
                rs = [cond(y) for y in c.args]
                return False if any(r is False for r in rs) else None if any(r is None for r in rs) else True
            if isinstance(c, sp.Or):
                rs = [cond(y) for y in c.args]
                return True if any(r is True for r in rs) else None if any(r is None for r in rs) else False
            if isinstance(c, sp.Eq) and c.rhs == sp.true and fnm(c.lhs) == "truth":
                return cond(c.lhs.args[0])
            d = dec(c)
            return None if d is None else bool(d)
        return go(v)
    problems = []
    for found, allflat in ((True, False), (False, False), (False, True)):
        want = {"_main_peak_frq": FP if found else sp.nan, "_main_peak_amp": AP if found else sp.nan,
                "valid_window_boolean_mask": sp.true if (found or allflat) else sp.false, "valid_peak_boolean_mask": sp.true if found else sp.false}
        for k, w in want.items():
            g = under(elem["self." + k], found, allflat)
            if any(str(s_).startswith("<old") for s_ in getattr(g, "free_symbols", ())):
                problems.append(f"{'found' if found else 'absent'} peak: {k} keeps its previous value")
            elif not (g == w or (g is sp.nan and w is sp.nan)):
                problems.append(f"{'found' if found else 'absent'} peak{' (no curve has one)' if allflat else ''}: {k} <- {g} (expected {w})")
    if not problems:
        ck.ok("C08.R2", fq, "each window is assigned frequency, amplitude and both masks", detail="whole-array form, element by element")
        ck.ok("C08.R2", fq, "absent -> NaN/False; found -> (f_peak, a_peak)/True")
    else:
        ck.violation("C08.R2", fq, "values per outcome", "absent peaks are not recorded as NaN with both masks False, or found peaks not as (f_peak, a_peak) with both masks True: "
                     + "; ".join(problems[:3]), loc=m.loc())


def _r2_tail(ck: Checker, prog: Program):
    _update_tables(ck, prog)
    # the curve a cached peak describes cannot be changed from outside: constructors keep private copies
    from .common import engine, reachable_nonlocal
    eng = engine(prog)
    for q in ("hvsr_curve.HvsrCurve.__init__", "hvsr_traditional.HvsrTraditional.__init__"):
        init = prog.func(q)
        s = eng.summary(init)
        for fld in ("frequency", "amplitude"):
            ent = s.heap.get((("P", 0, ()), fld))
            if ent is None:
                raise AnalysisError(f"{q}: self.{fld} is not stored")
            shared = [org for _path, org in reachable_nonlocal(eng, s, ent[0]) if org[0] in ("P", "G")]
            if not shared:
                ck.ok("C08.R3", q, f"self.{fld} is a private copy of the argument")
            else:
                ck.violation("C08.R3", q, f"self.{fld} shares storage",
                             f"self.{fld} can share its buffer with the caller's array: the curve can change after its peak was cached "
                             f"(the reported peak would no longer be a maximum of the curve)", loc=init.loc())


def _members_private(ck: Checker, prog: Program):
    """An azimuthal result owns its per-azimuth members: peaks, range and masks of a member can only change through this object."""
    from .common import engine, reachable_nonlocal
    eng = engine(prog)
    init = prog.func("hvsr_azimuthal.HvsrAzimuthal.__init__")
    s = eng.summary(init)
    ent = s.heap.get((("P", 0, ()), "hvsrs"))
    if ent is None:
        raise AnalysisError(f"{init.qualname}: self.hvsrs is not stored")
    shared = sorted({str(org) for _path, org in reachable_nonlocal(eng, s, ent[0], exclude_fields={"meta"}) if org[0] in ("P", "G")})
    if not shared:
        ck.ok("C08.R3", init.qualname, "self.hvsrs holds private copies of the members")
    else:
        ck.violation("C08.R3", init.qualname, "members share state",
                     f"the members of the azimuthal object are (or share storage with) the caller's objects {shared}: a range update through another holder "
                     f"changes the peaks this object reports while its own range stays the same", loc=init.loc())


def _static_hook(prog, mod):
    """Calls of HvsrCurve's static peak helpers, whatever the receiver (self / cls / HvsrCurve): Function(name)(args in parameter order)."""
    hc = prog.cls("HvsrCurve")
    base = pkg_call_hook(prog, mod)

    def hook(call, T):
        if isinstance(call.func, ast.Attribute) and isinstance(call.func.value, ast.Name) and call.func.value.id in ("self", "cls", "HvsrCurve"):
            m = hc.find_method(call.func.attr)
            if m is not None and m.kind == "staticmethod":
                b = bind_call(call, m.params)
                d = m.defaults()
                return sp.Function(m.name)(*[T.tr(b[p]) if p in b else sp.Function("default")(T.tr(d[p])) if p in d else sp.Symbol("<missing>") for p in m.params])
        return base(call, T)
    return hook


def _update_tables(ck: Checker, prog: Program):
    """update_peaks_bounded of HvsrCurve / HvsrTraditional as decision tables: when the work is skipped, what is remembered,
    and (single curve) what is recorded as the peak."""
    from ..pathtable import PathTable, literals, same_rel, flatten_cases
    R = lambda n: sp.Symbol(n, real=True)   # noqa: E731
    gi, NONE = sp.Function("getitem"), sp.Symbol("None")
    SR, KW, SSR, SKW = R("search_range_in_hz"), R("find_peaks_kwargs"), R("self._search_range_in_hz"), R("self._find_peaks_kwargs")
    same = [sp.Eq(SR, SSR, evaluate=False), sp.Eq(KW, SKW, evaluate=False)]
    kw_none = sp.Eq(KW, NONE, evaluate=False)
    F = sp.Function
    for cname in ("HvsrCurve", "HvsrTraditional"):
        m = prog.cls(cname).methods["update_peaks_bounded"]
        fq = m.qualname
        leaves = PathTable(prog, m.module, call_hook=_static_hook(prog, m.module), unroll=True).leaves(m.node.body)
        state = ("self._search_range_in_hz", "self._find_peaks_kwargs")
        skipping, working = [], []
        for l in leaves:
            if l.exit == "raise":
                continue
            st = {e[1] for e in l.events if e[0] == "store"}
            (working if st & set(state) else skipping).append(l)
        if not working:
            raise AnalysisError(f"{fq}: no path stores the range")
        bad = []
        for l in skipping:
            lits = literals(l)
            miss = [w for w in same if not any(same_rel(x, w) for x in lits)]
            if miss or any(e[0] == "store" for e in l.events):
                bad.append((l, miss))
        if not bad:
            ck.ok("C08.R3", fq, "cache test", detail=f"the work is skipped only when both arguments equal the stored ones ({len(skipping)} skipping path(s))")
        else:
            l, miss = bad[0]
            ck.violation("C08.R3", fq, "cache test", f"the early return does not compare both the range and the find_peaks arguments with the stored values "
                         f"(a path skips the update under {l.cond() or 'no condition'}; not tested: {miss})", loc=m.loc())
        problems = []
        for l in working:
            last = {}
            for e in l.events:
                if e[0] == "store":
                    last[e[1]] = e[2]
            v = last.get(state[0])
            if v == SR:
                problems.append(f"{state[0]} <- the caller's own object (not a copy): a list edited afterwards changes the range this object believes it searched")
            elif v not in (F("tuple")(SR), sp.Tuple(gi(SR, sp.Integer(0)), gi(SR, sp.Integer(1)))):
                problems.append(f"{state[0]} <- {v}")
            v = last.get(state[1])
            if v is None:
                problems.append(f"{state[1]} is not stored")
                continue
            for lits, val in flatten_cases(literals(l), v):
                none = True if any(same_rel(x, kw_none) for x in lits) else False if any(same_rel(x, sp.Ne(KW, NONE, evaluate=False)) for x in lits) else None
                if none is None:
                    raise AnalysisError(f"{fq}: `{state[1]} <- {val}` is stored without deciding whether the argument is None")
                ok = val == F("dict")() if none else val in (F("dict")(KW), F("copy")(KW), F("deepcopy")(KW))
                if not ok:
                    problems.append(f"{state[1]} <- {val} when the argument is {'None' if none else 'given'}")
        # what the metadata (and hence a saved file) says about the search is the search that was made, held as a private copy
        mproblems = []
        for l in working:
            last = {}
            for e in l.events:
                if e[0] == "store":
                    last[e[1].replace('"', "'")] = e[2]
            v = last.get("self.meta['search_range_in_hz']")
            if v not in (SR, F("tuple")(SR), SSR, sp.Tuple(gi(SR, sp.Integer(0)), gi(SR, sp.Integer(1)))):
                mproblems.append(f"meta['search_range_in_hz'] <- {v}")
            v = last.get("self.meta['find_peaks_kwargs']")
            if v is None:
                mproblems.append("meta['find_peaks_kwargs'] is not recorded")
                continue
            for lits, val in flatten_cases(literals(l), v):
                none = True if any(same_rel(x, kw_none) for x in lits) else False if any(same_rel(x, sp.Ne(KW, NONE, evaluate=False)) for x in lits) else None
                if none is None:
                    if val == SKW:
                        continue
                    if val == KW:
                        mproblems.append("meta['find_peaks_kwargs'] <- the caller's own dict (not a copy): the record of the search can change after the search was made")
                        continue
                    raise AnalysisError(f"{fq}: meta['find_peaks_kwargs'] <- {val} is stored without deciding whether the argument is None")
                ok = val in (NONE, F("dict")()) if none else val in (F("dict")(KW), F("copy")(KW), F("deepcopy")(KW), F("dict")(SKW), F("copy")(SKW), F("deepcopy")(SKW))
                if not ok:
                    mproblems.append(f"meta['find_peaks_kwargs'] <- {val} when the argument is {'None' if none else 'given'}"
                                     + (" (the caller's own dict: it can change after the search was made)" if val == KW else ""))
        if not mproblems:
            ck.ok("C08.R3", fq, "metadata records the range and a private copy of the find_peaks arguments of the search made")
        else:
            ck.violation("C08.R3", fq, "metadata of the search", "; ".join(sorted(set(mproblems))[:3]), loc=m.loc())
        if not problems:
            ck.ok("C08.R3", fq, "stored range/kwargs = the arguments")
        else:
            ck.violation("C08.R3", fq, "stored range", f"stored values are not the arguments themselves: {'; '.join(sorted(set(problems))[:3])}", loc=m.loc())
        rd = reaching(m)
        for p in ("search_range_in_hz", "find_peaks_kwargs"):
            uses = [x for x in own_nodes(m.node) if isinstance(x, ast.Name) and x.id == p and isinstance(x.ctx, ast.Load)]
            if any(not rd.only_param(p, u) for u in uses):
                ck.violation("C08.R3", fq, f"{p} rebound", f"`{p}` is rebound before use", loc=m.loc())
        if cname != "HvsrCurve":
            continue
        # single curve: what is recorded as the peak
        problems, seen = [], set()
        for l in working:
            last = {}
            for e in l.events:
                if e[0] == "store":
                    last[e[1]] = e[2]
            pf, pa = last.get("self.peak_frequency"), last.get("self.peak_amplitude")
            if pf is None or pa is None:
                problems.append("a path that updates the range does not record a peak")
                continue
            calls = [a for a in sp.preorder_traversal(sp.Tuple(pf, pa, *literals(l))) if getattr(getattr(a, "func", None), "__name__", "") == "_find_peak_bounded"]
            if not calls:
                problems.append(f"the recorded peak ({pf}, {pa}) does not come from the bounded search")
                continue
            call = calls[0]
            if not (len(call.args) == 4 and call.args[0] == R("self.frequency") and call.args[1] == R("self.amplitude") and call.args[2] in (SR, SSR, F("tuple")(SR)) and call.args[3] in (KW, SKW)):
                problems.append(f"the search is {call}")
            absent = sp.Eq(gi(call, sp.Integer(0)), NONE, evaluate=False)
            for lits, val in flatten_cases(literals(l), sp.Tuple(pf, pa) if not (isinstance(pf, sp.Piecewise) or isinstance(pa, sp.Piecewise)) else pf):
                c = True if any(same_rel(x, absent) for x in lits) else False if any(same_rel(x, sp.Ne(absent.lhs, NONE, evaluate=False)) for x in lits) else None
                if c is None:
                    problems.append(f"a path ({l.cond()}) does not distinguish a found peak from an absent one")
                    continue
                seen.add(c)
                if isinstance(val, sp.Tuple):
                    want = (sp.nan, sp.nan) if c else (gi(call, sp.Integer(0)), gi(call, sp.Integer(1)))
                    if tuple(val) != want and not (c and all(x is sp.nan for x in val)):
                        problems.append(f"{'absent' if c else 'found'} peak recorded as {tuple(val)}")
                else:
                    raise AnalysisError(f"{fq}: recorded peak {val} not understood")
        if not problems and seen == {True, False}:
            ck.ok("C08.R2", fq, "peak_frequency, peak_amplitude = found pair or NaN")
        else:
            ck.violation("C08.R2", fq, "single-curve peak", "HvsrCurve does not store the found pair (NaN when absent): " + "; ".join(problems[:3]), loc=m.loc())


def _r3(ck: Checker, prog: Program):
    # mean-curve peaks use the stored range
    spec = {
        "HvsrTraditional": "HvsrCurve._find_peak_bounded(self.frequency, self.mean_curve(distribution), search_range_in_hz=self._search_range_in_hz, find_peaks_kwargs=self._find_peaks_kwargs)",
        "HvsrAzimuthal": "HvsrCurve._find_peak_bounded(self.frequency, self.mean_curve(distribution), search_range_in_hz=self._search_range_in_hz, find_peaks_kwargs=self._find_peaks_kwargs)",
        "HvsrDiffuseField": "HvsrCurve._find_peak_bounded(self.frequency, self.mean_curve(), search_range_in_hz=search_range_in_hz, find_peaks_kwargs=find_peaks_kwargs)",
    }
    from ..pathtable import PathTable, literals
    gi = sp.Function("getitem")
    for cname, src in spec.items():
        cls = prog.cls(cname)
        m = cls.methods["mean_curve_peak"]
        hook1 = pkg_call_hook(prog, m.module, cls)
        hook2 = _norecv(pkg_call_hook(prog, m.module, prog.cls("HvsrCurve"), self_name="HvsrCurve"))

        def hook(call, T, hook1=hook1, hook2=hook2):
            r = hook2(call, T)
            return r if r is not None else hook1(call, T)
        TW = Translator(call_hook=hook)
        TW.attr_of_bound = True
        want_call = TW.tr(ast.parse(src, mode="eval").body)
        leaves = PathTable(prog, m.module, call_hook=hook).leaves(m.node.body)
        rets = [l for l in leaves if l.exit == "return"]
        wants = [want_call, sp.Tuple(gi(want_call, sp.Integer(0)), gi(want_call, sp.Integer(1)))]
        good = bool(rets) and all(l.value in wants for l in rets)
        if good:
            ck.ok("C08.R3", m.qualname, f"returns the bounded peak of the mean curve over the range in force", detail=str(want_call)[:160])
        else:
            got = [str(l.value)[:200] for l in rets]
            ck.violation("C08.R3", m.qualname, "mean-curve peak search",
                         f"the peak of the mean curve is not searched as `{src}` (returns {got})", loc=m.loc())
        # by value: with an absent frequency (the finder reports (None, None)) every path refuses, with a pair found none does
        from ..pathtable import holds as _holds
        NONE_ = sp.Symbol("None")
        F0, A0 = gi(want_call, sp.Integer(0)), gi(want_call, sp.Integer(1))

        def verdicts(world):
            out = []
            for l in leaves:
                vs = []
                for x in literals(l):
                    y = x.xreplace(world) if hasattr(x, "xreplace") else x
                    vs.append(_holds(y, {}))
                if any(v is False for v in vs):
                    continue
                out.append((l.exit, all(v is True for v in vs)))
            return out
        absent_world = verdicts({F0: NONE_, A0: NONE_})
        found_world = verdicts({F0: sp.Function("given")(sp.Integer(0)), A0: sp.Function("given")(sp.Integer(1))})
        refused = bool(absent_world) and all(ex == "raise" for ex, _sure in absent_world) and any(ex == "return" for ex, _sure in found_world)
        if not refused:
            ck.violation("C08.R3", m.qualname, "absent mean-curve peak", "an absent mean-curve peak is not refused", loc=m.loc())
    az = prog.cls("HvsrAzimuthal")
    for pname in ("_search_range_in_hz", "_find_peaks_kwargs"):
        m = az.methods.get(pname)
        rets = S.returns_of(m) if m else []
        if m and m.kind == "property" and len(rets) == 1 and unparse(rets[0].value) == f"self.hvsrs[0].{pname}":
            ck.ok("C08.R3", m.qualname, norm_key(rets[0]), detail="the range in force is the members' range")
        else:
            ck.violation("C08.R3", f"hvsr_azimuthal.HvsrAzimuthal.{pname}", "range in force",
                         f"the azimuthal object's `{pname}` is not the value its members use (self.hvsrs[0].{pname})", loc=m.loc() if m else "")


def _r4(ck: Checker, prog: Program):
    m = prog.cls("HvsrAzimuthal").methods["update_peaks_bounded"]
    loops = [st for st in m.node.body if isinstance(st, ast.For)]
    good = False
    if len(loops) == 1 and unparse(loops[0].iter) == "self.hvsrs" and not any(isinstance(x, (ast.Break, ast.Continue, ast.If)) for x in ast.walk(loops[0])):
        c = calls_in(loops[0], "update_peaks_bounded")
        if len(c) == 1 and unparse(c[0].func.value) == unparse(loops[0].target):
            b = bind_call(c[0], m.params, skip_first=True)
            rd = reaching(m)
            good = all(isinstance(b.get(p), ast.Name) and b[p].id == p and rd.only_param(p, c[0]) for p in ("search_range_in_hz", "find_peaks_kwargs"))
    if good:
        ck.ok("C08.R4", m.qualname, "every member updated with (search_range_in_hz, find_peaks_kwargs)")
    else:
        ck.violation("C08.R4", m.qualname, "fan-out", "not every member is updated with the caller's range and find_peaks arguments", loc=m.loc())
    # constructors evaluate peaks once
    for cname in ("HvsrCurve", "HvsrTraditional", "HvsrAzimuthal"):
        init = prog.cls(cname).methods["__init__"]
        last = init.node.body[-1]
        full_range = False
        if isinstance(last, ast.Expr) and isinstance(last.value, ast.Call) and call_name(last.value) == "update_peaks_bounded":
            # with the defaults, implicit or spelled out
            upd = prog.cls(cname).find_method("update_peaks_bounded")
            dflt = upd.defaults() if upd is not None else {}
            try:
                given = bind_call(last.value, upd.params, skip_first=True) if upd is not None else None
            except Exception:
                given = None
            full_range = given is not None and all(p_ in dflt and ast.dump(v_) == ast.dump(dflt[p_]) for p_, v_ in given.items())
        if full_range:
            ck.ok("C08.R4", init.qualname, "constructor evaluates the peaks over the full range", nontrivial=False)
        else:
            ck.violation("C08.R4", init.qualname, "initial peak evaluation", "the constructor does not finish by evaluating the peaks", loc=init.loc())
