"""Structural model of the row-building processing bodies (shared by C01, C03, C17).

``extract_body(prog, qualname)`` locates, in one of the three functions that build one HVSR row per
record (traditional, single-azimuth, RotDpp), the group loop over ``dt_with_count``, the per-record
loop, the time-step filter, the counters and the gather.  ``symbolic_rows`` canonicalises the
straight-line per-record body into sympy terms: what is written to the horizontal and to the
vertical row, as nested applications of taper / rfft / Abs / combine / projection.
"""
from __future__ import annotations

import ast
from dataclasses import dataclass, field
from typing import Dict, List, Optional, Tuple

import sympy as sp

from ..astutil import call_name, calls_in, own_nodes, unparse, kwarg
from ..expr import Translator, forward_substitute
from ..model import AnalysisError, Func, Program, norm_key, parent_of

ROW_BODIES = ["processing.traditional_hvsr_processing", "processing.traditional_single_azimuth_hvsr_processing",
              "processing.traditional_rotdpp_hvsr_processing"]

NS, EW, VT = sp.symbols("NS EW VT", positive=True)
taper, rfft_, combine, smooth = sp.Function("taper"), sp.Function("rfft"), sp.Function("combine"), sp.Function("smooth")


@dataclass
class Body:
    func: Func
    group_loop: ast.For
    record_loop: ast.For
    org_idx: str
    record: str
    dt_var: str
    count_var: Optional[str]
    filter_if: Optional[ast.If]
    gather: List[ast.Assign] = field(default_factory=list)
    ctor: Optional[ast.Call] = None
    form: str = "A"                      # A: enumerate(records) + time-step filter; B: loop over the group's own index list
    k_var: Optional[str] = None          # form B: position of the record within its group (enumerate index)
    org_list: Optional[str] = None       # form B: name of the list of original indices of the group
    filter_key: Optional[ast.AST] = None  # the expression compared with the group's time step
    stmts: List[ast.stmt] = field(default_factory=list)   # statements executed for a processed record
    bind_stmt: Optional[ast.stmt] = None  # form B: `record = records[org_idx]`


def _dt_compare(test: ast.AST, dt_var: str):
    """(op, other side) of a comparison of something with the group's time step."""
    if isinstance(test, ast.Compare) and len(test.ops) == 1 and isinstance(test.ops[0], (ast.Eq, ast.NotEq)):
        l, r = test.left, test.comparators[0]
        if isinstance(r, ast.Name) and r.id == dt_var:
            return type(test.ops[0]), l
        if isinstance(l, ast.Name) and l.id == dt_var:
            return type(test.ops[0]), r
    return None, None


def extract_body(prog: Program, qualname: str) -> Body:
    f = prog.func(qualname)
    gl = [st for st in f.node.body if isinstance(st, ast.For) and "dt_with_count" in unparse(st.iter)]
    if len(gl) != 1:
        raise AnalysisError(f"{qualname}: expected one loop over dt_with_count at function level, found {len(gl)}")
    g = gl[0]
    it = unparse(g.iter)
    if it == "dt_with_count.items()" and isinstance(g.target, ast.Tuple) and len(g.target.elts) == 2:
        dt_var = unparse(g.target.elts[0])
        count_var = unparse(g.target.elts[1])
        if count_var == "_":
            count_var = None
    elif it in ("dt_with_count", "dt_with_count.keys()", "list(dt_with_count)", "list(dt_with_count.keys())") and isinstance(g.target, ast.Name):
        dt_var, count_var = g.target.id, None
    else:
        raise AnalysisError(f"{qualname}: group loop `{norm_key(g, 80)}` is not a loop over the time steps of dt_with_count")
    gather = [st for st in own_nodes(f.node) if isinstance(st, ast.Assign) and isinstance(st.value, ast.Subscript)
              and unparse(st.value.slice) == "hvsr_indices_to_order"]
    rets = [x for x in own_nodes(f.node) if isinstance(x, ast.Return)]
    ctor = None
    for x in rets:
        if isinstance(x.value, ast.Call) and call_name(x.value) == "HvsrTraditional":
            ctor = x.value
    loops = [st for st in g.body if isinstance(st, ast.For)]
    # ---- form A: for org_idx, record in enumerate(records) with a time-step filter
    rl = [st for st in loops if unparse(st.iter) == "enumerate(records)" and isinstance(st.target, ast.Tuple) and len(st.target.elts) == 2]
    if len(rl) == 1:
        r = rl[0]
        org_idx, record = unparse(r.target.elts[0]), unparse(r.target.elts[1])
        filt, key, stmts = None, None, list(r.body)
        first = r.body[0] if r.body else None
        if isinstance(first, ast.If):
            op, other = _dt_compare(first.test, dt_var)
            if op is ast.NotEq and not first.orelse and len(first.body) == 1 and isinstance(first.body[0], ast.Continue):
                filt, key, stmts = first, other, list(r.body[1:])
            elif op is ast.Eq and not first.orelse and len(r.body) == 1:
                filt, key, stmts = first, other, list(first.body)
        if filt is None:
            for st in r.body:
                if isinstance(st, ast.If) and any(isinstance(b, ast.Continue) for b in st.body) and not st.orelse:
                    filt = st
                    break
            stmts = [st for st in r.body if st is not filt]
        return Body(f, g, r, org_idx, record, dt_var, count_var, filt, gather, ctor, "A", None, None, key, stmts)
    # ---- form B: the group's original indices are collected first, the loop runs over them
    for lp in loops:
        it = lp.iter
        k_var = None
        if isinstance(it, ast.Call) and call_name(it) == "enumerate" and len(it.args) == 1 and isinstance(it.args[0], ast.Name) \
                and isinstance(lp.target, ast.Tuple) and len(lp.target.elts) == 2:
            lst, k_var, org_idx = it.args[0].id, unparse(lp.target.elts[0]), unparse(lp.target.elts[1])
        elif isinstance(it, ast.Name) and isinstance(lp.target, ast.Name):
            lst, org_idx = it.id, lp.target.id
        else:
            continue
        d = [st for st in g.body if isinstance(st, ast.Assign) and len(st.targets) == 1 and isinstance(st.targets[0], ast.Name)
             and st.targets[0].id == lst and st.lineno < lp.lineno]
        if len(d) != 1 or not isinstance(d[0].value, ast.ListComp) or len(d[0].value.generators) != 1:
            continue
        gen = d[0].value.generators[0]
        if unparse(gen.iter) != "enumerate(records)" or not isinstance(gen.target, ast.Tuple) or len(gen.target.elts) != 2 or len(gen.ifs) != 1:
            continue
        o2, rec2 = unparse(gen.target.elts[0]), unparse(gen.target.elts[1])
        if unparse(d[0].value.elt) != o2:
            continue
        op, other = _dt_compare(gen.ifs[0], dt_var)
        if op is not ast.Eq:
            continue
        bind = [st for st in lp.body if isinstance(st, ast.Assign) and len(st.targets) == 1 and isinstance(st.targets[0], ast.Name)
                and unparse(st.value) == f"records[{org_idx}]"]
        if len(bind) != 1:
            continue
        record = bind[0].targets[0].id
        # express the filter key in terms of the loop's record variable
        key = ast.parse(unparse(other).replace(rec2, record) if rec2 != record else unparse(other), mode="eval").body
        stmts = [st for st in lp.body if st is not bind[0]]
        return Body(f, g, lp, org_idx, record, dt_var, count_var, None, gather, ctor, "B", k_var, lst, key, stmts, bind[0])
    # ---- form C: the group's (original index, record) pairs are collected first, the loop runs over them
    for lp in loops:
        it = lp.iter
        k_var = None
        tgt = lp.target
        if isinstance(it, ast.Call) and call_name(it) == "enumerate" and len(it.args) == 1 and isinstance(it.args[0], ast.Name) \
                and isinstance(tgt, ast.Tuple) and len(tgt.elts) == 2 and isinstance(tgt.elts[1], ast.Tuple) and len(tgt.elts[1].elts) == 2:
            lst, k_var, pair = it.args[0].id, unparse(tgt.elts[0]), tgt.elts[1]
        elif isinstance(it, ast.Name) and isinstance(tgt, ast.Tuple) and len(tgt.elts) == 2:
            lst, pair = it.id, tgt
        else:
            continue
        if not all(isinstance(e, ast.Name) for e in pair.elts):
            continue
        org_idx, record = pair.elts[0].id, pair.elts[1].id
        d = [st for st in g.body if isinstance(st, ast.Assign) and len(st.targets) == 1 and isinstance(st.targets[0], ast.Name)
             and st.targets[0].id == lst and st.lineno < lp.lineno]
        if len(d) != 1 or not isinstance(d[0].value, ast.ListComp) or len(d[0].value.generators) != 1:
            continue
        gen = d[0].value.generators[0]
        if unparse(gen.iter) != "enumerate(records)" or not isinstance(gen.target, ast.Tuple) or len(gen.target.elts) != 2 or len(gen.ifs) != 1:
            continue
        o2, rec2 = unparse(gen.target.elts[0]), unparse(gen.target.elts[1])
        elt = d[0].value.elt
        if not (isinstance(elt, ast.Tuple) and [unparse(e) for e in elt.elts] == [o2, rec2]):
            continue
        op, other = _dt_compare(gen.ifs[0], dt_var)
        if op is not ast.Eq:
            continue
        key = ast.parse(unparse(other).replace(rec2, record) if rec2 != record else unparse(other), mode="eval").body
        return Body(f, g, lp, org_idx, record, dt_var, count_var, None, gather, ctor, "B", k_var, lst, key, list(lp.body), None)
    raise AnalysisError(f"{qualname}: expected one per-record loop inside the group loop")


class RowExec:
    """Canonicalisation of a per-record body into sympy terms (straight-line, interprocedural).

    Time-series objects are modelled by reference: an object symbol with an ``amplitude`` field in a
    small heap, so that ``x = TimeSeries.from_timeseries(record.ns); x.window(...)`` updates the copy and
    ``x = record.ns; x.window(...)`` is seen as tapering the caller's component.  Calls of package-level
    functions whose bodies are straight-line code are inlined (helpers extracted by a refactoring do not
    change the canonical form)."""

    MAX_DEPTH = 3

    def __init__(self, prog: Program, body: Body, azimuth_symbol: Optional[sp.Symbol] = None):
        self.prog = prog
        self.b = body
        self.rows: Dict[str, sp.Expr] = {}
        self.row_nodes: Dict[str, ast.AST] = {}
        self.notes: List[str] = []
        self.heap: Dict[sp.Symbol, Dict[str, object]] = {}
        self.inplace_on_record: List[ast.AST] = []
        self.az = azimuth_symbol
        self._n = 0
        rec = body.record
        self.rec_obj = self._new_obj(None, caller=True, label="record")
        self.comp_obj = {}
        for c, sym in (("ns", NS), ("ew", EW), ("vt", VT)):
            o = self._new_obj(sym, caller=True, label=f"{rec}.{c}")
            self.comp_obj[c] = o
        self.T = self._translator({}, body.func.module, depth=0)
        self.T.env[rec] = self.rec_obj
        if getattr(body, "form", "A") == "B":
            self.T.env[f"records[{body.org_idx}]"] = self.rec_obj
        self._prelude(body)

    def _prelude(self, body):
        """Aliases of settings fields / registry look-ups made before the per-record loop (function and group level)."""
        f = body.func
        pre = [st for st in f.node.body if isinstance(st, ast.Assign) and st.lineno < body.group_loop.lineno]
        if body.group_loop is not body.record_loop:
            pre += [st for st in body.group_loop.body if isinstance(st, ast.Assign) and st.lineno < body.record_loop.lineno]
        for st in pre:
            if not all(isinstance(t, (ast.Name, ast.Tuple)) for t in st.targets):
                continue
            v = st.value
            simple = not any(isinstance(x, ast.Call) and call_name(x) not in ("tuple", "list", "dict", "copy", "deepcopy") for x in ast.walk(v))
            if not simple:
                continue
            try:
                self._run([st], self.T)
            except AnalysisError:
                pass

    # ---------------------------------------------------------------- heap
    def _new_obj(self, amplitude, caller=False, label="obj"):
        self._n += 1
        o = sp.Symbol(f"<{label}#{self._n}>")
        self.heap[o] = {"amplitude": amplitude, "caller": caller}
        return o

    def _translator(self, env, module, depth):
        T = Translator(env=env)
        T._module = module
        T._depth = depth
        T.unroll_comps = True
        T.call_hook = self._hook
        T.symbol_hook = None
        orig_attr = T.t_Attribute

        def t_attribute(n, T=T, orig=orig_attr):
            # field access on modelled objects
            base = None
            try:
                if isinstance(n.value, (ast.Name, ast.Attribute)):
                    base = T.tr(n.value)
            except AnalysisError:
                base = None
            if base is not None and base in self.heap:
                if base == self.rec_obj and n.attr in self.comp_obj:
                    return self.comp_obj[n.attr]
                if n.attr == "amplitude":
                    a = self.heap[base]["amplitude"]
                    if a is not None:
                        return a
                return sp.Symbol(f"{base}.{n.attr}")
            return orig(n)
        T.t_Attribute = t_attribute
        return T

    def _is_setting(self, node: ast.AST, dotted_name: str, T: Translator) -> bool:
        if unparse(node) == dotted_name:
            return True
        try:
            v = T.tr(node)
        except AnalysisError:
            return False
        while getattr(getattr(v, "func", None), "__name__", "") in ("tuple", "list", "dict", "copy", "deepcopy") and len(v.args) == 1:
            v = v.args[0]
        return v == Translator().tr(ast.parse(dotted_name, mode="eval").body)

    # ---------------------------------------------------------------- calls
    def _hook(self, call: ast.Call, T: Translator):
        nm = call_name(call)
        f = call.func
        args = [a for a in call.args if not isinstance(a, ast.Starred)]
        if nm == "rfft" and args:
            if not any(k.arg is None and self._is_setting(k.value, "settings.fft_settings", T) for k in call.keywords):
                self.notes.append(f"rfft without **settings.fft_settings at line {call.lineno}")
            return rfft_(T.tr(args[0]))
        if nm == "from_timeseries" and args:
            src = T.tr(args[0])
            if src in self.heap:
                return self._new_obj(self.heap[src]["amplitude"], label="copy")
            return self._new_obj(sp.Function("amplitude_of")(src), label="copy")
        if nm == "from_seismic_recording_3c" and args:
            return sp.Function("copy3c")(T.tr(args[0]))
        if nm == "TimeSeries" and isinstance(f, ast.Name) and args:
            return self._new_obj(T.tr(args[0]), label="ts")
        if nm == "TimeSeries" and isinstance(f, ast.Name) and kwarg(call, "amplitude") is not None:
            return self._new_obj(T.tr(kwarg(call, "amplitude")), label="ts")
        if nm in ("conjugate", "conj") and args:
            return sp.conjugate(T.tr(args[0]))
        if isinstance(f, ast.Name):
            # a local bound to the combine register
            v = T.env.get(f.id)
            if v is not None and v == sp.Symbol("<combine>") and len(args) >= 2:
                return combine(T.tr(args[0]), T.tr(args[1]))
            # package-level helper with a straight-line body: inline
            r = self.prog.resolve_name(getattr(T, "_module", self.b.func.module), f.id)
            if r and r[0] == "func" and getattr(T, "_depth", 0) < self.MAX_DEPTH:
                out = self._inline(r[1], call, T)
                if out is not None:
                    return out
        if isinstance(f, ast.Subscript) and unparse(f.value) == "COMBINE_HORIZONTAL_REGISTER" and len(args) >= 2:
            return combine(T.tr(args[0]), T.tr(args[1]))
        return None

    def _inline(self, g: Func, call: ast.Call, T: Translator):
        body = [st for st in g.node.body if not (isinstance(st, ast.Expr) and isinstance(st.value, ast.Constant))]
        if any(not isinstance(st, (ast.Assign, ast.AugAssign, ast.Expr, ast.Return)) for st in body):
            return None
        if sum(isinstance(st, ast.Return) for st in body) != 1 or not isinstance(body[-1], ast.Return):
            return None
        from ..astutil import bind_call
        bound = bind_call(call, g.params)
        env = {}
        for p in g.params:
            if p in bound:
                env[p] = T.tr(bound[p])
            elif p in g.defaults():
                env[p] = Translator().tr(g.defaults()[p])
            else:
                return None
        # `settings` keeps its name so that settings.<field> symbols agree between caller and helper
        for p, v in list(env.items()):
            if v.is_Symbol and v.name == "settings" and p != "settings":
                return None
        T2 = self._translator(env, g.module, getattr(T, "_depth", 0) + 1)
        self._run(body[:-1], T2)
        return T2.tr(body[-1].value)

    # ---------------------------------------------------------------- statements
    def run(self, stmts: List[ast.stmt]):
        self._run(stmts, self.T)
        return self

    def _run(self, stmts: List[ast.stmt], T: Translator):
        for st in stmts:
            if isinstance(st, ast.Assign) and len(st.targets) == 1:
                t = st.targets[0]
                if isinstance(t, ast.Name):
                    if unparse(st.value).startswith("COMBINE_HORIZONTAL_REGISTER["):
                        if unparse(st.value) != "COMBINE_HORIZONTAL_REGISTER[settings.method_to_combine_horizontals]":
                            self.notes.append(f"combine method looked up as `{unparse(st.value)}`")
                        T.env[t.id] = sp.Symbol("<combine>")
                    else:
                        T.env[t.id] = T.tr(st.value)
                elif isinstance(t, ast.Subscript):
                    self.rows[unparse(t)] = T.tr(st.value)
                    self.row_nodes[unparse(t)] = t
                elif isinstance(t, (ast.Tuple, ast.List)) and isinstance(st.value, (ast.Tuple, ast.List)) and len(t.elts) == len(st.value.elts):
                    vals = [T.tr(v) for v in st.value.elts]
                    for e, v in zip(t.elts, vals):
                        if isinstance(e, ast.Name):
                            T.env[e.id] = v
                elif isinstance(t, (ast.Tuple, ast.List)):
                    try:
                        v = T.tr(st.value)
                    except AnalysisError:
                        v = None
                    if isinstance(v, sp.Tuple) and len(v) == len(t.elts):
                        for e, x in zip(t.elts, v):
                            if isinstance(e, ast.Name):
                                T.env[e.id] = x
            elif isinstance(st, ast.Expr) and isinstance(st.value, ast.Call) and call_name(st.value) == "window" \
                    and isinstance(st.value.func, ast.Attribute):
                try:
                    tgt = T.tr(st.value.func.value)
                except AnalysisError:
                    tgt = None
                if not any(isinstance(a, ast.Starred) and self._is_setting(a.value, "settings.window_type_and_width", T) for a in st.value.args):
                    self.notes.append(f"window() without *settings.window_type_and_width at line {st.lineno}")
                targets = []
                if tgt == self.rec_obj:
                    targets = list(self.comp_obj.values())
                elif tgt in self.heap:
                    targets = [tgt]
                for o in targets:
                    h = self.heap[o]
                    if h["caller"]:
                        self.inplace_on_record.append(st)
                    if h["amplitude"] is not None:
                        h["amplitude"] = taper(h["amplitude"])
            elif isinstance(st, ast.AugAssign):
                forward_substitute([st], T)
            elif isinstance(st, ast.Expr) and isinstance(st.value, ast.Call) and call_name(st.value) == "append" and isinstance(st.value.func, ast.Attribute) \
                    and isinstance(st.value.func.value, ast.Name) and isinstance(T.env.get(st.value.func.value.id), sp.Tuple) and len(st.value.args) == 1:
                T.env[st.value.func.value.id] = sp.Tuple(*T.env[st.value.func.value.id], T.tr(st.value.args[0]))
            elif isinstance(st, ast.Expr) and isinstance(st.value, ast.Call) and call_name(st.value) == "append" and isinstance(st.value.func, ast.Attribute) \
                    and isinstance(st.value.func.value, ast.Name) and st.value.func.value.id not in T.env and len(st.value.args) == 1:
                # a list that lives outside the per-record body (rows collected per group): what this record contributes
                self.__dict__.setdefault("appended", {}).setdefault(st.value.func.value.id, []).append(T.tr(st.value.args[0]))
            elif isinstance(st, ast.For) and isinstance(st.iter, (ast.Tuple, ast.List)) and len(st.iter.elts) <= 8 and isinstance(st.target, ast.Name):
                # loop over a literal sequence (e.g. the three components): unrolled
                for e in st.iter.elts:
                    T.env[st.target.id] = T.tr(e)
                    self._run(st.body, T)
            elif isinstance(st, ast.For):
                # azimuth loop of RotDpp: execute the body once with a symbolic azimuth
                az = self.az if self.az is not None else sp.Symbol("azimuth", real=True)
                if isinstance(st.target, ast.Tuple) and len(st.target.elts) == 2:
                    T.env[unparse(st.target.elts[0])] = sp.Symbol("az_index", integer=True)
                    T.env[unparse(st.target.elts[1])] = az
                elif isinstance(st.target, ast.Name):
                    if "azimuth" in unparse(st.iter):
                        T.env[st.target.id] = az
                    else:
                        T.env[st.target.id] = sp.Symbol(f"<elem of {unparse(st.iter)}>")
                self._run(st.body, T)


def rotdpp_roles(prog: Program):
    """Canonical description of the RotDpp body: (problems, facts).  Indices are normalised against the
    number of rows of the per-record array, so `[-1]` and `[n_azimuths]`, `[:-1]` and `[:n_azimuths]` agree."""
    from ..resolve import Resolver, canon
    from ..expr import equal
    q = "processing.traditional_rotdpp_hvsr_processing"
    b = extract_body(prog, q)
    f = b.func
    R = Resolver(prog, f)
    problems: List[str] = []
    facts: List[str] = []
    NAZ = R.expect("len(settings.azimuths_in_degrees)")
    # the per-record array: the one handed to the smoothing operator
    sm = None
    for c in calls_in(b.record_loop):
        if isinstance(c.func, (ast.Subscript, ast.Name)):
            try:
                v = R.value(c.func, c)
            except AnalysisError:
                continue
            if "SMOOTHING_OPERATORS" in str(v):
                sm = c
    if sm is None:
        raise AnalysisError(f"{q}: smoothing call not found in the per-record loop")
    from ..astutil import bind_call
    sb = bind_call(sm, ["frequencies", "spectrum", "fcs", "bandwidth"])
    arr = sb.get("spectrum")
    if not isinstance(arr, ast.Name):
        try:
            av = R.value(arr, sm) if arr is not None else None
        except AnalysisError:
            av = None
        if av is not None and any(getattr(getattr(a_, "func", None), "__name__", "") in ("percentile", "nanpercentile", "quantile", "median") for a_ in sp.preorder_traversal(av)):
            problems.append(f"the percentile over the azimuths is taken on the raw spectra, before smoothing (the smoothing operator receives {str(av)[:120]}): "
                            f"RotDpp is defined on the smoothed rotated spectra")
            return problems, facts, b
        raise AnalysisError(f"{q}: the array handed to the smoothing operator is not a named array")
    alloc = R.value(arr, sm)
    nrows = None
    if alloc.is_Function and alloc.func.__name__ in ("empty", "zeros") and alloc.args and isinstance(alloc.args[0], sp.Tuple):
        nrows = alloc.args[0][0]
    if nrows is None or not equal(nrows, NAZ + 1):
        problems.append(f"the per-record array has {nrows} rows; expected len(azimuths) + 1")
        nrows = NAZ + 1

    def norm(ix):
        if ix.is_Integer and ix < 0:
            return nrows + ix
        return ix
    # stores into the array
    want_iter = R.expect("enumerate(settings.azimuths_in_degrees)")
    az_loops = []
    for st in b.record_loop.body:
        if isinstance(st, ast.For):
            try:
                if equal(R.value(st.iter, st), want_iter):
                    az_loops.append(st)
            except AnalysisError:
                pass
    if len(az_loops) != 1 or not isinstance(az_loops[0].target, ast.Tuple):
        raise AnalysisError(f"{q}: loop over enumerate(settings.azimuths_in_degrees) not found in the per-record loop")
    al = az_loops[0]
    ix_name, az_name = unparse(al.target.elts[0]), unparse(al.target.elts[1])
    if any(isinstance(x, (ast.Break, ast.Continue, ast.If)) for x in ast.walk(al)):
        problems.append("the azimuth loop skips or stops early")
    ex = RowExec(prog, b, sp.Symbol(az_name, real=True))
    ex.T.env[ix_name] = sp.Symbol(ix_name, integer=True)
    stmts = [st for st in b.record_loop.body if st is not b.filter_if]
    ex.run(stmts)
    problems += ex.notes
    rows = {}
    for st in ast.walk(b.record_loop):
        if isinstance(st, ast.Assign) and isinstance(st.targets[0], ast.Subscript) and unparse(st.targets[0].value) == arr.id:
            ix = norm(R.value(st.targets[0].slice, st))
            val = ex.rows.get(unparse(st.targets[0]))
            rows[ix] = (val, st)
    azs = sp.Symbol(az_name, real=True)
    want_h = sp.Abs(rfft_(taper(NS * sp.cos(azs * sp.pi / 180) + EW * sp.sin(azs * sp.pi / 180))))
    want_v = sp.Abs(rfft_(taper(VT)))
    ixs = sp.Symbol(ix_name, real=True)
    h = [(k, v) for k, v in rows.items() if str(k) == ix_name]
    v_ = [(k, v) for k, v in rows.items() if equal(k, NAZ)]
    if len(h) == 1 and h[0][1][0] is not None and equal(h[0][1][0], want_h):
        facts.append(f"row i (i-th azimuth) = {want_h}")
    else:
        problems.append(f"row of azimuth i holds {h[0][1][0] if h else None}; expected {want_h}")
    if len(v_) == 1 and v_[0][1][0] is not None and equal(v_[0][1][0], want_v):
        facts.append(f"last row = {want_v}")
    else:
        problems.append(f"the vertical spectrum is not stored in the last row (rows written: {[str(k) for k in rows]})")
    if len(rows) != 2:
        problems.append(f"{len(rows)} distinct rows are written per record; expected the azimuth rows and the vertical row")
    # ratio
    ratio = [st for st in b.record_loop.body if isinstance(st, ast.Assign) and isinstance(st.targets[0], ast.Subscript)
             and unparse(st.targets[0].value) == "hvsr_spectra"]
    if len(ratio) != 1:
        raise AnalysisError(f"{q}: store of the HVSR row not found")
    val = canon(R.value(ratio[0].value, ratio[0]))
    S = canon(R.value(ast.Name(id=unparse(parent_of(sm).targets[0]), ctx=ast.Load()), ratio[0])) if isinstance(parent_of(sm), ast.Assign) else None
    okr = False
    num = den = None
    if val.is_Mul:
        dens = [a.base for a in val.args if a.is_Pow and a.exp == -1]
        nums = [a for a in val.args if not (a.is_Pow and a.exp == -1)]
        if len(dens) == 1 and len(nums) == 1:
            num, den = nums[0], dens[0]
    gi = sp.Function("getitem")
    if num is not None and S is not None:
        # denominator: S[NAZ]
        den_ok = den.is_Function and den.func.__name__ == "getitem" and equal(den.args[0], S) and equal(norm(den.args[1]), NAZ)
        num_ok = False
        if num.is_Function and num.func.__name__ == "percentile" and len(num.args) >= 2:
            a0 = num.args[0]
            pp = num.args[1]
            axis_ok = len(num.args) >= 3 and num.args[2] == 0
            sl_ok = False
            if a0.is_Function and a0.func.__name__ == "getitem" and equal(a0.args[0], S):
                sl = a0.args[1]
                if sl.is_Function and sl.func.__name__ == "slice":
                    lo, hi, stp = sl.args
                    lo_ok = str(lo) == "None" or lo == 0
                    sl_ok = lo_ok and str(stp) == "None" and equal(norm(hi), NAZ)
            num_ok = sl_ok and axis_ok and equal(pp, R.expect("settings.ppth_percentile_for_rotdpp_computation"))
            if not axis_ok:
                problems.append("the percentile is not taken along axis 0 (over the azimuths)")
            if not sl_ok:
                problems.append(f"the percentile is taken over {a0}; expected the azimuth rows only (all rows but the last)")
        else:
            problems.append(f"the numerator is {str(num)[:120]}, not np.percentile over the azimuth rows")
        if not den_ok:
            problems.append(f"the denominator is {str(den)[:120]}; expected the smoothed vertical (last) row")
        okr = num_ok and den_ok
    else:
        problems.append("the HVSR row is not a ratio percentile(horizontal rows)/vertical row")
    if okr:
        facts.append("curve = percentile over axis 0 of the smoothed azimuth rows / smoothed vertical row")
    return problems, facts, b


def taper_rule(ck, prog: Program, rule: str):
    """TimeSeries.window as a table over the taper name: "tukey" -> the samples are multiplied in place by
    tukey(n_samples, alpha=width) computed from this call's arguments; any other name raises; nothing but the object is written."""
    from ..pathtable import PathTable, outcomes
    from ..astutil import bind_call
    from .common import engine, describe_effect
    m = prog.func("timeseries.TimeSeries.window")
    q = m.qualname
    if m.params[:3] != ["self", "type", "width"]:
        raise AnalysisError(f"{q}: parameters are {m.params}")
    F = sp.Function

    def hook(call, T):
        if isinstance(call.func, ast.Name) and call.func.id == "tukey":
            b = bind_call(call, ["M", "alpha", "sym"])
            return F("tukey")(*[T.tr(b[p_]) if p_ in b else sp.Symbol("<default>") for p_ in ("M", "alpha")])
        return None
    leaves = PathTable(prog, m.module, call_hook=hook, unroll=True).leaves(m.node.body)
    R_ = lambda n: sp.Symbol(n, real=True)   # noqa: E731
    TYPE, AMP = R_("type"), R_("self.amplitude")
    want = F("tukey")(R_("self.n_samples"), R_("width"))

    def canon(v):
        # call(<function value tukey>, n, kw_alpha(w)) -> tukey(n, w)
        def fix(x):
            if getattr(getattr(x, "func", None), "__name__", "") == "call" and x.args and x.args[0] == R_("tukey"):
                pos = [a_ for a_ in x.args[1:] if not getattr(getattr(a_, "func", None), "__name__", "").startswith("kw_")]
                kw = {a_.func.__name__[3:]: a_.args[0] for a_ in x.args[1:] if getattr(getattr(a_, "func", None), "__name__", "").startswith("kw_")}
                vals = dict(zip(("M", "alpha", "sym"), pos))
                vals.update(kw)
                return F("tukey")(vals.get("M", sp.Symbol("<default>")), vals.get("alpha", sp.Symbol("<default>")))
            if getattr(getattr(x, "func", None), "__name__", "") == "call" and x.args and getattr(x.args[0], "is_Symbol", False) \
                    and not any(getattr(getattr(a_, "func", None), "__name__", "").startswith("kw_") for a_ in x.args[1:]):
                from ..pathtable import apply_function_value
                v2 = apply_function_value(prog, m.module, x.args[0].name, list(x.args[1:]), call_hook=hook)
                if v2 is not None:
                    return v2
            return x
        return v.replace(lambda x: getattr(getattr(x, "func", None), "__name__", "") == "call", fix) if hasattr(v, "replace") else v
    got = None
    good = True
    rows = outcomes(leaves, {TYPE: sp.Symbol("'tukey'")})
    if not rows or any(r["exit"] == "raise" for r in rows):
        good = False
    for r in rows:
        stores = [e for e in r["events"] if e[0] == "store" and e[1] == "self.amplitude"]
        if len(stores) != 1:
            good = False
            continue
        v = canon(stores[0][2])
        if getattr(getattr(v, "func", None), "__name__", "") == "aug_Mult":
            got = v.args[0]
        elif v.is_Mul and AMP in v.args:
            got = v / AMP
        else:
            got = v
            good = False
        if got != want:
            good = False
    if good:
        ck.ok(rule, q, "self.amplitude *= tukey(self.n_samples, alpha=width)", detail="taper computed from this call's arguments")
    else:
        ck.violation(rule, q, "taper",
                     f"the samples are multiplied by {got}; expected tukey(self.n_samples, alpha=width) "
                     f"computed from this call's own type and width", loc=m.loc())
    other = outcomes(leaves, {TYPE: sp.Symbol("'<other>'")})
    if other and all(r["exit"] == "raise" for r in other):
        ck.ok(rule, q, "unknown taper types raise", nontrivial=False)
    else:
        ck.violation(rule, q, "unknown taper type", "an unknown taper type does not raise", loc=m.loc())
    s = engine(prog).summary(m)
    bad = [e for e in s.effects if e.origin[0] == "G" or (e.origin[0] == "P" and e.origin[1] != 0)]
    if not bad:
        ck.ok(rule, q, "no state outside the object is written (no taper cache)")
    for e in bad:
        ck.violation(rule, q, e.site.text, f"tapering keeps state between calls: {describe_effect(e)} (the taper applied would depend on earlier calls)", loc=e.site.loc)


COMPONENT_PARAMS = ("component", "comp", "component_name", "which")


def psd_source(prog: Program) -> str:
    """How a call of processing._rpds_single_component for component {c} of `records` is spelled under the helper's *current*
    signature (format string): either it receives the list of that component's series, or the records plus the component's name
    (then the helper extracts `getattr(record, <name>)` itself - checked by C17.R1)."""
    g = prog.func("processing._rpds_single_component")
    names = list(g.params) + [k for k in g.kwonly if k not in g.params]
    comp = next((p_ for p_ in names if p_ in COMPONENT_PARAMS), None)
    if comp is None:
        if list(g.params[:2]) == [psd_data_param(prog), "settings"]:
            return "_rpds_single_component([record.{c} for record in records], settings)"
        return "_rpds_single_component(settings, [record.{c} for record in records])"
    order = {p_: i for i, p_ in enumerate(g.params)}
    data = psd_data_param(prog)
    pos = [("records", order[data])] + ([("settings", order["settings"])] if "settings" in order else []) + ([("'{c}'", order[comp])] if comp in order else [])
    txt = ", ".join(a for a, _ in sorted(pos, key=lambda x: x[1]))
    if comp in g.kwonly:
        txt += ", " + comp + "='{c}'"
    if "settings" in g.kwonly:
        txt += ", settings=settings"
    return "_rpds_single_component(" + txt + ")"


def psd_data_param(prog: Program) -> str:
    """The parameter of _rpds_single_component that receives the data (series or records): the one that is neither the settings
    nor the component's name."""
    g = prog.func("processing._rpds_single_component")
    cands = [p_ for p_ in g.params if p_ != "settings" and p_ not in COMPONENT_PARAMS]
    if len(cands) != 1:
        raise AnalysisError(f"{g.qualname}: parameters are {g.params}")
    return cands[0]
