"""Structural model of the row-building processing bodies (shared by C01, C03, C17).

``extract_body(prog, qualname)`` locates, in one of the three functions that build one HVSR row per
record (traditional, single-azimuth, RotDpp), the group loop over ``dt_with_count``, the per-record
loop, the time-step filter, the counters and the gather.  ``symbolic_rows`` canonicalises the
straight-line per-record body into sympy terms: what is written to the horizontal and to the
vertical row, as nested applications of taper / rfft / Abs / combine / projection.
"""
from __future__ import annotations

import ast
from dataclasses import dataclass, field
from typing import Dict, List, Optional, Tuple

import sympy as sp

from ..astutil import call_name, calls_in, own_nodes, unparse, kwarg
from ..expr import Translator, forward_substitute
from ..model import AnalysisError, Func, Program, norm_key, parent_of

ROW_BODIES = ["processing.traditional_hvsr_processing", "processing.traditional_single_azimuth_hvsr_processing",
              "processing.traditional_rotdpp_hvsr_processing"]

NS, EW, VT = sp.symbols("NS EW VT", positive=True)
taper, rfft_, combine, smooth = sp.Function("taper"), sp.Function("rfft"), sp.Function("combine"), sp.Function("smooth")


@dataclass
class Body:
    func: Func
    group_loop: ast.For
    record_loop: ast.For
    org_idx: str
    record: str
    dt_var: str
    count_var: Optional[str]
    filter_if: Optional[ast.If]
    gather: List[ast.Assign] = field(default_factory=list)
    ctor: Optional[ast.Call] = None


def extract_body(prog: Program, qualname: str) -> Body:
    f = prog.func(qualname)
    gl = [st for st in f.node.body if isinstance(st, ast.For) and "dt_with_count" in unparse(st.iter)]
    if len(gl) != 1:
        raise AnalysisError(f"{qualname}: expected one loop over dt_with_count at function level, found {len(gl)}")
    g = gl[0]
    if unparse(g.iter) != "dt_with_count.items()" or not isinstance(g.target, ast.Tuple) or len(g.target.elts) != 2:
        raise AnalysisError(f"{qualname}: group loop is not `for dt, count in dt_with_count.items()`")
    dt_var = unparse(g.target.elts[0])
    count_var = unparse(g.target.elts[1])
    if count_var == "_":
        count_var = None
    rl = [st for st in g.body if isinstance(st, ast.For) and "records" in unparse(st.iter)]
    if len(rl) != 1:
        raise AnalysisError(f"{qualname}: expected one per-record loop inside the group loop")
    r = rl[0]
    if unparse(r.iter) != "enumerate(records)" or not isinstance(r.target, ast.Tuple):
        raise AnalysisError(f"{qualname}: per-record loop is not `for org_idx, record in enumerate(records)`")
    org_idx, record = unparse(r.target.elts[0]), unparse(r.target.elts[1])
    filt = None
    for st in r.body:
        if isinstance(st, ast.If) and any(isinstance(b, ast.Continue) for b in st.body) and not st.orelse:
            filt = st
            break
    gather = [st for st in own_nodes(f.node) if isinstance(st, ast.Assign) and isinstance(st.value, ast.Subscript)
              and unparse(st.value.slice) == "hvsr_indices_to_order"]
    rets = [x for x in own_nodes(f.node) if isinstance(x, ast.Return)]
    ctor = None
    for x in rets:
        if isinstance(x.value, ast.Call) and call_name(x.value) == "HvsrTraditional":
            ctor = x.value
    return Body(f, g, r, org_idx, record, dt_var, count_var, filt, gather, ctor)


class RowExec:
    """Straight-line canonicalisation of a per-record body."""

    def __init__(self, prog: Program, body: Body, azimuth_symbol: Optional[sp.Symbol] = None):
        self.prog = prog
        self.b = body
        self.rows: Dict[str, sp.Expr] = {}
        self.objs: Dict[str, sp.Expr] = {}     # name -> current amplitude of a TimeSeries-valued local
        self.notes: List[str] = []
        rec = body.record
        self.comp = {f"{rec}.ns": NS, f"{rec}.ew": EW, f"{rec}.vt": VT}
        self.az = azimuth_symbol
        self.T = Translator(call_hook=self._hook, symbol_hook=self._sym)
        self.inplace_on_record: List[ast.AST] = []

    # -- symbols: record.ns.amplitude etc.
    def _sym(self, name: str):
        for k, v in self.comp.items():
            if name == f"{k}.amplitude":
                return v
        if name.endswith(".amplitude") and name[:-10] in self.objs:
            return self.objs[name[:-10]]
        return None

    def _hook(self, call: ast.Call, T: Translator):
        nm = call_name(call)
        f = call.func
        args = [a for a in call.args if not isinstance(a, ast.Starred)]
        if nm == "rfft" and args:
            if not any(k.arg is None and unparse(k.value) == "settings.fft_settings" for k in call.keywords):
                self.notes.append(f"rfft without **settings.fft_settings at line {call.lineno}")
            return rfft_(T.tr(args[0]))
        if nm in ("from_timeseries",) and args:
            return sp.Function("copy_of")(T.tr(ast.Attribute(value=args[0], attr="amplitude", ctx=ast.Load())))
        if nm == "TimeSeries" and isinstance(f, ast.Name) and args:
            return sp.Function("copy_of")(T.tr(args[0]))
        if nm == "single_azimuth" and isinstance(f, ast.Name) and len(args) == 3:
            a, b, az = T.tr(args[0]), T.tr(args[1]), T.tr(args[2])
            return sp.Function("proj")(a, b, az)
        if nm == "method" and isinstance(f, ast.Name) and len(args) >= 2:
            return combine(T.tr(args[0]), T.tr(args[1]))
        if nm in ("conjugate", "conj") and args:
            return sp.conjugate(T.tr(args[0]))
        return None

    def run(self, stmts: List[ast.stmt]):
        T = self.T
        for st in stmts:
            if isinstance(st, ast.Assign) and len(st.targets) == 1:
                t = st.targets[0]
                if isinstance(t, ast.Name):
                    v = T.tr(st.value)
                    if v.is_Function and v.func.__name__ == "copy_of":
                        self.objs[t.id] = v.args[0]
                        T.env.pop(t.id, None)
                        # a plain alias of a record component is *not* a copy
                    elif isinstance(st.value, ast.Attribute) and unparse(st.value) in self.comp:
                        self.objs[t.id] = self.comp[unparse(st.value)]
                        self.inplace_alias = getattr(self, "inplace_alias", set()) | {t.id}
                    else:
                        T.env[t.id] = v
                elif isinstance(t, ast.Subscript):
                    self.rows[unparse(t)] = T.tr(st.value)
            elif isinstance(st, ast.Expr) and isinstance(st.value, ast.Call) and call_name(st.value) == "window" \
                    and isinstance(st.value.func, ast.Attribute):
                tgt = unparse(st.value.func.value)
                if not any(isinstance(a, ast.Starred) and unparse(a.value) == "settings.window_type_and_width" for a in st.value.args):
                    self.notes.append(f"window() without *settings.window_type_and_width at line {st.lineno}")
                if tgt in self.objs:
                    self.objs[tgt] = taper(self.objs[tgt])
                    if tgt in getattr(self, "inplace_alias", set()):
                        self.inplace_on_record.append(st)
                elif tgt == self.b.record or tgt in self.comp:
                    self.inplace_on_record.append(st)
                    if tgt == self.b.record:
                        for k in list(self.comp):
                            self.comp[k] = taper(self.comp[k])
                    else:
                        self.comp[tgt] = taper(self.comp[tgt])
            elif isinstance(st, ast.AugAssign):
                forward_substitute([st], T)
            elif isinstance(st, ast.For):
                # azimuth loop of RotDpp: execute the body once with a symbolic azimuth
                if isinstance(st.target, ast.Tuple) and len(st.target.elts) == 2:
                    T.env[unparse(st.target.elts[0])] = sp.Symbol("az_index", integer=True)
                    T.env[unparse(st.target.elts[1])] = self.az if self.az is not None else sp.Symbol("azimuth", real=True)
                elif isinstance(st.target, ast.Name):
                    T.env[st.target.id] = self.az if self.az is not None else sp.Symbol("azimuth", real=True)
                self.run(st.body)
        return self
