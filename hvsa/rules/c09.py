"""C09 - processing has no side effects on its inputs and is repeatable."""
from __future__ import annotations

import ast

from ..model import Program, AnalysisError
from ..report import Checker
from ..effects import fmt_origin
from .common import engine, group_effects, describe_effect, reachable_nonlocal, chain_text
from . import fftlen

EXPLANATION = (
    "Interprocedural effect analysis (abstract origins, flow-sensitive, summaries applied at every resolved "
    "call site; entry hvsrpy.processing.process and each registry target). Decided: (R1) no statement "
    "reachable from process() mutates an object reachable from the `records` argument (attribute stores, "
    "element stores, in-place array updates, mutating container methods, through any call depth); "
    "(R2) the only part of `settings` that is written is fft_settings / fft_settings['n'], no module-level "
    "object is written, and the decision table of prepare_fft_settings is idempotent (a second run with the "
    "same records stores the same FFT length); (R3) the numeric content of every returned result object "
    "(all fields except the descriptive `meta`) has origin Fresh, i.e. shares no storage with records or "
    "settings. Not decided: bit-identity of two runs (follows from R1-R3 plus determinism of numpy).")

RULES = {
    "C09.R1": "no reachable statement mutates an object whose origin is the `records` parameter of process()",
    "C09.R2a": "the only attribute of `settings` written by process() is fft_settings (and its key n)",
    "C09.R2b": "no module-level object is mutated by process()",
    "C09.R2c": "process() does not write the caller's settings (else: every FFT length stored by prepare_fft_settings must be a fixed point of the next call)",
    "C09.R3": "numeric fields of the returned result have origin Fresh (no alias of records/settings storage)",
}

ENTRY = "processing.process"


def run(ck: Checker, prog: Program, tier: str):
    _entry_effects(ck, prog)
    ck.guard(_r2c, ck, prog)
    # "the same settings" must mean the same thing in every call: no mutable default shared between settings objects, no cached
    # serialisation, every constructor argument delivered (rules of C15)
    from . import c15
    with ck.borrow(c15, "C09.R2a+"):
        ck.guard(c15.run, ck, prog, tier)
    # "returns an identical result": every column of a smoothed spectrum is written on every path (a column left as np.empty made it
    # holds whatever an earlier call left in memory) - kernel rules of C02
    from . import c02
    with ck.borrow(c02, "C09.R3+"):
        for k in c02.LOOP_KERNELS:
            ck.guard(c02._kernel, ck, prog, k)
        ck.guard(c02._sg, ck, prog)
    # ... and the PSD accumulator starts from zeros, not from whatever the allocator hands out (rules of C17)
    from . import c17
    with ck.borrow(c17, "C09.R3+"):
        ck.guard(c17._r1, ck, prog)
    from .common import check_identity_comparisons as _cic
    ck.guard(_cic, ck, prog, "C09.R1", "C09")


def _entry_effects(ck: Checker, prog: Program, rules=("R1", "R2a", "R2b", "R3")):
    """Effect summaries of process() and of every processing function it can dispatch to; `rules` selects which of the four
    questions are asked (other properties borrow a subset)."""
    eng = engine(prog)
    entry = prog.func(ENTRY)
    if entry.params[:2] != ["records", "settings"]:
        raise AnalysisError(f"{ENTRY}: expected parameters (records, settings), found {entry.params}")
    targets = []
    # every function the two dispatchers can hand the work to (lookup table or if-ladder alike)
    from .common import dispatch_table
    from . import c01 as _c01
    for disp, subject, keys in (("processing.process", "processing_method", ("traditional", "azimuthal", "diffuse_field", "psd")),
                                ("processing.traditional_hvsr_processing_base", "method_to_combine_horizontals", sorted(set(_c01.ALIASES) | set(_c01.TIME_DOMAIN)))):
        for key, (callee, _args) in sorted(dispatch_table(prog, disp, subject, keys).items()):
            if callee is not None and f"processing.{callee}" in prog.funcs:
                fq = f"processing.{callee}"
                if fq not in targets:
                    targets.append(fq)
    ck.floor("C09.R1", len(targets), 7, "processing functions reachable through the registries")
    todo = [ENTRY] + targets
    n_eff_sites = 0
    for fq in todo:
        f = prog.func(fq)
        if len(f.params) < 2:
            raise AnalysisError(f"{fq}: expected (records, settings)")
        s = eng.summary(f)
        # ---- R1
        on_records = [e for e in s.effects if e.origin[0] == "P" and e.origin[1] == 0]
        groups = group_effects(prog, on_records) if "R1" in rules else {}
        if not groups and "R1" in rules:
            ck.ok("C09.R1", fq, f"no effect on `{f.params[0]}` among {len(s.effects)} effects of the summary",
                  detail=f"effects={len(s.effects)}")
        for (func, text), effs in groups.items():
            e = effs[0]
            ck.violation("C09.R1", func, text,
                         f"process() input is mutated: {describe_effect(e)} (+{len(effs) - 1} related effects); entry {fq}",
                         loc=_first_loc(e, func), path=chain_text(e))
        # ---- R2a
        on_settings = [e for e in s.effects if e.origin[0] == "P" and e.origin[1] == 1]
        bad = []
        for e in on_settings:
            path = e.origin[2]
            allowed = (path == () and e.kind == "attr-store" and e.fld == "fft_settings") or \
                      (path == ("fft_settings",) and e.kind in ("elem-store",))
            if not allowed:
                bad.append(e)
        if "R2a" not in rules:
            bad = []
        elif not bad:
            ck.ok("C09.R2a", fq, f"{len(on_settings)} effect(s) on `settings`, all on fft_settings")
        for (func, text), effs in group_effects(prog, bad).items():
            e = effs[0]
            ck.violation("C09.R2a", func, text,
                         f"process() writes settings beyond fft_settings: {describe_effect(e)}; entry {fq}",
                         loc=_first_loc(e, func), path=chain_text(e))
        # ---- R2b
        glob = [e for e in s.effects if e.origin[0] == "G"] if "R2b" in rules else []
        if not glob and "R2b" in rules:
            ck.ok("C09.R2b", fq, "no module-level object written")
        for (func, text), effs in group_effects(prog, glob).items():
            e = effs[0]
            ck.violation("C09.R2b", func, text,
                         f"process() mutates module-level state: {describe_effect(e)}; entry {fq}",
                         loc=_first_loc(e, func), path=chain_text(e))
        # ---- R3
        if fq != ENTRY and "R3" in rules:
            alias = reachable_nonlocal(eng, s, s.ret, exclude_fields={"meta"})
            if not alias:
                ck.ok("C09.R3", fq, f"returned value {_short(s.ret)}: all numeric fields fresh")
            for (path, o) in alias:
                ck.violation("C09.R3", fq, "return:" + ".".join(path),
                             f"result field {'.'.join(path) or '<value>'} aliases {fmt_origin(o)} "
                             f"(the result would change when the input is modified afterwards)",
                             loc=f.loc())
        n_eff_sites += len(s.effects)

    ck.extra["entry_points"] = todo
    ck.extra["calls_resolved"] = eng.calls_resolved
    ck.extra["calls_through_unknown_values"] = eng.unresolved[:20]
    ck.extra["externals_assumed_pure"] = dict(eng.assumed_pure)
    ck.extra["summaries_computed"] = len(eng.summaries)


def _r2c(ck: Checker, prog: Program):
    """R2c: the FFT length chosen for one call must not become the request of the next."""
    eng = engine(prog)
    entry = prog.func(ENTRY)
    s_entry = eng.summary(entry)
    entry_writes = [e for e in s_entry.effects if e.origin[0] == "P" and e.origin[1] == 1]
    tab = fftlen.extract(prog)
    ck.floor("C09.R2c", len(tab.stores), 3, "stores of the FFT length in prepare_fft_settings")
    if not entry_writes:
        ck.ok("C09.R2c", ENTRY, "process() has no effect on the caller's settings: every call starts from the caller's own FFT request",
              detail=f"{len(tab.stores)} stores in prepare_fft_settings reach only process()'s private copy")
        stores = []
    else:
        stores = tab.stores
        for (func, text), effs in group_effects(prog, entry_writes).items():
            e = effs[0]
            ck.violation("C09.R2c", func, text,
                         f"process() writes the caller's settings ({describe_effect(e)}): the FFT length chosen for these recordings becomes the "
                         f"request of the next call with the same settings object (interleaved calls on longer recordings change later results)",
                         loc=_first_loc(e, func), path=chain_text(e))
    for st in stores:
        okk, nxt = fftlen.idempotent_after(tab, st)
        from ..model import norm_key
        key = norm_key(st.stmt)
        if okk:
            ck.ok("C09.R2c", tab.func.qualname, key, detail=f"stored {st.value}; next call stores {nxt}")
        else:
            ck.violation("C09.R2c", tab.func.qualname, key,
                         f"not repeatable: this call stores n={st.value} (M=max record length, d>0) but the next call "
                         f"with the same records and settings stores n={nxt}",
                         loc=tab.func.loc(st.stmt))


def _first_loc(e, func):
    for st in e.chain:
        if st.func == func:
            return st.loc
    return e.site.loc


def _short(av) -> str:
    t = repr(av)
    return t if len(t) < 120 else t[:117] + "..."
