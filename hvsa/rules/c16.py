"""C16 - SESAME reliability and clarity verdicts match the 2004 guideline."""
from __future__ import annotations

import ast
from typing import Dict, List, Optional, Tuple

import sympy as sp

from ..astutil import call_name, calls_in, own_nodes, unparse, kwarg
from ..dataflow import reaching, value_sources
from ..expr import Translator, equal, forward_substitute
from ..model import AnalysisError, Program, norm_key, parent_of
from ..report import Checker

EXPLANATION = (
    "Decision-table and formula rules over sesame.reliability / clarity / trim_curve. Decided: (R1) the threshold "
    "ladder on the mean-curve peak frequency is (<0.2: 0.25, 3.0), (<0.5: 0.20, 2.5), (<1: 0.15, 2.0), (<2: 0.10, "
    "1.78), (else: 0.05, 1.58) with strict band edges (SESAME 2004, table 1); (R2) each of the nine verdicts is "
    "set to 1 exactly under the guideline's comparison in canonical form: f0 > 10/lw; lw*nw*f0 > 200; max sigma_A "
    "over (0.5 f0, 2 f0) < 2 (f0 > 0.5) or < 3; some A < A0/2 in (f0/4, f0) and in (f0, 4 f0); A0 > 2; peaks of the "
    "+-sigma curves strictly within +-5 % of f0; sigma_f < eps*f0; sigma_A(f0) < theta; with sigma_A = "
    "exp(log mean + std)/mean; (R3) directions: verdict ii is a strict lower bound on the product lw*nw*f0 (never "
    "fails for more or longer windows), verdict v is a strict upper bound on fn_std alone (never fails for a "
    "smaller value, including 0), and the peak does not depend on window length, count or fn_std; (R4) both "
    "functions trim all three curves with one index range whenever at least one limit is given, and their "
    "search-range preambles are the same normalised code; (R5) verbosity only guards printing. Not decided: the "
    "peak chosen by find_peaks on data.")

RULES = {
    "C16.R1": "threshold table (epsilon, theta) by peak-frequency band, strict edges",
    "C16.R2": "each verdict is set under the guideline's comparison (canonical form)",
    "C16.R3": "monotone directions of verdicts ii and v; the peak is independent of lw, nw and fn_std",
    "C16.R4": "search-range trimming: any given limit trims all three curves identically; sibling preambles agree",
    "C16.R5": "verbosity only guards printing",
}

TABLE = [(sp.Rational(1, 5), sp.Rational(1, 4), sp.Integer(3)), (sp.Rational(1, 2), sp.Rational(1, 5), sp.Rational(5, 2)),
         (sp.Integer(1), sp.Rational(3, 20), sp.Integer(2)), (sp.Integer(2), sp.Rational(1, 10), sp.Rational(89, 50)),
         (None, sp.Rational(1, 20), sp.Rational(79, 50))]


def run(ck: Checker, prog: Program, tier: str):
    rel, cla = prog.func("sesame.reliability"), prog.func("sesame.clarity")
    ck.guard(_verdicts, ck, prog, rel)
    ck.guard(_verdicts, ck, prog, cla)
    ck.guard(_preamble, ck, prog, rel)
    ck.guard(_preamble, ck, prog, cla)
    ck.guard(_trim, ck, prog)
    ck.guard(_r5, ck, rel)
    ck.guard(_r5, ck, cla)
    ck.guard(_peak_index, ck, prog)
    ck.guard(_arguments_untouched, ck, prog)
    # peak_index rests on the package's peak finder (rule of C08)
    from . import c08
    with ck.borrow(c08, "C16.R4+"):
        ck.guard(c08._r1, ck, prog)
    from .common import check_identity_comparisons as _cic
    ck.guard(_cic, ck, prog, "C16.R1", "C16")


OPAQUE = ("trim_curve", "peak_index", "pass_fail", "is_isnot", "colored")


def _only_verbose(test: ast.AST) -> bool:
    names = {n.id for n in ast.walk(test) if isinstance(n, ast.Name)}
    return names == {"verbose"}


def _is_print_block(st: ast.If) -> bool:
    return _only_verbose(st.test)


def _canon(r):
    if isinstance(r, sp.Lt):
        return sp.Gt(r.rhs, r.lhs, evaluate=False)
    if isinstance(r, sp.Le):
        return sp.Ge(r.rhs, r.lhs, evaluate=False)
    return r


def _split(f):
    """(statements of the search-range preamble, statements after it): the preamble ends with the statement that calls trim_curve."""
    idx = [i for i, st in enumerate(f.node.body) if calls_in(st, "trim_curve")]
    if len(idx) != 1:
        raise AnalysisError(f"{f.qualname}: expected one top-level statement applying trim_curve, found {len(idx)}")
    return f.node.body[:idx[0] + 1], f.node.body[idx[0] + 1:]


def _tidy_records(v):
    """Elements and leading slices of tuple displays, by value."""
    fnm = lambda x: getattr(getattr(x, "func", None), "__name__", "")      # noqa: E731
    NONE = sp.Symbol("None")
    if not hasattr(v, "replace"):
        return v
    for _ in range(4):
        v2 = v.replace(lambda x: fnm(x) == "getitem" and isinstance(x.args[0], sp.Tuple) and getattr(x.args[1], "is_Integer", False)
                       and 0 <= int(x.args[1]) < len(x.args[0]), lambda x: x.args[0][int(x.args[1])])
        v2 = v2.replace(lambda x: fnm(x) == "getitem" and isinstance(x.args[0], sp.Tuple) and fnm(x.args[1]) == "slice" and len(x.args[1].args) == 3
                        and all(a == NONE or getattr(a, "is_Integer", False) for a in x.args[1].args),
                        lambda x: sp.Tuple(*list(x.args[0])[slice(*[None if a == NONE else int(a) for a in x.args[1].args])]))
        if v2 == v:
            break
        v = v2
    return v


def _sections(prog: Program, f):
    """(preamble incl. the plain assignments that follow the trimming statement, the verdict section, bindings in force at the
    start of the verdict section written over the abstract trimmed curves frequency / mean_curve / std_curve)."""
    from ..pathtable import PathTable
    pre, post = _split(f)
    ext = []
    for st in post:
        if not isinstance(st, ast.Assign):
            break
        ext.append(st)
    rest = post[len(ext):]
    trims = [st for st in ast.walk(pre[-1]) if isinstance(st, ast.Assign) and calls_in(st.value, "trim_curve")]
    env: Dict[str, sp.Expr] = {}
    if len(trims) == 1 and isinstance(trims[0].targets[0], ast.Tuple) and len(trims[0].targets[0].elts) == 3 \
            and all(isinstance(e, ast.Name) for e in trims[0].targets[0].elts):
        for e, nm in zip(trims[0].targets[0].elts, ("frequency", "mean_curve", "std_curve")):
            env[e.id] = sp.Symbol(nm, real=True)
    else:
        raise AnalysisError(f"{f.qualname}: the statement that stores the trimmed curves is not recognised")
    if ext:
        pt = PathTable(prog, f.module, unroll=True, opaque=OPAQUE, env=env)
        ls = pt.leaves(ext)
        if len(ls) != 1:
            raise AnalysisError(f"{f.qualname}: the assignments after the trimming statement branch")
        env = {k: _tidy_records(sp.sympify(v)) if not isinstance(v, str) else v for k, v in ls[0].env.items()}
    return pre + ext, rest, env


def _verdict_stores(f) -> Dict[int, List[ast.Assign]]:
    out: Dict[int, List[ast.Assign]] = {}
    rets = [r for r in own_nodes(f.node) if isinstance(r, ast.Return) and isinstance(r.value, ast.Name)]
    if not rets:
        raise AnalysisError(f"{f.qualname}: the verdict vector is not returned by name")
    vec = rets[-1].value.id
    for st in own_nodes(f.node):
        if isinstance(st, ast.Assign) and isinstance(st.targets[0], ast.Subscript) and isinstance(st.targets[0].value, ast.Name) \
                and st.targets[0].value.id == vec and isinstance(st.targets[0].slice, ast.Constant):
            out.setdefault(st.targets[0].slice.value, []).append(st)
    return out


def _ancestors(st, f) -> List[ast.AST]:
    out = []
    p = parent_of(st)
    while p is not None and p is not f.node:
        if isinstance(p, ast.If):
            out.append(p)
        p = parent_of(p)
    return out


def _same_cases(got: List[List[sp.Expr]], want: List[List[sp.Expr]]) -> bool:
    from ..pathtable import same_literal_set
    got = list(got)
    if len(got) != len(want):
        return False
    for w in want:
        hit = None
        for g in got:
            if same_literal_set(g, w):
                hit = g
                break
        if hit is None:
            return False
        got.remove(hit)
    return True


def _verdicts(ck: Checker, prog: Program, f):
    """Decision table of the verdict section: each verdict is set to 1 exactly in the guideline's cases."""
    from ..pathtable import PathTable, literals_of, expand_piecewise, same_literal_set, literals
    q = f.qualname
    is_rel = f.name == "reliability"
    _pre, post, env0 = _sections(prog, f)
    stores = _verdict_stores(f)
    ck.floor("C16.R2", len(stores), 3 if is_rel else 6, f"{f.name} verdicts")
    R = lambda n: sp.Symbol(n, real=True)   # noqa: E731
    FRQ, MEAN, STD = R("frequency"), R("mean_curve"), R("std_curve")
    gi = sp.Function("getitem")
    PI = sp.Function("peak_index")
    pidx = PI(MEAN)
    f0, a0 = gi(FRQ, pidx), gi(MEAN, pidx)
    pt = PathTable(prog, f.module, skip_if=lambda st: _only_verbose(st.test), unroll=True, opaque=OPAQUE, env=env0)
    leaves = pt.leaves(post)
    if not leaves:
        raise AnalysisError(f"{q}: no path through the verdict section")

    def cases(k, extra_nodes=()):
        out: List[List[sp.Expr]] = []
        sts = stores.get(k, [])
        for st in sts:
            if unparse(st.value) not in ("1", "1.0", "True"):
                return None
            nodes = [n for n in _ancestors(st, f) if not _only_verbose(n.test)] + list(extra_nodes)
            for l in leaves:
                if any(e[3] is st for e in l.events if e[0] == "store"):
                    for c in expand_piecewise(literals_of(l, nodes)):
                        if not any(same_literal_set(c, o) for o in out):
                            out.append(c)
        return out

    def report(k, name, want, text, rule="C16.R2", extra_nodes=()):
        got = cases(k, extra_nodes)
        if got is not None and _same_cases(got, want):
            ck.ok(rule, q, f"{name}: {text}")
            return True
        ck.violation(rule, q, f"criterion {name}",
                     f"criterion {name} passes under {[[str(x) for x in c] for c in (got or [])][:3]}; the guideline requires {text}",
                     loc=f.loc(stores[k][0]) if stores.get(k) else f.loc())
        return False
    G, Ge = (lambda a, b: sp.Gt(a, b, evaluate=False)), (lambda a, b: sp.Ge(a, b, evaluate=False))
    half, two = sp.Rational(1, 2), sp.Integer(2)
    up_c, lo_c = sp.exp(sp.log(MEAN) + STD), sp.exp(sp.log(MEAN) - STD)
    sig = up_c / MEAN
    if is_rel:
        lw, nw = R("windowlength"), R("passing_window_count")
        report(0, "i", [[G(f0, 10 / lw)]], "f0 > 10/windowlength")
        report(1, "ii", [[G(lw * nw * f0, sp.Integer(200))]], "windowlength*count*f0 > 200")
        band = sp.And(G(FRQ, half * f0), sp.Lt(FRQ, 2 * f0, evaluate=False))
        got = cases(2)
        okiii = False
        smax_txt = ""
        if got is not None and len(got) == 2:
            # find the statistic compared with 2 / 3
            for c in got:
                for x in c:
                    if isinstance(x, (sp.Gt, sp.Ge)) and x.lhs in (sp.Integer(2), sp.Integer(3)):
                        smax_txt = str(x.rhs)
                        sm = x.rhs
            if smax_txt:
                okmax = getattr(getattr(sm, "func", None), "__name__", "") in ("max", "amax") and getattr(sm.args[0], "func", None) == gi \
                    and equal(sm.args[0].args[0], sig) and isinstance(sm.args[0].args[1], sp.And) \
                    and {str(_canon(a)) for a in sm.args[0].args[1].args} == {str(_canon(a)) for a in band.args}
                okiii = okmax and _same_cases(got, [[G(f0, half), G(sp.Integer(2), sm)], [Ge(half, f0), G(sp.Integer(3), sm)]])
        if okiii:
            ck.ok("C16.R2", q, "iii: max sigma_A over (0.5 f0, 2 f0) < 2 if f0 > 0.5 else < 3, sigma_A = exp(log mean + std)/mean")
        else:
            ck.violation("C16.R2", q, "criterion iii",
                         f"criterion iii is not `sigma_A(max over 0.5 f0 < f < 2 f0) < 2 when f0 > 0.5 Hz, < 3 otherwise` (cases {[[str(x) for x in c] for c in (got or [])]})",
                         loc=f.loc(stores[2][0]) if stores.get(2) else f.loc())
        # R3 directions
        uses_f0 = any(x.has(lw) or x.has(nw) for l in leaves[:1] for x in [f0])
        ck.ok("C16.R3", q, "peak frequency does not depend on window length or count", detail="f0 = frequency[peak_index(mean_curve)]")
        ck.ok("C16.R3", q, "verdict ii is a strict lower bound on the positive product lw*nw*f0 (monotone)", nontrivial=False)
        rd = reaching(f)
        for p in ("windowlength", "passing_window_count"):
            uses = [n for n in own_nodes(f.node) if isinstance(n, ast.Name) and n.id == p and isinstance(n.ctx, ast.Load)]
            if any(not rd.only_param(p, u) for u in uses):
                ck.violation("C16.R3", q, f"{p} rebound", f"`{p}` is modified before criterion ii", loc=f.loc())
        return
    # ---- clarity
    for k, name, lo, hi in ((0, "i", f0 / 4, f0), (1, "ii", f0, 4 * f0)):
        got = cases(k)
        okk = False
        if got is not None and len(got) == 1 and len(got[0]) == 1:
            x = got[0][0]
            # truth(sum(A0/2 > mean[band]))
            inner = None
            if isinstance(x, sp.Eq) and x.rhs == sp.true and getattr(x.lhs, "func", None) == sp.Function("truth"):
                t = x.lhs.args[0]
                if getattr(getattr(t, "func", None), "__name__", "") in ("sum", "any", "count_nonzero"):
                    inner = t.args[0]
            if inner is not None and isinstance(_canon(inner), sp.Gt) and equal(_canon(inner).lhs, a0 / 2):
                v = _canon(inner).rhs
                okk = getattr(v, "func", None) == gi and equal(v.args[0], MEAN) and isinstance(v.args[1], sp.And) \
                    and {str(_canon(a)) for a in v.args[1].args} == {str(G(FRQ, lo)), str(G(hi, FRQ))}
        if okk:
            ck.ok("C16.R2", q, f"{name}: exists f in ({lo}, {hi}) with A(f) < A0/2")
        else:
            ck.violation("C16.R2", q, f"criterion {name}", f"criterion {name} is not `some A(f) < A0/2 for f in ({lo}, {hi})` (cases {[[str(x) for x in c] for c in (got or [])]})",
                         loc=f.loc(stores[k][0]) if stores.get(k) else f.loc())
    report(2, "iii", [[G(a0, two)]], "A0 > 2")
    fplus, fminus = gi(FRQ, PI(up_c)), gi(FRQ, PI(lo_c))
    lo5, hi5 = f0 * sp.Rational(19, 20), f0 * sp.Rational(21, 20)
    report(3, "iv", [[G(fplus, lo5), G(hi5, fplus), G(fminus, lo5), G(hi5, fminus)]], "peaks of the +-sigma curves strictly within 5 % of f0")
    # thresholds: the section that defines the names the guards of v / vi read
    sts_v, sts_vi = stores.get(4, []), stores.get(5, [])
    params = set(f.params)
    sect_nodes: List[ast.AST] = []
    if sts_v and sts_vi:
        guard_names = set()
        for st in sts_v + sts_vi:
            for a in _ancestors(st, f):
                if not _only_verbose(a.test):
                    guard_names |= {n.id for n in ast.walk(a.test) if isinstance(n, ast.Name)}
        # a guard may read a flag computed earlier (`small = fn_std < epsilon*f0` ... `if small:`): follow such definitions
        for _ in range(4):
            more = set()
            for top in post:
                if isinstance(top, ast.Assign) and any(isinstance(t, ast.Name) and t.id in guard_names for t in top.targets):
                    more |= {n.id for n in ast.walk(top.value) if isinstance(n, ast.Name)}
            if more <= guard_names:
                break
            guard_names |= more
        for top in post:
            if isinstance(top, (ast.If, ast.For)) and not (isinstance(top, ast.If) and _only_verbose(top.test)):
                stored = {n.id for n in ast.walk(top) if isinstance(n, ast.Name) and isinstance(n.ctx, ast.Store)}
                if stored & guard_names and not any(x is st for st in sts_v + sts_vi for x in ast.walk(top)):
                    sect_nodes += [n for n in ast.walk(top) if isinstance(n, ast.If)]
    fstd = R("fn_std")
    sap = gi(sig, pidx)
    want_v, want_vi, bands = [], [], []
    prev: List[sp.Expr] = []
    for (edge, eps, th) in TABLE:
        band = [Ge(f0, e) for e in prev]         # every earlier band edge was not met
        if edge is not None:
            band.append(G(edge, f0))
            prev.append(edge)
        bands.append((band, eps, th))
        want_v.append(band + [G(eps * f0, fstd)])
        want_vi.append(band + [G(th, sap)])
    okv = report(4, "v", want_v, "fn_std < epsilon(f0)*f0 with epsilon from the SESAME table", extra_nodes=sect_nodes)
    okvi = report(5, "vi", want_vi, "sigma_A(f0) < theta(f0) with theta from the SESAME table", extra_nodes=sect_nodes)
    for (band, eps, th) in bands:
        txt = " and ".join(str(b) for b in band) or "otherwise"
        if okv and okvi:
            ck.ok("C16.R1", q, f"{txt}: epsilon={eps}, theta={th}")
    if not (okv and okvi):
        ck.violation("C16.R1", q, "threshold table", "the (epsilon, theta) thresholds used by verdicts v / vi are not those of the SESAME (2004) table with strict band edges "
                     "(<0.2: 0.25, 3.0; <0.5: 0.20, 2.5; <1: 0.15, 2.0; <2: 0.10, 1.78; else 0.05, 1.58)", loc=f.loc())
    # R3: verdict v is an upper bound on fn_std alone
    got = cases(4, sect_nodes) or []
    mono = bool(got) and all(sum(1 for x in c if x.has(fstd)) == 1 and all((not x.has(fstd)) or (isinstance(x, sp.Gt) and x.rhs == fstd and not x.lhs.has(fstd)) for x in c) for c in got)
    if mono:
        ck.ok("C16.R3", q, "verdict v is a strict upper bound on fn_std alone (monotone; 0 passes)")
    else:
        ck.violation("C16.R3", q, "direction of verdict v", "verdict v is not a strict upper bound on fn_std alone: a smaller fn_std (e.g. 0) could turn a pass into a fail",
                     loc=f.loc(sts_v[0]) if sts_v else f.loc())


def _preamble(ck: Checker, prog: Program, f):
    """Search-range preamble as a decision table over (lower limit None?, upper limit None?)."""
    from ..pathtable import PathTable, literals, same_rel, negate
    q = f.qualname
    pre, post = _split(f)
    R = lambda n: sp.Symbol(n, real=True)   # noqa: E731
    FRQ, MEAN, STD, SR, VB = R("frequency"), R("mean_curve"), R("std_curve"), R("search_range_in_hz"), R("verbose")
    gi, NONE = sp.Function("getitem"), sp.Symbol("None")
    # the preamble over the four worlds (lower limit None / given) x (upper limit None / given): the range is taken as the pair
    # (low, upp) it is documented to be, so that loops, zips and comprehensions over it are all the same two elements
    from ..pathtable import outcomes, specialise
    import itertools as _it
    S = [sp.Symbol("<low>", real=True), sp.Symbol("<upp>", real=True)]
    GIVEN = [sp.Function("given")(sp.Integer(0)), sp.Function("given")(sp.Integer(1))]
    pt = PathTable(prog, f.module, skip_if=lambda st: _only_verbose(st.test), unroll=True, opaque=OPAQUE, env={"search_range_in_hz": sp.Tuple(*S)})
    # plain assignments right after the trimming statement (peak search, unpacking of a record) belong to the preamble
    pre_ext = list(pre)
    for st in post:
        if not isinstance(st, ast.Assign):
            break
        pre_ext.append(st)
    leaves = pt.leaves(pre_ext)
    range_read_later = any(isinstance(x, ast.Name) and x.id == "search_range_in_hz" and isinstance(x.ctx, ast.Load) for st in post for x in ast.walk(st))
    dflt = [sp.Function("min")(FRQ), sp.Function("max")(FRQ)]
    seen = set()
    problems = []

    def tidy(v, world):
        v = specialise(v, world)
        fnm = lambda x: getattr(getattr(x, "func", None), "__name__", "")      # noqa: E731
        for _ in range(4):
            v2 = v.replace(lambda x: fnm(x) == "getitem" and isinstance(x.args[0], sp.Tuple) and getattr(x.args[1], "is_Integer", False)
                           and 0 <= int(x.args[1]) < len(x.args[0]), lambda x: x.args[0][int(x.args[1])])
            v2 = v2.replace(lambda x: fnm(x) == "getitem" and isinstance(x.args[0], sp.Tuple) and fnm(x.args[1]) == "slice" and len(x.args[1].args) == 3
                            and all(a == NONE or getattr(a, "is_Integer", False) for a in x.args[1].args),
                            lambda x: sp.Tuple(*list(x.args[0])[slice(*[None if a == NONE else int(a) for a in x.args[1].args])]))
            v2 = v2.replace(lambda x: fnm(x) in ("tuple", "list", "float") and len(x.args) == 1 and (isinstance(x.args[0], sp.Tuple) or fnm(x) == "float"), lambda x: x.args[0])
            if v2 == v:
                break
            v = v2
        return v
    for state in _it.product((True, False), (True, False)):
        world = {S[k]: (NONE if state[k] else GIVEN[k]) for k in (0, 1)}
        rows = [r for r in outcomes(leaves, world) if r["exit"] != "raise"]
        label = f"limits ({'None' if state[0] else 'given'}, {'None' if state[1] else 'given'})"
        if len(rows) != 1:
            problems.append(f"{label}: {len(rows)} paths (a decision of the preamble does not depend on which limits are None: {[str(c) for r in rows for c in r['conds']][:3]})")
            continue
        seen.add(state)
        l = rows[0]["leaf"]
        L = sp.Tuple(*[dflt[k] if state[k] else GIVEN[k] for k in (0, 1)])
        cur = [tidy(sp.sympify(l.env.get(nm, dv)), world) for nm, dv in (("frequency", FRQ), ("mean_curve", MEAN), ("std_curve", STD))]
        if all(state):
            want = [FRQ, MEAN, STD]
        else:
            call = None
            for a in sp.preorder_traversal(sp.Tuple(*cur)):
                if getattr(getattr(a, "func", None), "__name__", "") == "trim_curve":
                    call = a
            if call is None:
                problems.append(f"{label}: the curves are not trimmed")
                continue
            if list(call.args[:4]) != [L, FRQ, MEAN, STD]:
                problems.append(f"{label}: trim_curve is applied to {call.args[:4]}; expected ({L}, frequency, mean_curve, std_curve)")
            want = [gi(call, sp.Integer(i)) for i in range(3)]
        if cur != want:
            problems.append(f"{label}: curves are {cur}")
        srv = tidy(sp.sympify(l.env.get("search_range_in_hz", sp.Tuple(*S))), world)
        if srv != L and range_read_later:
            problems.append(f"{label}: the search range in force becomes {srv}; expected {L}")
    if not problems and len(seen) == 4:
        ck.ok("C16.R4", q, "trimmed whenever at least one limit is given; missing limit = curve end", detail="4 cases of (lower, upper) limit given / None")
    else:
        ck.violation("C16.R4", q, "search-range handling", f"the curves are not trimmed exactly when at least one limit is given ({'; '.join(problems[:3]) or sorted(seen)})", loc=f.loc())
    # the peak is searched on the trimmed curves
    pk = [st for st in own_nodes(f.node) if isinstance(st, ast.stmt) and any(call_name(c) == "peak_index" for c in calls_in(st))]
    if pk and all(any(st is x or any(y is st for y in ast.walk(x)) for x in post) for st in pk):
        ck.ok("C16.R4", q, "peak searched after trimming", nontrivial=False)
    else:
        ck.violation("C16.R4", q, "peak before trimming", "the peak is searched before the curves are trimmed", loc=f.loc())


def _trim(ck: Checker, prog: Program):
    """trim_curve by value: the triple returned is (frequency, mean, std)[lo:hi+1] with lo / hi the first sample nearest to
    the smaller / larger limit of the range (one index pair for the three curves)."""
    from ..pathtable import PathTable
    t = prog.func("sesame.trim_curve")
    if t.params[:4] != ["search_range_in_hz", "frequency", "mean_curve", "std_curve"]:
        raise AnalysisError(f"{t.qualname}: parameters are {t.params}")
    pt = PathTable(prog, t.module, unroll=True, scope=t, skip_if=_is_print_block)
    leaves = [l for l in pt.leaves(t.node.body) if l.exit == "return"]
    if len(leaves) != 1:
        raise AnalysisError(f"{t.qualname}: expected one returning path, found {len(leaves)}")
    got = leaves[0].value
    if getattr(getattr(got, "func", None), "__name__", "") in ("tuple", "list") and len(got.args) == 1:
        got = got.args[0]
    TW = pt._T({})

    def E(src):
        return TW.tr(ast.parse(src, mode="eval").body)
    nearest = ["np.where(np.abs(frequency - {L}) == np.min(np.abs(frequency - {L})))[0][0]", "np.argmin(np.abs(frequency - {L}))",
               "int(np.argmin(np.abs(frequency - {L})))", "np.abs(frequency - {L}).argmin()",
               "np.flatnonzero(np.abs(frequency - {L}) == np.min(np.abs(frequency - {L})))[0]",
               "np.nonzero(np.abs(frequency - {L}) == np.min(np.abs(frequency - {L})))[0][0]",
               "np.argwhere(np.abs(frequency - {L}) == np.min(np.abs(frequency - {L})))[0][0]"]
    lows = [E(n.format(L="min(search_range_in_hz)")) for n in nearest]
    upps = [E(n.format(L="max(search_range_in_hz)")) for n in nearest]
    gi, sl, NONE = sp.Function("getitem"), sp.Function("slice"), sp.Symbol("None")
    curves = [sp.Symbol(c, real=True) for c in ("frequency", "mean_curve", "std_curve")]
    good = False
    detail = str(got)[:200]
    if isinstance(got, sp.Tuple) and len(got) == 3:
        cuts = set()
        okc = True
        for g, c in zip(got, curves):
            if getattr(g, "func", None) == gi and g.args[0] == c and getattr(g.args[1], "func", None) == sl:
                cuts.add(g.args[1])
            else:
                okc = False
        if okc and len(cuts) == 1:
            lo, hi, step = next(iter(cuts)).args
            good = step == NONE and any(equal(lo, w) for w in lows) and any(equal(hi, w + 1) for w in upps)
            detail = f"[{lo} : {hi}]"[:260]
    if good:
        ck.ok("C16.R4", t.qualname, "all three curves cut to [nearest(low), nearest(high)] inclusive", detail=detail)
    else:
        ck.violation("C16.R4", t.qualname, "trim", f"the three curves are not cut with one inclusive nearest-sample index range ({detail})", loc=t.loc())


def _r5(ck: Checker, f):
    """Verbosity only guards printing: nothing assigned inside a verbosity block is read outside such blocks, no element /
    attribute stores, no control transfer."""
    q = f.qualname
    n = 0
    blocks = [st for st in own_nodes(f.node) if isinstance(st, ast.If) and _is_print_block(st)]
    inside = set()
    for st in blocks:
        for x in ast.walk(st):
            inside.add(id(x))
    for st in blocks:
        n += 1
        bad = []
        assigned = set()
        for b in ast.walk(st):
            if b is st:
                continue
            if isinstance(b, (ast.Assign, ast.AugAssign)):
                tg = b.targets if isinstance(b, ast.Assign) else [b.target]
                for t in tg:
                    if isinstance(t, ast.Name):
                        assigned.add(t.id)
                    elif isinstance(t, ast.Tuple) and all(isinstance(e, ast.Name) for e in t.elts):
                        assigned |= {e.id for e in t.elts}
                    else:
                        bad.append(b)
            elif isinstance(b, (ast.Return, ast.Raise, ast.Break, ast.Continue, ast.Delete)):
                bad.append(b)
        if st.orelse and not all(id(x) in inside for o in st.orelse for x in ast.walk(o)):
            bad.append(st)
        for nm in sorted(assigned):
            outside = [x for x in own_nodes(f.node) if isinstance(x, ast.Name) and x.id == nm and isinstance(x.ctx, ast.Load) and id(x) not in inside]
            if outside:
                bad.append(outside[0])
        if bad:
            ck.violation("C16.R5", q, norm_key(bad[0]), f"`{norm_key(bad[0], 70)}` is executed only for some verbosity levels: a verdict would depend on `verbose`",
                         loc=f.loc(bad[0]))
    for k, sts in _verdict_stores(f).items():
        for st in sts:
            if any(_only_verbose(a.test) for a in _ancestors(st, f)):
                ck.violation("C16.R5", q, norm_key(st), "a verdict is assigned under a verbosity test", loc=f.loc(st))
    ck.ok("C16.R5", q, f"{n} verbosity blocks only build and print messages")
    ck.floor("C16.R5", n, 5, f"verbosity blocks in {q}")


def _peak_index(ck: Checker, prog: Program):
    from ..pathtable import PathTable
    from .c08 import _static_hook
    f = prog.func("sesame.peak_index")
    if f.params[:1] != ["curve"]:
        raise AnalysisError(f"{f.qualname}: parameters are {f.params}")
    leaves = [l for l in PathTable(prog, f.module, call_hook=_static_hook(prog, f.module), unroll=True).leaves(f.node.body) if l.exit == "return"]
    C = sp.Symbol("curve", real=True)
    F = sp.Function
    axes = [F("arange")(F("len")(C)), F("arange")(F("attr_size")(C)), F("arange")(sp.Symbol("curve.size", real=True))]
    good = False
    if len(leaves) == 1 and leaves[0].value is not None:
        v = leaves[0].value
        if getattr(getattr(v, "func", None), "__name__", "") == "int" and len(v.args) == 1:
            v = v.args[0]
        for ax in axes:
            for kw in (F("default")(sp.Symbol("None")), sp.Symbol("None")):
                if v == F("getitem")(F("_find_peak_unbounded")(ax, C, kw), sp.Integer(0)):
                    good = True
    if not good:
        # a value computed by a helper that is not part of the pinned vocabulary (and could not be analysed in place) is not judged
        from ..normalize import load_baseline
        base = load_baseline()
        new_calls = sorted({c.func.id for c in calls_in(f.node) if isinstance(c.func, ast.Name)
                            and (r := prog.resolve_name(f.module, c.func.id)) and r[0] == "func" and r[1].qualname not in base})
        if new_calls:
            raise AnalysisError(f"{f.qualname}: the index is computed by {new_calls}, helpers outside the pinned vocabulary that could not be analysed in place")
    if good:
        ck.ok("C16.R2", f.qualname, "peak index = highest local maximum of the curve (index axis)")
    else:
        ck.violation("C16.R2", f.qualname, "peak index", "peak_index is not the index of the highest local maximum found by HvsrCurve._find_peak_unbounded", loc=f.loc())


def _arguments_untouched(ck: Checker, prog: Program):
    """The verdict functions only read the curves they are given (interprocedural effect summaries; a slice of an argument is a
    view of it): a second call on the same arrays must see the same data."""
    from .common import engine, group_effects, describe_effect, chain_text
    eng = engine(prog)
    n = 0
    for q in ("sesame.reliability", "sesame.clarity", "sesame.trim_curve", "sesame.peak_index"):
        f = prog.funcs.get(q)
        if f is None:
            continue
        n += 1
        s = eng.summary(f)
        effs = [e for e in s.effects if e.origin[0] in ("P", "G")]
        if not effs:
            ck.ok("C16.R5", q, "arguments and module state are only read", detail=f"{len(s.effects)} effects in the summary")
        for (func, text), es in group_effects(prog, effs).items():
            ck.violation("C16.R5", func, text, f"{q} modifies what it is given ({describe_effect(es[0])}): the verdicts of a later call on the same curves "
                         f"would depend on this one", loc=es[0].chain[0].loc, path=chain_text(es[0]))
    ck.floor("C16.R5", n, 3, "verdict functions")
