"""C16 - SESAME reliability and clarity verdicts match the 2004 guideline."""
from __future__ import annotations

import ast
from typing import Dict, List, Optional, Tuple

import sympy as sp

from ..astutil import call_name, calls_in, own_nodes, unparse, kwarg
from ..dataflow import reaching, value_sources
from ..expr import Translator, equal, forward_substitute
from ..model import AnalysisError, Program, norm_key, parent_of
from ..report import Checker

EXPLANATION = (
    "Decision-table and formula rules over sesame.reliability / clarity / trim_curve. Decided: (R1) the threshold "
    "ladder on the mean-curve peak frequency is (<0.2: 0.25, 3.0), (<0.5: 0.20, 2.5), (<1: 0.15, 2.0), (<2: 0.10, "
    "1.78), (else: 0.05, 1.58) with strict band edges (SESAME 2004, table 1); (R2) each of the nine verdicts is "
    "set to 1 exactly under the guideline's comparison in canonical form: f0 > 10/lw; lw*nw*f0 > 200; max sigma_A "
    "over (0.5 f0, 2 f0) < 2 (f0 > 0.5) or < 3; some A < A0/2 in (f0/4, f0) and in (f0, 4 f0); A0 > 2; peaks of the "
    "+-sigma curves strictly within +-5 % of f0; sigma_f < eps*f0; sigma_A(f0) < theta; with sigma_A = "
    "exp(log mean + std)/mean; (R3) directions: verdict ii is a strict lower bound on the product lw*nw*f0 (never "
    "fails for more or longer windows), verdict v is a strict upper bound on fn_std alone (never fails for a "
    "smaller value, including 0), and the peak does not depend on window length, count or fn_std; (R4) both "
    "functions trim all three curves with one index range whenever at least one limit is given, and their "
    "search-range preambles are the same normalised code; (R5) verbosity only guards printing. Not decided: the "
    "peak chosen by find_peaks on data.")

RULES = {
    "C16.R1": "threshold table (epsilon, theta) by peak-frequency band, strict edges",
    "C16.R2": "each verdict is set under the guideline's comparison (canonical form)",
    "C16.R3": "monotone directions of verdicts ii and v; the peak is independent of lw, nw and fn_std",
    "C16.R4": "search-range trimming: any given limit trims all three curves identically; sibling preambles agree",
    "C16.R5": "verbosity only guards printing",
}

TABLE = [(sp.Rational(1, 5), sp.Rational(1, 4), sp.Integer(3)), (sp.Rational(1, 2), sp.Rational(1, 5), sp.Rational(5, 2)),
         (sp.Integer(1), sp.Rational(3, 20), sp.Integer(2)), (sp.Integer(2), sp.Rational(1, 10), sp.Rational(89, 50)),
         (None, sp.Rational(1, 20), sp.Rational(79, 50))]


def run(ck: Checker, prog: Program, tier: str):
    rel, cla = prog.func("sesame.reliability"), prog.func("sesame.clarity")
    ck.guard(_r1, ck, cla)
    ck.guard(_reliability, ck, rel)
    ck.guard(_clarity, ck, cla)
    ck.guard(_r4, ck, prog, rel, cla)
    ck.guard(_r5, ck, rel)
    ck.guard(_r5, ck, cla)
    ck.guard(_peak_index, ck, prog)


def _is_print_block(st: ast.If) -> bool:
    return isinstance(st.test, ast.Compare) and unparse(st.test.left) == "verbose"


def _canon(r):
    if isinstance(r, sp.Lt):
        return sp.Gt(r.rhs, r.lhs, evaluate=False)
    if isinstance(r, sp.Le):
        return sp.Ge(r.rhs, r.lhs, evaluate=False)
    return r


def _same_rel(r, kind, lhs, rhs) -> bool:
    r = _canon(r)
    return type(r) is kind and equal(r.lhs, lhs) and equal(r.rhs, rhs)


def _r1(ck: Checker, cla):
    q = cla.qualname
    ladders = [st for st in cla.node.body if isinstance(st, ast.If) and "mc_peak_frq <" in unparse(st.test) and
               any(isinstance(b, ast.Assign) and unparse(b.targets[0]) == "epsilon" for b in st.body)]
    if len(ladders) != 1:
        raise AnalysisError(f"{q}: threshold ladder not found")
    rows = []
    cur = ladders[0]
    T = Translator()
    f0 = T.sym("mc_peak_frq")
    while True:
        vals = {unparse(b.targets[0]): T.tr(b.value) for b in cur.body if isinstance(b, ast.Assign)}
        t = T.tr(cur.test)
        edge = t.rhs if isinstance(t, sp.Lt) and equal(t.lhs, f0) else ("not strict <" if isinstance(t, (sp.Le,)) else None)
        rows.append((edge, vals.get("epsilon"), vals.get("theta"), cur))
        if len(cur.orelse) == 1 and isinstance(cur.orelse[0], ast.If):
            cur = cur.orelse[0]
        else:
            vals = {unparse(b.targets[0]): T.tr(b.value) for b in cur.orelse if isinstance(b, ast.Assign)}
            rows.append((None, vals.get("epsilon"), vals.get("theta"), cur))
            break
    if len(rows) != len(TABLE):
        ck.violation("C16.R1", q, "threshold table", f"{len(rows)} bands found, the guideline has {len(TABLE)}", loc=cla.loc(ladders[0]))
        return
    for (edge, eps, th, node), (wedge, weps, wth) in zip(rows, TABLE):
        band = f"f0 < {wedge}" if wedge is not None else "otherwise"
        good = (edge == wedge if wedge is not None else edge is None) and eps is not None and th is not None and equal(eps, weps) and equal(th, wth)
        if good:
            ck.ok("C16.R1", q, f"{band}: epsilon={weps}, theta={wth}")
        else:
            ck.violation("C16.R1", q, f"band {band}",
                         f"band `{band}` is coded as (edge {edge}, epsilon {eps}, theta {th}); SESAME (2004) gives (f0 < {wedge}, {float(weps)}, {float(wth)}) with strict band edges",
                         loc=cla.loc(node))


def _verdict_blocks(f) -> Dict[int, ast.If]:
    """criteria[k] = 1 assignments -> the `if` that directly guards them (outermost non-verbose)."""
    out = {}
    for st in own_nodes(f.node):
        if isinstance(st, ast.Assign) and isinstance(st.targets[0], ast.Subscript) and unparse(st.targets[0].value) == "criteria" \
                and isinstance(st.targets[0].slice, ast.Constant):
            k = st.targets[0].slice.value
            out.setdefault(k, []).append(st)
    return out


def _guards(st: ast.AST, f) -> List[Tuple[ast.AST, bool]]:
    """[(test, branch truth)] from the statement outwards to function level."""
    out = []
    child, p = st, parent_of(st)
    while p is not None and p is not f.node:
        if isinstance(p, ast.If):
            out.append((p.test, child in p.body))
        child, p = p, parent_of(p)
    return out[::-1]


def _common_env(f) -> Translator:
    T = Translator()
    top = [st for st in f.node.body if isinstance(st, ast.Assign) and not (isinstance(st.targets[0], ast.Subscript))]
    # skip the search-range preamble (handled by R4)
    top = [st for st in top if unparse(st.targets[0]) not in ("limits", "limits_were_both_none", "search_range_in_hz", "criteria")
           and "trim_curve" not in unparse(st.value)]
    forward_substitute(top, T)
    return T


def _reliability(ck: Checker, f):
    q = f.qualname
    T = _common_env(f)
    blocks = _verdict_blocks(f)
    ck.floor("C16.R2", len(blocks), 3, "reliability verdicts")
    f0 = T.tr(ast.parse("frequency[peak_index(mean_curve)]", mode="eval").body)
    got_f0 = T.env.get("mc_peak_frq")
    if got_f0 is not None and equal(got_f0, f0):
        ck.ok("C16.R2", q, "f0 = frequency[peak_index(mean_curve)]")
    else:
        ck.violation("C16.R2", q, "peak frequency", f"f0 is {got_f0}, expected frequency at the peak index of the mean curve", loc=f.loc())
    lw, nw = T.sym("windowlength"), T.sym("passing_window_count")
    # i
    _expect_single(ck, f, T, blocks, 0, "i", [(sp.Gt, f0, 10 / lw)], "f0 > 10/windowlength")
    # ii
    _expect_single(ck, f, T, blocks, 1, "ii", [(sp.Gt, lw * nw * f0, sp.Integer(200))], "windowlength*count*f0 > 200")
    # iii
    mean, std, frq = T.sym("mean_curve"), T.sym("std_curve"), T.sym("frequency")
    sig = sp.exp(sp.log(mean) + std) / mean
    g = sp.Function("getitem")
    band = sp.And(sp.Gt(frq, sp.Rational(1, 2) * f0, evaluate=False), sp.Lt(frq, 2 * f0, evaluate=False))
    smax = T.env.get("sigma_a_max")
    okmax = False
    if smax is not None and smax.is_Function and smax.func.__name__ in ("max", "amax") and smax.args[0].func.__name__ == "getitem":
        base, mask = smax.args[0].args
        okmax = equal(base, sig) and isinstance(mask, sp.And) and {str(_canon(a)) for a in mask.args} == {str(_canon(a)) for a in band.args}
    if okmax:
        ck.ok("C16.R2", q, "sigma_A max over (0.5 f0, 2 f0), sigma_A = exp(log mean + std)/mean")
    else:
        ck.violation("C16.R2", q, "sigma_A over the band", f"sigma_a_max is {smax}; expected max of exp(log(mean)+std)/mean over 0.5 f0 < f < 2 f0", loc=f.loc())
    sts = blocks.get(2, [])
    verdicts = []
    for st in sts:
        gs = [(T.tr(t), tr) for (t, tr) in _guards(st, f) if "verbose" not in unparse(t)]
        verdicts.append(gs)
    sm = T.sym("sigma_a_max")
    want = [[(sp.Gt, f0, sp.Rational(1, 2), True), (sp.Gt, sp.Integer(2), smax if smax is not None else sm, True)],
            [(sp.Gt, f0, sp.Rational(1, 2), False), (sp.Gt, sp.Integer(3), smax if smax is not None else sm, True)]]
    good = len(verdicts) == 2
    if good:
        for gs, w in zip(sorted(verdicts, key=lambda g: not g[0][1]), want):
            good = good and len(gs) == 2 and all(_same_rel(r, k, l, rr) and truth == tv for (r, truth), (k, l, rr, tv) in zip(gs, w))
    if good:
        ck.ok("C16.R2", q, "iii: sigma_A < 2 if f0 > 0.5 else sigma_A < 3")
    else:
        ck.violation("C16.R2", q, "criterion iii", "criterion iii is not `sigma_A(max) < 2 when f0 > 0.5 Hz, < 3 otherwise`", loc=f.loc(sts[0]) if sts else f.loc())
    # R3 directions: f0 independent of lw / nw
    srcs, _ = value_sources(f, ast.parse("mc_peak_frq", mode="eval").body, [st for st in f.node.body if isinstance(st, ast.Assign) and unparse(st.targets[0]) == "criteria"][0])
    if not ({"windowlength", "passing_window_count"} & srcs):
        ck.ok("C16.R3", q, "peak frequency does not depend on window length or count", detail=f"sources {sorted(srcs)}")
        ck.ok("C16.R3", q, "verdict ii is a strict lower bound on the positive product lw*nw*f0 (monotone)", nontrivial=False)
    else:
        ck.violation("C16.R3", q, "peak depends on window parameters", f"f0 depends on {sorted(srcs)}", loc=f.loc())
    rd = reaching(f)
    for p in ("windowlength", "passing_window_count"):
        uses = [n for n in own_nodes(f.node) if isinstance(n, ast.Name) and n.id == p and isinstance(n.ctx, ast.Load)]
        if any(not rd.only_param(p, u) for u in uses):
            ck.violation("C16.R3", q, f"{p} rebound", f"`{p}` is modified before criterion ii", loc=f.loc())


def _expect_single(ck, f, T, blocks, k, name, want, text, rule="C16.R2"):
    q = f.qualname
    sts = blocks.get(k, [])
    if len(sts) != 1:
        ck.violation(rule, q, f"criterion {name}", f"criterion {name} is set at {len(sts)} places", loc=f.loc())
        return
    gs = [(T.tr(t), tr) for (t, tr) in _guards(sts[0], f) if "verbose" not in unparse(t)]
    good = len(gs) == len(want) and all(truth and _same_rel(r, kd, l, rr) for (r, truth), (kd, l, rr) in zip(gs, want)) \
        and unparse(sts[0].value) == "1"
    if good:
        ck.ok(rule, q, f"{name}: {text}")
    else:
        ck.violation(rule, q, f"criterion {name}", f"criterion {name} passes under {[str(g[0]) for g in gs]}; the guideline requires {text}", loc=f.loc(sts[0]))


def _clarity(ck: Checker, f):
    q = f.qualname
    T = _common_env(f)
    blocks = _verdict_blocks(f)
    ck.floor("C16.R2", len(blocks), 6, "clarity verdicts")
    mean, std, frq = T.sym("mean_curve"), T.sym("std_curve"), T.sym("frequency")
    g = sp.Function("getitem")
    pidx = T.tr(ast.parse("peak_index(mean_curve)", mode="eval").body)
    f0, a0 = g(frq, pidx), g(mean, pidx)
    for nm, want in (("mc_peak_frq", f0), ("mc_peak_amp", a0)):
        if T.env.get(nm) is not None and equal(T.env[nm], want):
            ck.ok("C16.R2", q, f"{nm} = {want}")
        else:
            ck.violation("C16.R2", q, nm, f"`{nm}` is {T.env.get(nm)}, expected {want}", loc=f.loc())
    # i, ii: existence of A < A0/2 in (f0/4, f0) and (f0, 4 f0)
    for k, name, var, lo, hi in ((0, "i", "a_low", f0 / 4, f0), (1, "ii", "a_high", f0, 4 * f0)):
        v = T.env.get(var)
        okband = False
        if v is not None and v.is_Function and v.func.__name__ == "getitem" and equal(v.args[0], mean) and isinstance(v.args[1], sp.And):
            okband = {str(_canon(a)) for a in v.args[1].args} == {str(sp.Gt(frq, lo, evaluate=False)), str(sp.Gt(hi, frq, evaluate=False))}
        sts = blocks.get(k, [])
        oktest = False
        if len(sts) == 1 and v is not None:
            gs = [(T.tr(t), tr) for (t, tr) in _guards(sts[0], f) if "verbose" not in unparse(t)]
            if len(gs) == 1 and gs[0][1]:
                t = gs[0][0]
                inner = t.args[0] if t.is_Function and t.func.__name__ in ("sum", "any") else None
                oktest = inner is not None and _same_rel(inner, sp.Gt, a0 / 2, v)
        if okband and oktest:
            ck.ok("C16.R2", q, f"{name}: exists f in ({lo}, {hi}) with A(f) < A0/2")
        else:
            ck.violation("C16.R2", q, f"criterion {name}", f"criterion {name} is not `some A(f) < A0/2 for f in ({lo}, {hi})` (band ok: {okband}, test ok: {oktest})",
                         loc=f.loc(sts[0]) if sts else f.loc())
    _expect_single(ck, f, T, blocks, 2, "iii", [(sp.Gt, a0, sp.Integer(2))], "A0 > 2")
    # iv
    up, lo_c = sp.exp(sp.log(mean) + std), sp.exp(sp.log(mean) - std)
    pk = sp.Function("peak_index")
    fplus, fminus = g(frq, pk(up)), g(frq, pk(lo_c))
    c1, c2 = T.env.get("cond_1"), T.env.get("cond_2")

    def within(c, fx):
        if not isinstance(c, sp.And):
            return False
        return {str(_canon(a)) for a in c.args} == {str(sp.Gt(fx, f0 * sp.Rational(19, 20), evaluate=False)), str(sp.Gt(f0 * sp.Rational(21, 20), fx, evaluate=False))}
    sts = blocks.get(3, [])
    gs = [(unparse(t), tr) for (t, tr) in _guards(sts[0], f) if "verbose" not in unparse(t)] if len(sts) == 1 else []
    if c1 is not None and c2 is not None and within(c1, fplus) and within(c2, fminus) and gs == [("cond_1 and cond_2", True)]:
        ck.ok("C16.R2", q, "iv: peaks of the +-sigma curves strictly within 5 % of f0")
    else:
        ck.violation("C16.R2", q, "criterion iv", f"criterion iv conditions are {c1} / {c2} under {gs}; expected 0.95 f0 < f+- < 1.05 f0 for both curves",
                     loc=f.loc(sts[0]) if sts else f.loc())
    # v
    eps, fstd = T.sym("epsilon"), T.sym("fn_std")
    _expect_single(ck, f, T, blocks, 4, "v", [(sp.Gt, eps * f0, fstd)], "fn_std < epsilon*f0")
    sts5 = blocks.get(4, [])
    if len(sts5) == 1:
        gs = [(T.tr(t), tr) for (t, tr) in _guards(sts5[0], f) if "verbose" not in unparse(t)]
        only_upper = len(gs) == 1 and isinstance(_canon(gs[0][0]), sp.Gt) and equal(_canon(gs[0][0]).rhs, fstd) and not _canon(gs[0][0]).lhs.has(fstd)
        if only_upper:
            ck.ok("C16.R3", q, "verdict v is a strict upper bound on fn_std alone (monotone; 0 passes)")
        else:
            ck.violation("C16.R3", q, "direction of verdict v", f"verdict v is guarded by {[str(x[0]) for x in gs]}: a smaller fn_std (e.g. 0) could turn a pass into a fail",
                         loc=f.loc(sts5[0]))
    srcs, _ = value_sources(f, ast.parse("mc_peak_frq", mode="eval").body, sts5[0] if sts5 else f.node.body[-1])
    if "fn_std" in srcs:
        ck.violation("C16.R3", q, "peak depends on fn_std", "f0 depends on fn_std", loc=f.loc())
    # vi
    sig = up / mean
    sap = T.env.get("sigma_a_peak")
    th = T.sym("theta")
    if sap is not None and equal(sap, g(sig, pidx)):
        ck.ok("C16.R2", q, "sigma_A(f0) = (exp(log mean + std)/mean)[peak index]")
    else:
        ck.violation("C16.R2", q, "sigma_A at the peak", f"sigma_a_peak is {sap}; expected sigma_A at the mean-curve peak index", loc=f.loc())
    _expect_single(ck, f, T, blocks, 5, "vi", [(sp.Gt, th, sap if sap is not None else T.sym("sigma_a_peak"))], "sigma_A(f0) < theta")
    # the thresholds used in v / vi come from the ladder (defined after the ladder only)
    rd = reaching(f)
    for nm in ("epsilon", "theta"):
        uses = [n for n in own_nodes(f.node) if isinstance(n, ast.Name) and n.id == nm and isinstance(n.ctx, ast.Load)]
        defs = {id(d) for u in uses for d in rd.def_stmts(nm, u)}
        if len(defs) != 5:
            ck.violation("C16.R1", q, f"{nm} definitions", f"`{nm}` used by the verdicts has {len(defs)} reaching definitions; expected the 5 table rows", loc=f.loc())


def _r4(ck: Checker, prog: Program, rel, cla):
    def preamble(f):
        out = []
        for st in f.node.body:
            t = norm_key(st, 400)
            if isinstance(st, ast.Assign) and unparse(st.targets[0]) in ("limits", "limits_were_both_none", "search_range_in_hz"):
                out.append(st)
            elif isinstance(st, ast.For) and "search_range_in_hz" in unparse(st.iter):
                out.append(st)
            elif isinstance(st, ast.If) and "trim_curve" in unparse(st):
                out.append(st)
        return out
    pr, pc = preamble(rel), preamble(cla)
    tr_, tc_ = [ast.dump(s) for s in pr], [ast.dump(s) for s in pc]
    if tr_ == tc_ and pr:
        ck.ok("C16.R4", "sesame.reliability|clarity", "search-range preambles are identical code", detail=f"{len(pr)} statements")
    else:
        diff = [norm_key(a, 90) for a, b in zip(pr, pc) if ast.dump(a) != ast.dump(b)][:2]
        ck.violation("C16.R4", "sesame.reliability|clarity", "sibling preambles",
                     f"reliability and clarity treat the search range differently (first differing statement: {diff}): the two functions would judge different peaks",
                     loc=rel.loc(pr[0]) if pr else rel.loc())
    for f in (rel, cla):
        q = f.qualname
        p = preamble(f)
        loops = [s for s in p if isinstance(s, ast.For)]
        ifs = [s for s in p if isinstance(s, ast.If)]
        good = False
        detail = ""
        if len(loops) == 1 and len(ifs) == 1:
            lp = loops[0]
            it_ok = unparse(lp.iter) == "zip(search_range_in_hz, [min(frequency), max(frequency)])" and unparse(lp.target) == "(limit, default)"
            b = lp.body
            sel = b[0] if len(b) == 1 and isinstance(b[0], ast.If) else None
            body_ok = sel is not None and unparse(sel.test) == "limit is None" and [unparse(x) for x in sel.body] == ["limits.append(default)"] \
                and [unparse(x) for x in sel.orelse] == ["limits.append(float(limit))", "limits_were_both_none = False"]
            init_ok = any(isinstance(s, ast.Assign) and unparse(s.targets[0]) == "limits_were_both_none" and unparse(s.value) == "True" for s in p)
            trim = ifs[0]
            trim_ok = unparse(trim.test) == "not limits_were_both_none" and not trim.orelse and len(trim.body) == 1 and isinstance(trim.body[0], ast.Assign) \
                and unparse(trim.body[0].targets[0]) == "(frequency, mean_curve, std_curve)" \
                and [unparse(a) for a in trim.body[0].value.args] == ["search_range_in_hz", "frequency", "mean_curve", "std_curve"]
            good = it_ok and body_ok and init_ok and trim_ok
            detail = f"loop {it_ok}, default/float handling {body_ok}, flag init {init_ok}, trim when any limit given {trim_ok}"
        if good:
            ck.ok("C16.R4", q, "trimmed whenever at least one limit is given; missing limit = curve end", detail=detail)
        else:
            ck.violation("C16.R4", q, "search-range handling", f"the curves are not trimmed exactly when at least one limit is given ({detail})", loc=f.loc())
        # the peak is searched on the trimmed curves: peak_index call comes after the preamble
        pk = [st for st in f.node.body if isinstance(st, ast.Assign) and unparse(st.targets[0]) == "mc_peak_index"]
        if pk and p and pk[0].lineno > max(s.lineno for s in p):
            ck.ok("C16.R4", q, "peak searched after trimming", nontrivial=False)
        else:
            ck.violation("C16.R4", q, "peak before trimming", "the peak is searched before the curves are trimmed", loc=f.loc())
    t = prog.func("sesame.trim_curve")
    T = Translator()
    forward_substitute([st for st in t.node.body if isinstance(st, ast.Assign)], T)
    sl = {}
    for st in t.node.body:
        if isinstance(st, ast.Assign) and isinstance(st.value, ast.Subscript) and unparse(st.targets[0]) in ("frequency", "mean_curve", "std_curve"):
            sl[unparse(st.targets[0])] = (unparse(st.value.value), unparse(st.value.slice))
    rets = [r for r in own_nodes(t.node) if isinstance(r, ast.Return)]
    good = sl == {k: (k, "lower_index:upper_index") for k in ("frequency", "mean_curve", "std_curve")} and len(rets) == 1 \
        and unparse(rets[0].value) == "(frequency, mean_curve, std_curve)"
    idx_ok = False
    for st in t.node.body:
        pass
    d = {unparse(st.targets[0]): unparse(st.value) for st in t.node.body if isinstance(st, ast.Assign)}
    idx_ok = d.get("lower_index") == "np.where(rel_frq_low == np.min(rel_frq_low))[0][0]" and d.get("upper_index") == "np.where(rel_frq_upp == np.min(rel_frq_upp))[0][0] + 1" \
        and d.get("rel_frq_low") == "np.abs(frequency - low_limit)" and d.get("rel_frq_upp") == "np.abs(frequency - upp_limit)" \
        and d.get("(low_limit, upp_limit)") == "(min(search_range_in_hz), max(search_range_in_hz))"
    if good and idx_ok:
        ck.ok("C16.R4", t.qualname, "all three curves cut to [nearest(low), nearest(high)] inclusive")
    else:
        ck.violation("C16.R4", t.qualname, "trim", f"the three curves are not cut with one inclusive nearest-sample index range (slices {sl}; indices ok: {idx_ok})", loc=t.loc())


def _r5(ck: Checker, f):
    q = f.qualname
    n = 0
    for st in own_nodes(f.node):
        if isinstance(st, ast.If) and _is_print_block(st):
            n += 1
            bad = []
            for b in ast.walk(st):
                if b is st:
                    continue
                if isinstance(b, ast.Assign):
                    if unparse(b.targets[0]) not in ("msg", "overall"):
                        bad.append(b)
                elif isinstance(b, ast.AugAssign):
                    if unparse(b.target) != "msg":
                        bad.append(b)
                elif isinstance(b, (ast.Return, ast.Raise, ast.Break, ast.Continue, ast.Delete)):
                    bad.append(b)
            if st.orelse:
                bad.append(st)
            if bad:
                ck.violation("C16.R5", q, norm_key(bad[0]), f"`{norm_key(bad[0], 70)}` is executed only for some verbosity levels: a verdict would depend on `verbose`",
                             loc=f.loc(bad[0]))
    # verdict assignments are not inside verbose blocks
    for k, sts in _verdict_blocks(f).items():
        for st in sts:
            if any("verbose" in unparse(t) for (t, _tr) in _guards(st, f)):
                ck.violation("C16.R5", q, norm_key(st), "a verdict is assigned under a verbosity test", loc=f.loc(st))
    ck.ok("C16.R5", q, f"{n} verbosity blocks only build and print messages")
    ck.floor("C16.R5", n, 5, f"verbosity blocks in {q}")


def _peak_index(ck: Checker, prog: Program):
    f = prog.func("sesame.peak_index")
    d = [st for st in f.node.body if isinstance(st, ast.Assign)]
    rets = [r for r in own_nodes(f.node) if isinstance(r, ast.Return)]
    good = len(d) == 1 and unparse(d[0].value) == "HvsrCurve._find_peak_unbounded(np.arange(len(curve)), curve)" \
        and isinstance(d[0].targets[0], ast.Tuple) and len(rets) == 1 and unparse(rets[0].value) == unparse(d[0].targets[0].elts[0])
    if good:
        ck.ok("C16.R2", f.qualname, "peak index = highest local maximum of the curve (index axis)")
    else:
        ck.violation("C16.R2", f.qualname, "peak index", "peak_index is not the index of the highest local maximum found by HvsrCurve._find_peak_unbounded", loc=f.loc())
