"""C06 - frequency-domain window rejection follows Cox et al. (2020) and terminates."""
from __future__ import annotations

import ast
from typing import Dict, List, Optional

import sympy as sp

from ..astutil import call_name, calls_in, own_nodes, unparse, kwarg, bind_call
from ..cfg import cfg_of
from ..dataflow import reaching
from ..effects import reachable_functions
from ..expr import Translator, equal, forward_substitute
from ..model import AnalysisError, Program, norm_key, parent_of
from ..report import Checker
from .common import engine, pkg_call_hook
from . import statscommon as S

EXPLANATION = (
    "CFG, call-graph, def-use and formula rules over window_rejection.frequency_domain_window_rejection and its "
    "inner routine. Decided: (R1) every CFG path of the inner routine to a normal exit ends in `return <value>` "
    "(no fall-through returning None); (R2) returns inside the loop return the iteration counter, the return "
    "after the loop returns the iteration limit; (R3) the iteration loop is `for c in range(1, max_iterations+1)` "
    "whose variable is not reassigned, and no `while` loop or recursion is reachable from the entry point in the "
    "package call graph (termination, at most max_iterations iterations); (R4) every store to a mask element in "
    "the rejection loop is dominated by the test that the element of the peak mask is currently true, and the "
    "element written is the one examined (never re-accepts); (R5) both masks change together; (R6) the criterion "
    "in canonical form: bounds nth_std_fn_frequency(-n / +n, distribution_fn) with strict inequalities, "
    "before/after statistics mean_fn_frequency, std_fn_frequency (distribution_fn) and mean_curve_peak "
    "(distribution_mc), convergence = |d_after - d_before|/d_before < 0.01 and |sigma_after - sigma_before| < 0.01, "
    "zero guard, every argument of the entry point forwarded under its own name, peak search on entry through "
    "the object itself - a search that, with the default find_peaks arguments, no path of update_peaks_bounded can skip - "
    "result = maximum over azimuths. Not decided: invariance under window order and amplitude "
    "rescaling (depends on find_peaks and summation order); equality of decisions with an independent "
    "implementation on data.")

RULES = {
    "C06.R1": "every path of the inner routine returns a value (no fall-through)",
    "C06.R2": "returned value = iteration counter inside the loop, iteration limit after it",
    "C06.R3": "bounded: for-range loop over 1..max_iterations, variable not reassigned, no while/recursion reachable",
    "C06.R4": "mask element stores are dominated by the test that the element is currently accepted; same index",
    "C06.R5": "both accept masks are written together",
    "C06.R6": "criterion, convergence test, argument forwarding and azimuthal maximum have the published form",
}

OUTER = "window_rejection.frequency_domain_window_rejection"
INNER = "window_rejection._frequency_domain_window_rejection"


def run(ck: Checker, prog: Program, tier: str):
    inner, outer = prog.func(INNER), prog.func(OUTER)
    ck.guard(_r1_r2_r3, ck, prog, inner, outer)
    ck.guard(_r4_r5, ck, prog, inner)
    ck.guard(_r6_inner, ck, prog, inner)
    ck.guard(_r6_outer, ck, prog, inner, outer)
    ck.guard(S.check_alias_discipline, ck, prog, "C06.R4", floor=3)
    ck.guard(_entry_state, ck, prog, outer)
    # the peaks the criterion reads: found per window with the caller's range and find_peaks arguments, for every azimuth; and the
    # statistics it compares are the stated estimators (rules of C08 and C05)
    from . import c08, c05
    with ck.borrow(c08, "C06.R6+"):
        ck.guard(c08._r2, ck, prog)
        ck.guard(c08._r4, ck, prog)
    with ck.borrow(c05, "C06.R6+"):
        ck.guard(S.check_estimators, ck, prog, "C05.R3")
    # "for every ... search range": the range is turned into index bounds as C08 states; and the statistics the criterion reads
    # are recomputed from the masks of the moment (accessors keep no cache on the object - rule of C20/C05)
    from . import c20
    with ck.borrow(c08, "C06.R6+"):
        ck.guard(c08._r1, ck, prog)
        ck.guard(c08._members_private, ck, prog)      # the decisions written are those of this object: members are private copies
    with ck.borrow(c20, "C06.R6+"):
        ck.guard(c20._read_only, ck, prog)
    with ck.borrow(c05, "C06.R4+"):
        ck.guard(S.check_mask_properties, ck, prog, "C05.R1")
    from .common import check_identity_comparisons as _cic
    ck.guard(_cic, ck, prog, "C06.R1", "C06")


def _iteration_loop(inner) -> ast.For:
    loops = [st for st in inner.node.body if isinstance(st, ast.For)]
    if len(loops) != 1:
        raise AnalysisError(f"{INNER}: expected one top-level iteration loop, found {len(loops)}")
    return loops[0]


def _r1_r2_r3(ck: Checker, prog: Program, inner, outer):
    for st in ast.walk(inner.node):
        if isinstance(st, ast.While):
            ck.violation("C06.R3", INNER, norm_key(st),
                         "the iterations are driven by a `while` loop: the number of iterations is not bounded by construction "
                         "(expected `for c in range(1, max_iterations + 1)`)", loc=inner.loc(st))
    cfg = cfg_of(inner)
    falls = cfg.falls_off_end()
    if falls:
        path = cfg.path_avoiding(cfg.entry, falls[0], []) or []
        ck.violation("C06.R1", INNER, "falls off the end",
                     "a path reaches the end of the function without `return`: the caller receives None instead of an iteration count "
                     "(e.g. when the iteration limit is reached)", loc=inner.loc(), path=cfg.describe_path(path + [cfg.exit])[-8:])
    else:
        ck.ok("C06.R1", INNER, f"{len(cfg.return_nodes())} return statements cover every path to the exit")
    bare = [cfg.ast_of(n) for n in cfg.return_nodes() if cfg.ast_of(n).value is None or
            (isinstance(cfg.ast_of(n).value, ast.Constant) and cfg.ast_of(n).value.value is None)]
    for b in bare:
        ck.violation("C06.R1", INNER, norm_key(b), "returns None instead of an iteration count", loc=inner.loc(b))
    loop = _iteration_loop(inner)
    lv = loop.target.id if isinstance(loop.target, ast.Name) else None
    # R2
    for n in cfg.return_nodes():
        r = cfg.ast_of(n)
        if r in bare:
            continue
        inside = any(x is r for x in ast.walk(loop))
        v = unparse(r.value)
        if inside and v == lv:
            ck.ok("C06.R2", INNER, norm_key(r), detail="inside the loop: returns the iteration counter")
        elif not inside and v in ("max_iterations", lv):
            ck.ok("C06.R2", INNER, norm_key(r), detail="after the loop: returns the iteration limit")
        else:
            ck.violation("C06.R2", INNER, norm_key(r),
                         f"returns `{v}` {'inside' if inside else 'after'} the iteration loop; the number of iterations performed is "
                         f"`{lv if inside else 'max_iterations'}`", loc=inner.loc(r))
    # R3
    it = loop.iter
    T = Translator()
    good = isinstance(it, ast.Call) and call_name(it) == "range" and len(it.args) == 2 and equal(T.tr(it.args[0]), sp.Integer(1)) \
        and equal(T.tr(it.args[1]), T.sym("max_iterations") + 1)
    alt = isinstance(it, ast.Call) and call_name(it) == "range" and len(it.args) == 1 and equal(T.tr(it.args[0]), T.sym("max_iterations"))
    rd = reaching(inner)
    if (good or alt) and rd.only_param("max_iterations", loop):
        ck.ok("C06.R3", INNER, norm_key(loop), detail="exactly max_iterations iterations at most")
        if alt:
            ck.violation("C06.R2", INNER, norm_key(loop), "the loop counts from 0: the counter returned is one less than the iterations performed", loc=inner.loc(loop))
    else:
        ck.violation("C06.R3", INNER, norm_key(loop), "the iteration loop is not `for c in range(1, max_iterations + 1)`", loc=inner.loc(loop))
    for st in ast.walk(loop):
        if st is not loop and isinstance(st, (ast.Assign, ast.AugAssign, ast.For)):
            tg = st.targets if isinstance(st, ast.Assign) else [st.target]
            for t in tg:
                if any(isinstance(x, ast.Name) and x.id in (lv, "max_iterations") for x in ast.walk(t)):
                    ck.violation("C06.R3", INNER, norm_key(st), "the iteration counter or limit is reassigned inside the loop", loc=inner.loc(st))
    eng = engine(prog)
    reach = reachable_functions(eng, outer)
    ck.floor("C06.R3", len(reach), 10, "functions reachable from the entry point")
    whiles = []
    for q in sorted(reach):
        f = prog.funcs.get(q)
        if f is None:
            continue
        for st in ast.walk(f.node):
            if isinstance(st, ast.While):
                whiles.append((f, st))
    if OUTER in {b for (a, b) in eng.call_edges if a in reach}:
        ck.violation("C06.R3", OUTER, "recursion", "the rejection routine is reachable from itself", loc=outer.loc())
    if not whiles:
        ck.ok("C06.R3", OUTER, f"no while loop in the {len(reach)} reachable package functions", detail=", ".join(sorted(reach))[:300])
    for f, st in whiles:
        ck.violation("C06.R3", f.qualname, norm_key(st), "an unbounded `while` loop is reachable from the rejection routine", loc=f.loc(st))


def _mask_elem_stores(node) -> List[ast.Assign]:
    out = []
    for st in ast.walk(node):
        if isinstance(st, ast.Assign) and isinstance(st.targets[0], ast.Subscript) and isinstance(st.targets[0].value, ast.Attribute) \
                and st.targets[0].value.attr in S.MASKS:
            out.append(st)
    return out


def _rejection_loop(inner) -> ast.For:
    loop = _iteration_loop(inner)
    cands = [st for st in loop.body if isinstance(st, ast.For) and _mask_elem_stores(st)]
    if len(cands) != 1:
        raise AnalysisError(f"{INNER}: expected one per-window loop with mask stores inside the iteration loop, found {len(cands)}")
    return cands[0]


def _rejection_step(inner):
    """("loop", per-window loop) or ("vector", [mask stores at iteration level])."""
    loop = _iteration_loop(inner)
    cands = [st for st in loop.body if isinstance(st, ast.For) and _mask_elem_stores(st)]
    vec = [st for st in loop.body if isinstance(st, ast.Assign) and st in _mask_elem_stores(st)]
    if len(cands) == 1 and not vec:
        return "loop", cands[0]
    if not cands and vec:
        return "vector", vec
    raise AnalysisError(f"{INNER}: rejection step not recognised ({len(cands)} per-window loop(s), {len(vec)} vector store(s))")


EP = sp.Function("epoch")


def _iteration_table(prog: Program, inner):
    """Decision table of one iteration; calls on `hvsr` are tagged with the number of mask updates that precede them."""
    from ..pathtable import PathTable
    loop = _iteration_loop(inner)
    cls = prog.cls("HvsrTraditional")
    base = pkg_call_hook(prog, inner.module, cls, self_name="hvsr")
    kind, step = _rejection_step(inner)
    step_ids = {id(step)} if kind == "loop" else {id(x) for x in step}
    pt = PathTable(prog, inner.module)

    def hook(call, T):
        r = base(call, T)
        if r is None:
            return None
        if isinstance(call.func, ast.Attribute) and isinstance(call.func.value, ast.Name) and call.func.value.id == "hvsr":
            leaf = getattr(pt, "cur_leaf", None)
            n = 0
            if leaf is not None:
                n = 1 if any(id(e[3]) in step_ids for e in leaf.events) else 0
            return r.func(*r.args, EP(sp.Integer(n)))
        return r
    pt.user_hook = hook
    leaves = pt.leaves(loop.body)
    return loop, kind, step, leaves


def _loop_bindings(rl: ast.For):
    """(index variable, {name: attribute of hvsr it iterates}) for enumerate/zip/range headers."""
    idx, binds = None, {}
    it, tgt = rl.iter, rl.target

    def bind(t, src):
        if isinstance(t, ast.Name) and isinstance(src, ast.Attribute) and isinstance(src.value, ast.Name) and src.value.id == "hvsr":
            binds[t.id] = src.attr
    if isinstance(it, ast.Call) and call_name(it) == "enumerate" and isinstance(tgt, ast.Tuple) and len(tgt.elts) == 2:
        idx = unparse(tgt.elts[0])
        inner_it, inner_t = it.args[0], tgt.elts[1]
        if isinstance(inner_it, ast.Call) and call_name(inner_it) == "zip" and isinstance(inner_t, ast.Tuple):
            for a, t in zip(inner_it.args, inner_t.elts):
                bind(t, a)
        else:
            bind(inner_t, inner_it)
    elif isinstance(it, ast.Call) and call_name(it) == "range" and isinstance(tgt, ast.Name):
        idx = tgt.id
    elif isinstance(it, ast.Call) and call_name(it) == "zip" and isinstance(tgt, ast.Tuple):
        for a, t in zip(it.args, tgt.elts):
            bind(t, a)
    return idx, binds


def _r4_r5(ck: Checker, prog: Program, inner):
    kind, step = _rejection_step(inner)
    if kind == "vector":
        _r4_r5_vector(ck, prog, inner, step)
        S.check_mask_lockstep(ck, prog, "C06.R5", modules=("window_rejection",), floor=6)
        return
    rl = step
    idx, binds = _loop_bindings(rl)
    if idx is None:
        raise AnalysisError(f"{INNER}: the per-window loop has no recognisable index variable")
    valid_names = {n for n, a in binds.items() if a == "valid_peak_boolean_mask"}
    valid_exprs = valid_names | {f"hvsr.valid_peak_boolean_mask[{idx}]"}
    peak_names = {n for n, a in binds.items() if a == "_main_peak_frq"} | {f"hvsr._main_peak_frq[{idx}]"}
    cfg = cfg_of(inner)
    idom = cfg.dominators()
    guards = []
    for st in ast.walk(rl):
        if isinstance(st, ast.If) and not st.orelse and any(isinstance(b, ast.Continue) for b in st.body):
            t = st.test
            neg = None
            if isinstance(t, ast.UnaryOp) and isinstance(t.op, ast.Not):
                neg = unparse(t.operand)
            elif isinstance(t, ast.Compare) and isinstance(t.comparators[0], ast.Constant) and t.comparators[0].value is False:
                neg = unparse(t.left)
            if neg in valid_exprs:
                guards.append(st)
    stores = _mask_elem_stores(rl)
    ck.floor("C06.R4", len(stores), 2, "mask element stores in the rejection loop")
    for st in stores:
        key = norm_key(st)
        same_idx = unparse(st.targets[0].slice) == idx and unparse(st.targets[0].value.value) == "hvsr"
        if not same_idx:
            ck.violation("C06.R4", INNER, key, f"the mask element written is `{unparse(st.targets[0].slice)}`, not the examined window `{idx}`", loc=inner.loc(st))
            continue
        stores_false = isinstance(st.value, ast.Constant) and st.value.value is False
        protected = False
        snode = cfg.node(st)
        for g in guards:
            gnode = cfg.node(g)
            cont = [cfg.node(b) for b in g.body if isinstance(b, ast.Continue)][0]
            if cfg.dominates(gnode, snode, idom) and not cfg.exists_path_avoiding(cont, snode, [cfg.node(rl)]):
                protected = True
        p = parent_of(st)
        child = st
        while p is not None and p is not rl:
            if isinstance(p, ast.If) and child in p.body:
                conj = [unparse(v) for v in p.test.values] if isinstance(p.test, ast.BoolOp) and isinstance(p.test.op, ast.And) else [unparse(p.test)]
                if any(c in valid_exprs for c in conj):
                    protected = True
            child, p = p, parent_of(p)
        if protected:
            ck.ok("C06.R4", INNER, key, detail=f"only reached for windows whose peak-mask entry is currently true; index {idx}")
        elif stores_false:
            ck.ok("C06.R4", INNER, key, detail="stores False (cannot re-accept)", nontrivial=False)
        else:
            ck.violation("C06.R4", INNER, key,
                         "this store can set the mask of a window that is currently rejected: a rejected window whose peak lies inside the "
                         "new bounds would be re-accepted (the store is not dominated by a test of its valid_peak_boolean_mask entry)",
                         loc=inner.loc(st))
    # the examined peak is the one of the same window
    if not (peak_names & {n.id if isinstance(n, ast.Name) else unparse(n) for t in ast.walk(rl) if isinstance(t, ast.Compare)
                          for n in [t.left] + t.comparators}):
        ck.violation("C06.R4", INNER, "examined peak", "the acceptance test does not examine the peak frequency of the window whose mask is written",
                     loc=inner.loc(rl))
    # R5 lock-step restricted to this module
    S.check_mask_lockstep(ck, prog, "C06.R5", modules=("window_rejection",), floor=8)


def _bounds(leaf_env_value):
    return leaf_env_value


def _vector_facts(prog: Program, inner):
    """For the vectorised rejection step: (leaves, stores as (mask attr, index value, stored value, stmt))."""
    loop, kind, step, leaves = _iteration_table(prog, inner)
    l = leaves[0]
    out = []
    for e in l.events:
        if e[0] == "store" and id(e[3]) in l.store_at:
            base, idx = l.store_at[id(e[3])]
            out.append((str(base), idx, e[2], e[3]))
    return leaves, out


def _r4_r5_vector(ck: Checker, prog: Program, inner, stores):
    leaves, facts = _vector_facts(prog, inner)
    PK = sp.Symbol("hvsr.valid_peak_boolean_mask", real=True)
    cand = [sp.Function("flatnonzero")(PK), sp.Function("getitem")(sp.Function("where")(PK), sp.Integer(0)), sp.Function("getitem")(sp.Function("nonzero")(PK), sp.Integer(0)), PK]
    masks = {}
    for base, idx, val, st in facts:
        if not base.startswith("hvsr.valid_"):
            continue
        masks[base] = (idx, val, st)
        if idx in cand:
            ck.ok("C06.R4", INNER, norm_key(st), detail="only entries whose peak-mask value is currently true are written")
        else:
            ck.violation("C06.R4", INNER, norm_key(st),
                         f"this store writes mask entries {idx}: entries of windows that are currently rejected can be set (re-accepted)", loc=inner.loc(st))
    ck.floor("C06.R4", len(masks), 2, "mask stores of the rejection step")
    vals = {str(v[1]) for v in masks.values()}
    idxs = {str(v[0]) for v in masks.values()}
    if set(masks) == {"hvsr.valid_window_boolean_mask", "hvsr.valid_peak_boolean_mask"} and len(vals) == 1 and len(idxs) == 1:
        ck.ok("C06.R5", INNER, "both masks receive the same decisions for the same windows")
    else:
        ck.violation("C06.R5", INNER, "mask stores of the rejection step", f"the two accept masks are not given the same decisions for the same windows ({sorted(masks)})", loc=inner.loc(stores[0]))


def _canon(r):
    if isinstance(r, sp.Lt):
        return sp.Gt(r.rhs, r.lhs, evaluate=False)
    if isinstance(r, sp.Le):
        return sp.Ge(r.rhs, r.lhs, evaluate=False)
    return r


def _r6_inner(ck: Checker, prog: Program, inner):
    from ..pathtable import literals, same_rel, negate
    loop, kind, step, leaves = _iteration_table(prog, inner)
    R = lambda n: sp.Symbol(n, real=True)   # noqa: E731
    H, DFN, DMC, N = R("hvsr"), R("distribution_fn"), R("distribution_mc"), R("n")
    gi = sp.Function("getitem")

    def mean(e):
        return sp.Function("mean_fn_frequency")(H, DFN, EP(sp.Integer(e)))

    def std(e):
        return sp.Function("std_fn_frequency")(H, DFN, EP(sp.Integer(e)))

    def mcp(e):
        return gi(sp.Function("mean_curve_peak")(H, DMC, EP(sp.Integer(e))), sp.Integer(0))
    LO = sp.Function("nth_std_fn_frequency")(H, -N, DFN, EP(sp.Integer(0)))
    HI = sp.Function("nth_std_fn_frequency")(H, N, DFN, EP(sp.Integer(0)))
    DB, DA = sp.Abs(mean(0) - mcp(0)), sp.Abs(mean(1) - mcp(1))
    DD, SD = sp.Abs(DA - DB) / DB, sp.Abs(std(1) - std(0))
    tol = sp.Rational(1, 100)
    # ---- acceptance test
    PKF = R("hvsr._main_peak_frq")
    if kind == "vector":
        _leaves, facts = _vector_facts(prog, inner)
        for base, idx, val, st in facts:
            if not base.startswith("hvsr.valid_"):
                continue
            pk = gi(PKF, idx)
            want = sp.And(sp.Gt(pk, LO, evaluate=False), sp.Lt(pk, HI, evaluate=False))
            rels = {(_canon(a).func, str(_canon(a).lhs), str(_canon(a).rhs)) for a in (val.args if isinstance(val, sp.And) else [])}
            wrel = {(_canon(a).func, str(_canon(a).lhs), str(_canon(a).rhs)) for a in want.args}
            if rels == wrel:
                ck.ok("C06.R6", INNER, norm_key(st), detail="keep iff lower_bound < peak < upper_bound (strict), bounds from the statistics before the step")
            else:
                ck.violation("C06.R6", INNER, norm_key(st), f"the decision stored is {val}; expected {want}", loc=inner.loc(st))
    else:
        rl = step
        snap = None
        for l in leaves:
            if id(rl) in l.snaps:
                snap = l.snaps[id(rl)][0]
        if snap is None:
            raise AnalysisError(f"{INNER}: the per-window loop is not reached")
        tests = [st for st in rl.body if isinstance(st, ast.If) and any(isinstance(x, ast.Assign) for x in ast.walk(st))]
        if len(tests) != 1:
            raise AnalysisError(f"{INNER}: acceptance test not found")
        idx_, binds_ = _loop_bindings(rl)
        pk = [n for n, a in binds_.items() if a == "_main_peak_frq"]
        env = {k: v for k, v in snap.items()}
        CP = sp.Symbol("<peak of the window>", real=True)
        if pk:
            env[pk[0]] = CP
        else:
            env[f"hvsr._main_peak_frq[{idx_}]"] = CP
        cond = Translator(env=env).tr(tests[0].test)
        rels = {(_canon(a).func, str(_canon(a).lhs), str(_canon(a).rhs)) for a in (cond.args if isinstance(cond, sp.And) else [])}
        want = {(sp.Gt, str(CP), str(LO)), (sp.Gt, str(HI), str(CP))}
        accept_true = any(isinstance(x, ast.Assign) and isinstance(x.value, ast.Constant) and x.value.value is True for b in tests[0].body for x in ast.walk(b))
        reject_else = any(isinstance(x, ast.Assign) and isinstance(x.value, ast.Constant) and x.value.value is False for b in tests[0].orelse for x in ast.walk(b))
        if rels == want and accept_true and reject_else:
            ck.ok("C06.R6", INNER, norm_key(tests[0]), detail="keep iff lower_bound < peak < upper_bound (strict); bounds = nth_std_fn_frequency(-n / +n, distribution_fn) before the step")
        else:
            ck.violation("C06.R6", INNER, norm_key(tests[0]),
                         f"acceptance test is {cond} (true branch accepts: {accept_true}, else rejects: {reject_else}); expected {LO} < peak < {HI}, strict",
                         loc=inner.loc(tests[0]))
    # ---- convergence: the iteration returns exactly when the zero guard holds or both changes are below 0.01
    rets = [l for l in leaves if l.exit == "return"]
    cont = [l for l in leaves if l.exit != "return" and l.exit != "raise"]
    conv = []
    zero = []
    other = []
    zero_alts = [sp.Eq(DB, 0, evaluate=False), sp.Eq(std(0), 0, evaluate=False), sp.Eq(std(1), 0, evaluate=False)]
    for l in rets:
        lits = literals(l)
        if any(same_rel(x, sp.Gt(tol, DD, evaluate=False)) for x in lits) and any(same_rel(x, sp.Gt(tol, SD, evaluate=False)) for x in lits):
            conv.append(l)
        elif any(same_rel(y, z) for x in lits for y in (x.args if isinstance(x, sp.Or) else [x]) for z in zero_alts):
            zero.append(l)
        else:
            other.append(l)
    if conv and not other:
        ck.ok("C06.R6", INNER, "converged iff |d_after - d_before|/d_before < 0.01 and |std_after - std_before| < 0.01",
              detail=f"d = |mean_fn_frequency - mean_curve_peak[0]|; before/after the rejection step; {len(conv)} converging path(s)")
    else:
        found = [str(literals(l)) for l in (other or rets)][:2]
        ck.violation("C06.R6", INNER, "convergence test",
                     f"an iteration does not return exactly when ({DD} < 0.01) and ({SD} < 0.01): returning paths are guarded by {found}", loc=inner.loc(loop))
    seen_zero = {i for l in zero for i, z in enumerate(zero_alts) if any(same_rel(y, z) for x in literals(l) for y in (x.args if isinstance(x, sp.Or) else [x]))}
    guarded = all(any(same_rel(x, negate(zero_alts[0])) for x in literals(l)) for l in conv)
    if guarded and 0 in seen_zero:
        ck.ok("C06.R6", INNER, "the division by d_before is protected by the zero guard", nontrivial=False)
    else:
        ck.violation("C06.R6", INNER, "zero guard", "the division by diff_before is not protected by the zero guard", loc=inner.loc(loop))
    # a non-returning iteration must have failed the convergence test
    for l in cont:
        lits = literals(l)
        def failed(x):
            if isinstance(x, sp.Not) and isinstance(x.args[0], sp.And):
                parts = list(x.args[0].args)
                return len(parts) == 2 and any(same_rel(a, sp.Gt(tol, DD, evaluate=False)) for a in parts) and any(same_rel(a, sp.Gt(tol, SD, evaluate=False)) for a in parts)
            return same_rel(x, sp.Ge(DD, tol, evaluate=False)) or same_rel(x, sp.Ge(SD, tol, evaluate=False))
        if not any(failed(x) for x in lits):
            ck.violation("C06.R6", INNER, "convergence test", f"an iteration continues although the convergence test holds (path {lits})", loc=inner.loc(loop))
    rd = reaching(inner)
    for p in ("n", "distribution_fn", "distribution_mc", "hvsr"):
        uses = [x for x in ast.walk(loop) if isinstance(x, ast.Name) and x.id == p and isinstance(x.ctx, ast.Load)]
        if any(not rd.only_param(p, u) for u in uses):
            ck.violation("C06.R6", INNER, f"{p} rebound", f"parameter `{p}` is rebound inside the routine", loc=inner.loc())
    # ---- the mean-curve peak honours the object's search range; the peak search does not depend on the amplitude scale
    _peak_search(ck, prog)


def _entry_state(ck: Checker, prog: Program, outer):
    """The algorithm starts from the accept state of the peak search it performs on entry.  The search of a window object can be
    skipped (arguments equal to the remembered ones): with the default find_peaks arguments of the rejection (None) that must be
    impossible - the remembered value is never None - or the rejection has to establish the starting state itself.  (With an
    explicitly given dict equal to the remembered one the search *is* skipped on today's tree; see DESIGN.md, observations.)"""
    from ..pathtable import PathTable, literals, specialise
    from .c08 import _static_hook
    cls = prog.cls("HvsrTraditional")
    m = cls.methods["update_peaks_bounded"]
    kwp = "find_peaks_kwargs"
    if kwp not in m.params or m.defaults().get(kwp) is None or not (isinstance(m.defaults()[kwp], ast.Constant) and m.defaults()[kwp].value is None):
        raise AnalysisError(f"{m.qualname}: default of `{kwp}` is not None")
    od = outer.defaults().get(kwp)
    if not (isinstance(od, ast.Constant) and od.value is None):
        raise AnalysisError(f"{OUTER}: default of `{kwp}` is not None")
    # what the object can remember
    kinds = set()

    def kind_of(v):
        if isinstance(v, ast.IfExp):
            return kind_of(v.body) | kind_of(v.orelse)
        if isinstance(v, ast.Dict) or (isinstance(v, ast.Call) and call_name(v) in ("dict", "copy", "deepcopy")):
            return {"dict"}
        if isinstance(v, ast.Constant):
            return {"none"} if v.value is None else {"text"}
        return {"?" + unparse(v)[:40]}
    n_st = 0
    for mm in cls.methods.values():
        for st in own_nodes(mm.node):
            if isinstance(st, ast.Assign) and any(unparse(t) == "self._find_peaks_kwargs" for t in st.targets):
                kinds |= kind_of(st.value)
                n_st += 1
    if n_st == 0:
        raise AnalysisError(f"{cls.name}: the remembered find_peaks arguments are never stored")
    unknown = [k for k in kinds if k.startswith("?")]
    R = lambda n: sp.Symbol(n, real=True)   # noqa: E731
    KW, SKW, NONE = R(kwp), R("self._find_peaks_kwargs"), sp.Symbol("None")
    leaves = PathTable(prog, m.module, call_hook=_static_hook(prog, m.module), unroll=True).leaves(m.node.body)
    skipping = [l for l in leaves if l.exit != "raise" and not any(e[0] == "loop" for e in l.events)
                and not any(e[0] == "store" and "boolean_mask" in e[1] for e in l.events)]
    feasible = []
    for l in skipping:
        tests = [x for x in literals(l) if SKW in x.free_symbols]
        decided = False
        for x in tests:
            if isinstance(x, sp.Eq):
                other = x.rhs if x.lhs == SKW else x.lhs if x.rhs == SKW else None
                if other is not None and specialise(other, {KW: NONE}) == NONE and "none" not in kinds and not unknown:
                    decided = True          # None == <a dict or a text>: never
        if not decided:
            feasible.append(l)
    resets = [st for st in own_nodes(outer.node) if isinstance(st, (ast.Assign, ast.AugAssign))
              and any("boolean_mask" in unparse(t) for t in (st.targets if isinstance(st, ast.Assign) else [st.target]))]
    if not feasible:
        ck.ok("C06.R6", m.qualname, "with the default find_peaks arguments the peak search on entry is never skipped",
              detail=f"{len(skipping)} skipping path(s), each compares the argument None with a remembered value of kind {sorted(kinds)}")
    elif resets:
        raise AnalysisError(f"{OUTER}: the peak search can be skipped and the routine writes the masks itself; the starting state is not analysed")
    else:
        l = feasible[0]
        ck.violation("C06.R6", m.qualname, "peak search on entry can be skipped",
                     f"with the default arguments of the rejection a path of {m.name} returns without searching (under {l.cond()}; the remembered "
                     f"find_peaks arguments can be {sorted(kinds)}): a second rejection on the same object starts from the windows the first one "
                     f"left, not from every window with a peak", loc=m.loc())


def _peak_search(ck: Checker, prog: Program):
    from ..pathtable import PathTable, literals
    for q in ("hvsr_traditional.HvsrTraditional.mean_curve_peak",):
        m = prog.func(q)
        cs = [c for c in calls_in(m.node) if call_name(c) in ("_find_peak_bounded", "_find_peak_unbounded", "find_peaks")]
        good = len(cs) == 1 and call_name(cs[0]) == "_find_peak_bounded"
        if good:
            g = prog.func("hvsr_curve.HvsrCurve._find_peak_bounded")
            b = bind_call(cs[0], g.params)
            good = unparse(b.get("search_range_in_hz")) == "self._search_range_in_hz" if b.get("search_range_in_hz") is not None else False
        if good:
            ck.ok("C06.R6", q, "the mean-curve peak is searched inside the object's search range")
        else:
            ck.violation("C06.R6", q, "search range of the mean-curve peak",
                         "the peak of the mean curve is not searched with _find_peak_bounded(..., search_range_in_hz=self._search_range_in_hz): "
                         "the convergence criterion would look outside the search range", loc=m.loc())
    AMP = sp.Symbol("amplitude", real=True)
    for q in ("hvsr_curve.HvsrCurve._find_peak_unbounded", "hvsr_curve.HvsrCurve._find_peak_bounded"):
        f = prog.func(q)
        leaves = PathTable(prog, f.module).leaves(f.node.body)
        bad = []
        for l in leaves:
            for x in literals(l):
                y = x.replace(lambda e: getattr(e, "func", None) is not None and getattr(e.func, "__name__", "") in ("find_peaks", "_find_peak_unbounded", "_search_range_to_index_range"),
                              lambda e: sp.Symbol("<peaks>"))
                # positions of extrema do not change when all amplitudes are rescaled by a common positive factor
                y = y.replace(lambda e: getattr(e, "func", None) is not None and getattr(e.func, "__name__", "") in ("argmax", "argmin", "nanargmax", "nanargmin", "argsort"),
                              lambda e: sp.Symbol("<index>"))
                if y.has(AMP):
                    bad.append(x)
        if not bad:
            ck.ok("C06.R6", q, "no decision of the peak search depends on the amplitude values except through find_peaks", detail=f"{len(leaves)} paths")
        else:
            ck.violation("C06.R6", q, f"decision {str(bad[0])[:80]}",
                         f"the peak search decides on `{bad[0]}`, which depends on the absolute amplitude scale: decisions would change when all amplitudes are rescaled",
                         loc=f.loc())


def _r6_outer(ck: Checker, prog: Program, inner, outer):
    """Outer routine as a decision table over the kind of object: which members are examined, what the inner
    routine receives for each, that the peaks are re-evaluated through the object first, and that the value
    returned is the maximum over the members."""
    from ..pathtable import PathTable, literals, holds
    R = lambda n: sp.Symbol(n, real=True)   # noqa: E731
    H = R("hvsr")
    F = sp.Function
    base = pkg_call_hook(prog, outer.module)

    def hook(call, T):
        if isinstance(call.func, ast.Attribute) and call.func.attr == "update_peaks_bounded":
            m = prog.func("hvsr_traditional.HvsrTraditional.update_peaks_bounded")
            b = bind_call(call, m.params, skip_first=True)
            return F("update_peaks_bounded")(T.tr(call.func.value), *[T.tr(b[p]) if p in b else F("default")(sp.Symbol(p)) for p in m.params[1:]])
        return base(call, T)

    pt = PathTable(prog, outer.module, call_hook=hook, unroll=True, structured=True, opaque={inner.name})
    leaves = pt.leaves(outer.node.body)
    tof = F("type_of")(H)
    want_inner = lambda item: F(inner.name)(item, *[R(p) for p in inner.params[1:]])   # noqa: E731
    n_checked = 0
    for kind, members in (("HvsrTraditional", sp.Tuple(H)), ("HvsrAzimuthal", F("attr_hvsrs")(H)), ("<other>", None)):
        live = []
        for l in leaves:
            vals = [holds(x, {tof: sp.Symbol(kind)}) for x in literals(l)]
            # a decision about something else (arguments, state) does not exclude the path: every such path must do the right thing
            if all(v is not False for v in vals):
                live.append(l)
        if not live:
            raise AnalysisError(f"{OUTER}: no path for a {kind} object")
        if len(live) > 8:
            raise AnalysisError(f"{OUTER}: {len(live)} paths for a {kind} object")
        for l in live:
            n_checked += _r6_outer_path(ck, prog, pt, hook, inner, outer, l, kind, members, tof, want_inner, len(live))
    if n_checked < 2:
        raise AnalysisError(f"{OUTER}: kinds of object checked: {n_checked}")


def _r6_outer_path(ck, prog, pt, hook, inner, outer, l, kind, members, tof, want_inner, n_live) -> int:
    from ..pathtable import PathTable, literals, holds
    R = lambda n: sp.Symbol(n, real=True)   # noqa: E731
    H = R("hvsr")
    F = sp.Function
    n_checked = 0
    if True:
        if members is None:
            if l.exit == "raise":
                ck.ok("C06.R6", OUTER, "other objects are refused", nontrivial=False)
            else:
                ck.violation("C06.R6", OUTER, "members", "an object that is neither HvsrTraditional nor HvsrAzimuthal is accepted", loc=outer.loc())
            return 0
        if l.exit != "return":
            ck.violation("C06.R6", OUTER, f"{kind}: no result", f"a {kind} object does not reach the rejection", loc=outer.loc())
            return 0
        # the sweep over the members: a loop whose body calls the inner routine, or a comprehension of such calls
        sweep_pos, got_members, got_call, maximum = None, None, None, False
        ret = sp.sympify(l.value) if l.value is not None else None
        for i, ev in enumerate(l.events):
            if ev[0] == "loop" and isinstance(ev[3], ast.For) and calls_in(ev[3], inner.name):
                loop = ev[3]
                if any(isinstance(x, (ast.Break, ast.Continue, ast.Return)) for x in ast.walk(loop)):
                    ck.violation("C06.R6", OUTER, "loop over azimuths", "the sweep over the members may stop or skip one", loc=outer.loc(loop))
                    return 0
                env0, _ = l.snaps[id(loop)]
                T = pt._T(dict(env0))
                got_members = T.tr(loop.iter)
                if not isinstance(loop.target, ast.Name):
                    raise AnalysisError(f"{OUTER}: loop target")
                item = R("<member>")
                benv = dict(env0)
                for nm in assigned_names_of(loop):
                    benv[nm] = R(nm)
                benv[loop.target.id] = item
                sub = PathTable(prog, outer.module, call_hook=hook, env=benv, unroll=True, structured=True, opaque={inner.name})
                bl = sub.leaves(loop.body)
                mx = ret if ret is not None and ret.is_Symbol else None
                calls, upd = set(), []
                for b in bl:
                    for x in list(b.env.values()) + [e[2] for e in b.events]:
                        for c in sp.sympify(x).atoms(sp.Function) if hasattr(x, "atoms") else ():
                            if c.func.__name__ == inner.name:
                                calls.add(c)
                    if mx is not None:
                        upd.append((literals(b), b.env.get(mx.name)))
                if len(calls) == 1:
                    got_call = next(iter(calls)).subs(item, R("<member>"))
                # running maximum: mx = max(mx, it)   or   if it > mx: mx = it
                if mx is not None and got_call is not None and sp.sympify(env0.get(mx.name)) == 0:
                    it = next(iter(calls))
                    if len(upd) == 1 and upd[0][1] in (sp.Max(mx, it), F("max")(mx, it), F("max")(it, mx)):
                        maximum = True
                    elif len(upd) == 2:
                        by = {True: None, False: None}
                        for lits, v in upd:
                            if len(lits) != 1:
                                break
                            c = lits[0]
                            if equal(c.lhs - c.rhs, it - mx) and isinstance(c, (sp.Gt, sp.Ge)) or equal(c.lhs - c.rhs, mx - it) and isinstance(c, (sp.Lt, sp.Le)):
                                by[True] = v
                            elif equal(c.lhs - c.rhs, it - mx) and isinstance(c, (sp.Lt, sp.Le)) or equal(c.lhs - c.rhs, mx - it) and isinstance(c, (sp.Gt, sp.Ge)):
                                by[False] = v
                        maximum = by[True] == it and by[False] == mx
                sweep_pos = i
                break
        if sweep_pos is None and ret is not None:
            # expression forms: max([inner(m, ...) for m in members], default=0) / max(0, *[...]) / max([0, *[...]]) - and, for a
            # single member, the same with the comprehension already spelled out
            fnm = lambda x: getattr(getattr(x, "func", None), "__name__", "")      # noqa: E731
            terms = None
            if fnm(ret) == "max" or isinstance(ret, sp.Max):
                terms = list(ret.args)
                if fnm(ret) == "max" and terms and isinstance(terms[0], sp.Tuple) and all(fnm(t) == "kw_default" for t in terms[1:]):
                    terms = list(terms[0]) + terms[1:]
                elif fnm(ret) == "max" and terms and fnm(terms[0]) == "concat" and all(fnm(t) == "kw_default" for t in terms[1:]):
                    # max([0] + [inner(m, ...) for m in members]): the parts of the concatenation, in order
                    parts = []
                    for a_ in terms[0].args:
                        parts += list(a_) if isinstance(a_, sp.Tuple) else [a_]
                    terms = parts + terms[1:]
            if terms is not None:
                zero = any(t == 0 or (fnm(t) == "kw_default" and t.args[0] == 0) for t in terms)
                rest = [t for t in terms if not (t == 0 or fnm(t) == "kw_default")]
                rest = [t.args[0] if fnm(t) in ("splat", "max") and len(t.args) == 1 else t for t in rest]
                if len(rest) == 1 and fnm(rest[0]) == "comp" and any(fnm(k) == inner.name for k in rest[0].atoms(sp.Function)):
                    c = rest[0]
                    gens = [g for g in c.args[1:] if fnm(g) == "gen"]
                    if len(gens) == 1 and len(c.args) == 2 and len(gens[0].args) == 2:
                        var, got_members = gens[0].args[0], gens[0].args[1]
                        got_call = c.args[0].subs(var, R("<member>"))
                        maximum = zero
                        sweep_pos = len(l.events)
                elif rest and all(fnm(t) == inner.name and t.args for t in rest):
                    got_members = sp.Tuple(*[t.args[0] for t in rest])
                    forms = {t.subs(t.args[0], R("<member>")) for t in rest}
                    if len(forms) == 1:
                        got_call = next(iter(forms))
                    maximum = zero or len(rest) >= 1 and isinstance(ret, sp.Max)
                    sweep_pos = len(l.events)
        if sweep_pos is None:
            raise AnalysisError(f"{OUTER}: the sweep over the members was not recognised for a {kind} object (returns {str(ret)[:200]})")
        n_checked += 1
        if got_members is not None and equal_struct(got_members, members, {tof: sp.Symbol(kind)}):
            ck.ok("C06.R6", OUTER, f"{kind}: members examined = {members}", nontrivial=False)
        else:
            ck.violation("C06.R6", OUTER, "members", f"for a {kind} object the members examined are {got_members}, not {members}", loc=outer.loc())
        want = want_inner(R("<member>"))
        if got_call == want:
            ck.ok("C06.R6", OUTER, f"{kind}: inner routine receives the caller's n, max_iterations and distributions")
        elif got_call is None:
            raise AnalysisError(f"{OUTER}: call of the inner routine not recognised")
        else:
            for p, g, w in zip(inner.params, got_call.args, want.args):
                if g != w:
                    ck.violation("C06.R6", OUTER, f"argument {p}", f"the inner routine receives {p}={g} instead of the caller's `{w}`", loc=outer.loc())
        if maximum:
            ck.ok("C06.R6", OUTER, f"{kind}: returns the maximum over the members")
        else:
            ck.violation("C06.R6", OUTER, "returned iteration count", f"the value returned ({ret}) is not the maximum iteration count over the members", loc=outer.loc())
        # peaks re-evaluated through the object, with the caller's range, before the sweep
        wantu = F("update_peaks_bounded")(H, R("search_range_in_hz"), R("find_peaks_kwargs"))
        if any(ev[0] == "call" and ev[2] == wantu for ev in l.events[:sweep_pos]):
            ck.ok("C06.R6", OUTER, f"{kind}: peak search with the caller's range precedes the first iteration")
        else:
            ck.violation("C06.R6", OUTER, "peak search on entry", "peaks are not re-evaluated through the object with the caller's search range before the iterations", loc=outer.loc())
    return n_checked


def assigned_names_of(st):
    from ..pathtable import assigned_names
    return assigned_names(st)


def equal_struct(a, b, assign=None) -> bool:
    from ..pathtable import holds
    a, b = sp.sympify(a), sp.sympify(b)
    if isinstance(a, sp.Piecewise) and assign is not None:
        for e, c in a.args:
            v = True if c == sp.true else holds(c, assign) if isinstance(c, (sp.Eq, sp.Ne)) else None
            if v is None:
                return False
            if v:
                return equal_struct(e, b, assign)
        return False
    return a == b
