"""C05 - statistics are the stated estimators over exactly the accepted windows."""
from __future__ import annotations

import ast

import sympy as sp

from ..astutil import own_nodes, unparse, call_name
from ..expr import Translator, equal
from ..model import AnalysisError, Program, norm_key
from ..report import Checker
from . import statscommon as S

EXPLANATION = (
    "Def-use, effect and formula rules over HvsrTraditional and statistics.py. Decided: (R1) in every statistic "
    "accessor the raw per-window arrays (_main_peak_frq, _main_peak_amp, amplitude) are read only through a "
    "subscript by the matching accept mask, so only accepted rows reach an estimator; (R2) no accessor writes "
    "the object, its arguments or module state (effect analysis incl. callees; no caching decorator) - with R1 "
    "the results depend only on the accepted rows after any history; (R3) estimator forms by expression "
    "canonicalisation: pre/post transform tables (identity / log->exp for the mean, log->identity for the std), "
    "weighted mean nansum(v*w)/nansum(w), weighted std sqrt(nansum(w*(v-mean)^2)/den) about log(mean) for "
    "lognormal, 'nist' denominator (1-1/N)*sum(w) (= n-1 for unit weights) as default, default weights 1 with "
    "NaN where the value is NaN (absent peaks leave sums and counts), nth std mean+n*std / exp(log mean+n*std), "
    "covariance of logs with ddof=1; every accessor returns exactly that estimator of the masked data; "
    "(R4) every store to one accept mask in hvsr_traditional/hvsr_azimuthal/window_rejection is paired with "
    "the same store to the other mask (the all-flat case excepted). Not decided: numerical agreement with "
    "textbook estimators on data.")

RULES = {
    "C05.R1": "raw per-window arrays reach the estimators only through their accept mask",
    "C05.R2": "statistic accessors are read-only (no effect on self / arguments / module state, no caching)",
    "C05.R3": "estimators have the stated closed forms and every accessor returns the stated estimator",
    "C05.R4": "the two accept masks are always written together with the same value",
}

TABLE = {
    "peak_frequencies": ["self._main_peak_frq[self.valid_peak_boolean_mask]"],
    "peak_amplitudes": ["self._main_peak_amp[self.valid_peak_boolean_mask]"],
    "mean_fn_frequency": ["_nanmean_weighted(distribution, self.peak_frequencies)"],
    "mean_fn_amplitude": ["_nanmean_weighted(distribution, self.peak_amplitudes)"],
    "std_fn_frequency": ["_nanstd_weighted(distribution, self.peak_frequencies)"],
    "std_fn_amplitude": ["_nanstd_weighted(distribution, self.peak_amplitudes)"],
    "mean_curve": ["self.amplitude[self.valid_window_boolean_mask].flatten()",
                   "_nanmean_weighted(distribution, self.amplitude[self.valid_window_boolean_mask], mean_kwargs=dict(axis=0))"],
    "std_curve": ["_nanstd_weighted(distribution, self.amplitude[self.valid_window_boolean_mask], std_kwargs=dict(axis=0))"],
    "nth_std_fn_frequency": ["_nth_std_factory(n, distribution, self.mean_fn_frequency(distribution), self.std_fn_frequency(distribution))"],
    "nth_std_fn_amplitude": ["_nth_std_factory(n, distribution, self.mean_fn_amplitude(distribution), self.std_fn_amplitude(distribution))"],
    "nth_std_curve": ["_nth_std_factory(n, distribution, self.mean_curve(distribution), self.std_curve(distribution))"],
}


GUARDS = {
    "mean_curve": {TABLE["mean_curve"][0]: "np.sum(self.valid_window_boolean_mask) == 1",
                   TABLE["mean_curve"][1]: "np.sum(self.valid_window_boolean_mask) != 1"},
    "std_curve": {TABLE["std_curve"][0]: "np.sum(self.valid_window_boolean_mask) > 1",
                  "raise": "np.sum(self.valid_window_boolean_mask) <= 1"},
}


def run(ck: Checker, prog: Program, tier: str):
    cls = prog.cls("HvsrTraditional")
    ck.guard(S.check_masked_reads, ck, prog, cls, "C05.R1", floor=4)
    ck.guard(S.check_accessor_purity, ck, prog, cls, "C05.R2", 13)
    ck.guard(S.check_estimators, ck, prog, "C05.R3")
    ck.guard(S.check_accessor_table, ck, prog, cls, "C05.R3", TABLE, GUARDS)
    ck.guard(_cov, ck, prog, cls, "C05.R3", weighted=False)
    ck.guard(S.check_mask_lockstep, ck, prog, "C05.R4")


def _single_window_guard(ck: Checker, prog: Program, cls):
    """mean_curve's single-window shortcut and std_curve's refusal test the *window* mask count."""
    for name, ops in (("mean_curve", (ast.Eq,)), ("std_curve", (ast.Gt, ast.GtE))):
        m = cls.methods[name]
        ifs = [st for st in m.node.body if isinstance(st, ast.If)]
        good = False
        if len(ifs) == 1 and isinstance(ifs[0].test, ast.Compare) and isinstance(ifs[0].test.ops[0], ops):
            l = ifs[0].test.left
            good = isinstance(l, ast.Call) and call_name(l) == "sum" and l.args and unparse(l.args[0]) == "self.valid_window_boolean_mask" \
                and unparse(ifs[0].test.comparators[0]) == "1"
        if good:
            ck.ok("C05.R3", m.qualname, norm_key(ifs[0]), nontrivial=False)
        else:
            ck.violation("C05.R3", m.qualname, "window count guard", f"{name}: the single-window guard does not count the accepted windows", loc=m.loc())


def _cov(ck: Checker, prog: Program, cls, rule: str, weighted: bool):
    m = cls.methods.get("cov_fn")
    if m is None:
        raise AnalysisError(f"{cls.name}.cov_fn not found")
    T = S.translator_for(prog, m, cls)
    from ..expr import forward_substitute
    top = [st for st in m.node.body if isinstance(st, ast.Assign)]
    # the distribution alias resolution is a lookup; keep the symbol
    top = [st for st in top if unparse(st.targets[0]) != "distribution"]
    forward_substitute(top, T)
    rets = S.returns_of(m)
    if len(rets) != 1:
        ck.violation(rule, m.qualname, "single return", f"{len(rets)} return statements", loc=m.loc())
    got = T.tr(rets[-1].value)
    if weighted:
        want = S.expect(prog, m, "np.cov(np.concatenate(self.peak_frequencies), np.concatenate(self.peak_amplitudes), "
                                 "aweights=self._compute_statistical_weights())", cls)
        kws = {k.arg for c in [rets[-1].value] if isinstance(c, ast.Call) for k in c.keywords}
        kw_ok = kws == {"aweights"}
    else:
        want = S.expect(prog, m, "np.cov(self.peak_frequencies, self.peak_amplitudes, ddof=1)", cls)
        kws = {k.arg for c in [rets[-1].value] if isinstance(c, ast.Call) for k in c.keywords}
        kw_ok = kws == {"ddof"}
    if equal(got, want) and kw_ok:
        ck.ok(rule, m.qualname, norm_key(rets[-1]))
    else:
        ck.violation(rule, m.qualname, norm_key(rets[-1]), f"covariance is {got} (keywords {sorted(kws)}); expected {want}", loc=m.loc(rets[-1]))
    # lognormal branch takes logs of both
    logs = {}
    for st in own_nodes(m.node):
        if isinstance(st, ast.If) and "lognormal" in unparse(st.test):
            for b in st.body:
                if isinstance(b, ast.Assign) and isinstance(b.value, ast.Call) and call_name(b.value) == "log" \
                        and unparse(b.value.args[0]) == unparse(b.targets[0]):
                    logs[unparse(b.targets[0])] = True
    if set(logs) == {"frequencies", "amplitudes"}:
        ck.ok(rule, m.qualname, "lognormal: log of frequencies and amplitudes")
    else:
        ck.violation(rule, m.qualname, "lognormal covariance", f"log taken of {sorted(logs)}; expected both frequencies and amplitudes", loc=m.loc())
    # normal branch leaves the data alone; unknown names raise
    for st in own_nodes(m.node):
        if isinstance(st, ast.If) and unparse(st.test).endswith("== 'normal'"):
            if not all(isinstance(b, ast.Pass) for b in st.body):
                ck.violation(rule, m.qualname, "normal covariance", "the normal branch transforms the data", loc=m.loc(st))
