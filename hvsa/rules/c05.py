"""C05 - statistics are the stated estimators over exactly the accepted windows."""
from __future__ import annotations

import ast

import sympy as sp

from ..astutil import own_nodes, unparse, call_name
from ..expr import Translator, equal
from ..model import AnalysisError, Program, norm_key
from ..report import Checker
from . import statscommon as S

EXPLANATION = (
    "Def-use, effect and formula rules over HvsrTraditional and statistics.py. Decided: (R1) in every statistic "
    "accessor the raw per-window arrays (_main_peak_frq, _main_peak_amp, amplitude) are read only through a "
    "subscript by the matching accept mask, so only accepted rows reach an estimator; (R2) no accessor writes "
    "the object, its arguments or module state (effect analysis incl. callees; no caching decorator) - with R1 "
    "the results depend only on the accepted rows after any history; (R3) estimator forms by expression "
    "canonicalisation: pre/post transform tables (identity / log->exp for the mean, log->identity for the std), "
    "weighted mean nansum(v*w)/nansum(w), weighted std sqrt(nansum(w*(v-mean)^2)/den) about log(mean) for "
    "lognormal, 'nist' denominator (1-1/N)*sum(w) (= n-1 for unit weights) as default, default weights 1 with "
    "NaN where the value is NaN (absent peaks leave sums and counts), nth std mean+n*std / exp(log mean+n*std), "
    "covariance of logs with ddof=1; every accessor returns exactly that estimator of the masked data; "
    "(R4) every store to one accept mask in hvsr_traditional/hvsr_azimuthal/window_rejection is paired with "
    "the same store to the other mask (the all-flat case excepted). Not decided: numerical agreement with "
    "textbook estimators on data.")

RULES = {
    "C05.R1": "raw per-window arrays reach the estimators only through their accept mask",
    "C05.R2": "statistic accessors are read-only (no effect on self / arguments / module state, no caching)",
    "C05.R3": "estimators have the stated closed forms and every accessor returns the stated estimator",
    "C05.R4": "the two accept masks are always written together with the same value",
}

TABLE = {
    "peak_frequencies": ["self._main_peak_frq[self.valid_peak_boolean_mask]"],
    "peak_amplitudes": ["self._main_peak_amp[self.valid_peak_boolean_mask]"],
    "mean_fn_frequency": ["_nanmean_weighted(distribution=distribution, values=self.peak_frequencies)"],
    "mean_fn_amplitude": ["_nanmean_weighted(distribution=distribution, values=self.peak_amplitudes)"],
    "std_fn_frequency": ["_nanstd_weighted(distribution=distribution, values=self.peak_frequencies)"],
    "std_fn_amplitude": ["_nanstd_weighted(distribution=distribution, values=self.peak_amplitudes)"],
    "mean_curve": ["self.amplitude[self.valid_window_boolean_mask].flatten()",
                   "_nanmean_weighted(distribution=distribution, values=self.amplitude[self.valid_window_boolean_mask], mean_kwargs=dict(axis=0))"],
    "std_curve": ["_nanstd_weighted(distribution=distribution, values=self.amplitude[self.valid_window_boolean_mask], std_kwargs=dict(axis=0))"],
    "nth_std_fn_frequency": ["_nth_std_factory(n=n, distribution=distribution, mean=self.mean_fn_frequency(distribution), std=self.std_fn_frequency(distribution))"],
    "nth_std_fn_amplitude": ["_nth_std_factory(n=n, distribution=distribution, mean=self.mean_fn_amplitude(distribution), std=self.std_fn_amplitude(distribution))"],
    "nth_std_curve": ["_nth_std_factory(n=n, distribution=distribution, mean=self.mean_curve(distribution), std=self.std_curve(distribution))"],
}


GUARDS = {
    "mean_curve": {TABLE["mean_curve"][0]: "np.sum(self.valid_window_boolean_mask) == 1",
                   TABLE["mean_curve"][1]: "np.sum(self.valid_window_boolean_mask) != 1"},
    "std_curve": {TABLE["std_curve"][0]: "np.sum(self.valid_window_boolean_mask) > 1",
                  "raise": "np.sum(self.valid_window_boolean_mask) <= 1"},
}


def run(ck: Checker, prog: Program, tier: str):
    cls = prog.cls("HvsrTraditional")
    ck.guard(S.check_masked_reads, ck, prog, cls, "C05.R1", floor=4)
    ck.guard(S.check_mask_properties, ck, prog, "C05.R1")
    ck.guard(S.check_accessor_purity, ck, prog, cls, "C05.R2", 13)
    ck.guard(S.check_estimators, ck, prog, "C05.R3")
    ck.guard(S.check_alias_discipline, ck, prog, "C05.R3", floor=3)
    ck.guard(S.check_distribution_names, ck, prog, "C05.R3")
    # ... and the distribution a user names on the command line is the one the written statistics are computed under (rule of C19)
    from . import c19
    with ck.borrow(c19, "C05.R3+"):
        ck.guard(c19._distribution_options, ck, prog)
    ck.guard(S.check_accessor_table, ck, prog, cls, "C05.R3", TABLE, GUARDS)
    ck.guard(_cov, ck, prog, cls, "C05.R3", weighted=False)
    ck.guard(S.check_mask_lockstep, ck, prog, "C05.R4")
    from . import c12, c20
    with ck.borrow(c12, "C05.R3+"):
        ck.guard(c12._r3, ck, prog, prog.func(c12.W), prog.func(c12.R))
    with ck.borrow(c20, "C05.R3+"):
        ck.guard(c20._r4, ck, prog)
    # "after any history": a figure drawn in between must leave the accept masks as they were (rules of C20)
    with ck.borrow(c20, "C05.R2+"):
        ck.guard(c20._read_only, ck, prog)
    # "windows without a peak never enter the resonance statistics": the per-window peak search records NaN / False for an
    # absent peak on every path, and the curves the statistics describe are private copies (rules of C08)
    from . import c08
    with ck.borrow(c08, "C05.R1+"):
        ck.guard(c08._r2, ck, prog)
    from .common import check_identity_comparisons as _cic
    ck.guard(_cic, ck, prog, "C05.R1", "C05")


def _single_window_guard(ck: Checker, prog: Program, cls):
    """mean_curve's single-window shortcut and std_curve's refusal as decision tables over the number of accepted *windows*:
    mean_curve takes the shortcut exactly when that number is 1; std_curve returns exactly when it exceeds 1 and raises otherwise
    (written with either branch first, as guard clauses or if/else)."""
    from ..pathtable import PathTable, literals, same_rel, negate
    from .common import pkg_call_hook
    COUNT = sp.Function("sum")(sp.Symbol("self.valid_window_boolean_mask", real=True))
    one = sp.Integer(1)
    for name in ("mean_curve", "std_curve"):
        m = cls.methods[name]
        leaves = PathTable(prog, m.module, call_hook=pkg_call_hook(prog, m.module, cls)).leaves(m.node.body)
        problems = []
        n_dec = 0
        MASK = sp.Symbol("self.valid_window_boolean_mask", real=True)
        same_count = {sp.Function("count_nonzero")(MASK): COUNT, sp.Function("attr_sum")(MASK): COUNT, sp.Function("nansum")(MASK): COUNT,
                      sp.Function("len")(sp.Function("getitem")(MASK, MASK)): COUNT}
        for l in leaves:
            all_lits = [x.xreplace(same_count) if hasattr(x, "xreplace") else x for x in literals(l)]
            lits = [x for x in all_lits if x.has(COUNT)]
            others = [x for x in all_lits if not x.has(COUNT)]
            if len(lits) != 1:
                problems.append(f"a path decides on {[str(x) for x in all_lits]} instead of the number of accepted windows")
                continue
            x = lits[0]
            n_dec += 1
            if name == "mean_curve":
                single = same_rel(x, sp.Eq(COUNT, one, evaluate=False))
                several = same_rel(x, sp.Ne(COUNT, one, evaluate=False))
                uses_mean = l.value is not None and any(getattr(a.func, "__name__", "") == "_nanmean_weighted" for a in sp.sympify(l.value).atoms(sp.Function))
                if not ((single and not uses_mean and l.exit == "return") or (several and uses_mean and l.exit == "return")):
                    problems.append(f"under `{x}` the method {'averages' if uses_mean else 'returns the single window' if l.exit == 'return' else l.exit}")
            else:
                more = same_rel(x, sp.Gt(COUNT, one, evaluate=False)) or same_rel(x, sp.Ge(COUNT, sp.Integer(2), evaluate=False))
                fewer = same_rel(x, negate(sp.Gt(COUNT, one, evaluate=False))) or same_rel(x, negate(sp.Ge(COUNT, sp.Integer(2), evaluate=False)))
                if not ((more and l.exit == "return") or (fewer and l.exit == "raise")):
                    problems.append(f"under `{x}` the method exits by {l.exit}")
        if not problems and n_dec >= 2:
            ck.ok("C05.R3", m.qualname, "window count guard", nontrivial=False)
        else:
            ck.violation("C05.R3", m.qualname, "window count guard",
                         f"{name}: the single-window guard does not count the accepted windows ({'; '.join(problems[:2]) or 'no decision on the count'})", loc=m.loc())


def _cov(ck: Checker, prog: Program, cls, rule: str, weighted: bool):
    """cov_fn as a table over the accepted spellings of the distribution: for every key of DISTRIBUTION_MAP the value returned is
    np.cov of (frequencies, amplitudes) - of their logarithms when the key names the lognormal assumption - and any other name is refused."""
    from ..pathtable import PathTable, literals, holds, specialise, KEYERROR
    from .common import pkg_call_hook
    m = cls.methods.get("cov_fn")
    if m is None:
        raise AnalysisError(f"{cls.name}.cov_fn not found")
    F = sp.Function
    base = pkg_call_hook(prog, m.module, cls)

    def hook(call, T):
        if call_name(call) == "cov" and isinstance(call.func, ast.Attribute):
            return F("cov")(*[T.tr(a) for a in call.args], *[F("kw_" + k.arg)(T.tr(k.value)) for k in call.keywords if k.arg])
        return base(call, T)
    leaves = PathTable(prog, m.module, call_hook=hook, unroll=True).leaves(m.node.body)
    D = sp.Symbol("distribution", real=True)
    FR, AM = sp.Symbol("self.peak_frequencies", real=True), sp.Symbol("self.peak_amplitudes", real=True)
    if weighted:
        FR, AM = F("concatenate")(FR), F("concatenate")(AM)
        tail = [F("kw_aweights")(F("_compute_statistical_weights")(sp.Symbol("self", real=True)))]
    else:
        tail = [F("kw_ddof")(sp.Integer(1))]
    dm = prog.registry("constants", "DISTRIBUTION_MAP")
    worlds = [(k, v.value) for k, v in dm.items() if isinstance(v, ast.Constant)] + [("<other>", None)]
    problems = []
    for key, canon in worlds:
        world = {D: sp.Symbol(f"'{key}'")}
        outcomes = []
        for l in leaves:
            conds = [specialise(c, world) for c in literals(l)]
            truth = [holds(c, world) for c in conds]
            if any(t is False for t in truth):
                continue
            val = specialise(l.value, world) if l.value is not None else None
            failed = any(KEYERROR in sp.sympify(x).free_symbols for x in conds + ([val] if val is not None else []))
            handler = any("raised(" in str(c) for c in conds)
            outcomes.append((l, val, failed, handler))
        normal = [o for o in outcomes if not o[3] and not o[2]]
        chosen = normal if normal else [o for o in outcomes if o[3]] or outcomes
        # conditions that are still undecided after specialisation split on something other than the name: not a table over names
        for l, val, failed, handler in chosen:
            if canon is None:
                if l.exit != "raise" and not failed:
                    problems.append(f"the unknown name {key} is not refused (returns {val})")
                continue
            if failed or l.exit == "raise":
                problems.append(f"the accepted name '{key}' is refused")
                continue
            tf = (lambda x: x) if canon == "normal" else sp.log
            want = F("cov")(tf(FR), tf(AM), *tail)
            if val is None or not equal(S.gather_normal_form(val), S.gather_normal_form(want)):
                problems.append(f"for '{key}' the covariance is {val}; expected {want}")
        if not chosen:
            problems.append(f"no path for the name '{key}'")
    if not problems:
        ck.ok(rule, m.qualname, "covariance per accepted distribution name", detail=f"{len(worlds) - 1} names: cov of the values (normal) / of their logarithms (lognormal); other names refused")
        ck.ok(rule, m.qualname, "lognormal: log of frequencies and amplitudes")
    else:
        for pr in sorted(set(problems))[:3]:
            ck.violation(rule, m.qualname, "covariance", pr, loc=m.loc())
