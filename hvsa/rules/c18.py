"""C18 - recordings persist exactly; copies are independent; trim keeps the right samples."""
from __future__ import annotations

import ast
from typing import List

import sympy as sp

from ..astutil import call_name, calls_in, own_nodes, unparse, kwarg, dotted
from ..cfg import cfg_of
from ..dataflow import reaching
from ..effects import fmt_origin, AV
from ..expr import Translator, equal
from ..model import AnalysisError, Program, norm_key, parent_of
from ..report import Checker
from .common import engine, reachable_nonlocal, group_effects, describe_effect, chain_text

EXPLANATION = (
    "Effect/freshness analysis of TimeSeries and SeismicRecording3C plus table and formula checks. Decided: "
    "(R1) constructor field origins - TimeSeries.amplitude is Fresh (np.array copy), SeismicRecording3C stores "
    "fresh copies of its components; from_timeseries, from_seismic_recording_3c, both split methods, _from_dict "
    "and load return objects none of whose sample storage (or component objects) aliases an argument; no method "
    "of the two classes writes an object other than self; (R2) _to_dict and _from_dict use the same key set "
    "(time step, three sample arrays via tolist(), orientation, meta), wire every key to the matching "
    "constructor argument, save/load go through them, and metadata passed to the constructor overrides the "
    "constructor's defaults; (R3) trim selects indices by argmin|t - x| on the record's own time axis, keeps "
    "[start, end+1), raises for start<0, start>=end, end>last time, and the three components are trimmed with "
    "the same arguments; no method of the two classes carries a wrapping (memoising) decorator. Not decided: JSON float "
    "exactness (assumption 2).")

RULES = {
    "C18.R1a": "fields stored by the constructors are fresh copies (no alias of an argument's sample storage)",
    "C18.R1b": "copy constructors / split / load return objects sharing no sample storage with their source",
    "C18.R1c": "no method of TimeSeries / SeismicRecording3C mutates an object other than self",
    "C18.R2": "_to_dict/_from_dict agree on keys and wiring; save/load use them; supplied meta overrides defaults",
    "C18.R3": "trim: nearest-sample indices, inclusive end, three refusals, same arguments for all components",
}


SAMPLE_EXCLUDE = {"meta"}


def _orientation_is_float(ck: Checker, prog: Program, sr):
    init = sr.find_method("__init__")
    stores = [st for st in own_nodes(init.node) if isinstance(st, ast.Assign) and any(isinstance(t, ast.Attribute) and isinstance(t.value, ast.Name)
              and t.value.id == "self" and t.attr == "degrees_from_north" for t in st.targets)]
    if not stores:
        raise AnalysisError(f"{init.qualname}: the orientation is not stored")
    for st in stores:
        v = st.value
        if isinstance(v, ast.Name):
            defs = [d for d in own_nodes(init.node) if isinstance(d, ast.Assign) and len(d.targets) == 1 and isinstance(d.targets[0], ast.Name) and d.targets[0].id == v.id]
            if len(defs) == 1 and v.id not in init.params:
                v = defs[0].value
        is_float = (isinstance(v, ast.Call) and isinstance(v.func, ast.Name) and v.func.id == "float" and len(v.args) == 1) \
            or (isinstance(v, ast.Constant) and isinstance(v.value, float))
        if is_float:
            ck.ok("C18.R2", init.qualname, "orientation stored as a built-in float", nontrivial=False)
        elif any(isinstance(x, ast.Call) for x in ast.walk(v)):
            raise AnalysisError(f"{init.qualname}: the type of the stored orientation `{norm_key(st, 60)}` is not decided (a call other than float(...))")
        else:
            ck.violation("C18.R2", init.qualname, "orientation stored as given",
                         f"`{norm_key(st, 80)}` stores the orientation with the type the caller passed: a numpy integer scalar reaches json.dump on save() and "
                         f"the recording cannot be written", loc=init.loc(st))


def run(ck: Checker, prog: Program, tier: str):
    eng = engine(prog)
    ts = prog.cls("TimeSeries")
    sr = prog.cls("SeismicRecording3C")

    # ------------------------------------------------------------------ R1a
    for cls, fields in ((ts, ["amplitude"]), (sr, ["ns", "ew", "vt"])):
        init = cls.find_method("__init__")
        if init is None:
            raise AnalysisError(f"{cls.name}.__init__ not found")
        s = eng.summary(init)
        for fld in fields:
            hv = s.heap.get((("P", 0, ()), fld))
            if hv is None:
                ck.violation("C18.R1a", init.qualname, f"self.{fld}", f"constructor does not store `{fld}`", loc=init.loc())
                continue
            alias = reachable_nonlocal(eng, s, hv[0], exclude_fields=SAMPLE_EXCLUDE)
            alias = [(p, o) for (p, o) in alias if not (o[0] == "P" and o[1] == 0)]
            if alias:
                p, o = alias[0]
                ck.violation("C18.R1a", init.qualname, f"self.{fld}",
                             f"`self.{fld}{''.join('.' + x for x in p)}` aliases {fmt_origin(o)}: the stored component shares "
                             f"storage with the constructor argument", loc=init.loc())
            else:
                ck.ok("C18.R1a", init.qualname, f"self.{fld}", detail=f"origin {hv[0]}")
        # meta container is a new dict
        if cls is sr:
            hv = s.heap.get((("P", 0, ()), "meta"))
            if hv is None or any(o[0] != "F" for o in hv[0].origins):
                ck.violation("C18.R1a", init.qualname, "self.meta", "the meta dict stored is the caller's dict, not a new one", loc=init.loc())
            else:
                ck.ok("C18.R1a", init.qualname, "self.meta", detail="new dict")

    # the orientation the constructor stores is what save() hands to the JSON encoder: a built-in float (a numpy integer scalar, as
    # produced by np.arange of azimuths, cannot be encoded and the recording could not be saved)
    ck.guard(_orientation_is_float, ck, prog, sr)
    # ------------------------------------------------------------------ R1b
    producers = [
        ("timeseries.TimeSeries.from_timeseries", "copy constructor"),
        ("timeseries.TimeSeries.from_trace", "trace constructor"),
        ("timeseries.TimeSeries.split", "split"),
        ("seismic_recording_3c.SeismicRecording3C.from_seismic_recording_3c", "copy constructor"),
        ("seismic_recording_3c.SeismicRecording3C.split", "split"),
        ("seismic_recording_3c.SeismicRecording3C._from_dict", "from dict"),
        ("seismic_recording_3c.SeismicRecording3C.load", "load"),
    ]
    for fq, what in producers:
        f = prog.func(fq)
        s = eng.summary(f)
        alias = reachable_nonlocal(eng, s, s.ret, exclude_fields=SAMPLE_EXCLUDE)
        if s.ret.is_bottom() or (s.ret.scalar and not s.ret.origins):
            ck.violation("C18.R1b", fq, "return value", f"{what} does not return an object", loc=f.loc())
            continue
        if alias:
            p, o = alias[0]
            ck.violation("C18.R1b", fq, "return:" + ".".join(p),
                         f"the object returned by {what} shares storage with its source: "
                         f"{'.'.join(p) or '<value>'} aliases {fmt_origin(o)}", loc=f.loc())
        else:
            ck.ok("C18.R1b", fq, "return value", detail=f"{what}: no argument storage reachable from {_short(s.ret)}")

    # ------------------------------------------------------------------ R1c
    n = 0
    for cls in (ts, sr):
        for m in cls.methods.values():
            s = eng.summary(m)
            first = 1 if m.kind in ("method", "property", "classmethod") else 0
            other = [e for e in s.effects if (e.origin[0] == "P" and e.origin[1] >= first) or e.origin[0] == "G"]
            n += 1
            if not other:
                ck.ok("C18.R1c", m.qualname, "effects confined to self", nontrivial=bool(s.effects),
                      detail=f"{len(s.effects)} effect(s) on self")
            for (func, text), es in group_effects(prog, other).items():
                ck.violation("C18.R1c", func, text, f"{m.qualname} modifies an object other than self: {describe_effect(es[0])}",
                             loc=es[0].chain[0].loc, path=chain_text(es[0]))
    ck.floor("C18.R1c", n, 25, "methods of TimeSeries and SeismicRecording3C")

    # a wrapping decorator (memoisation) would hand the same object, hence the same storage, to two callers
    for cls in (ts, sr):
        for m in cls.methods.values():
            extra = [d for d in m.decorators if d not in ("property", "staticmethod", "classmethod") and not d.endswith((".setter", ".getter", ".deleter"))]
            if extra:
                ck.violation("C18.R1b", m.qualname, f"decorator {extra[0]}",
                             f"`@{extra[0]}` wraps {m.qualname}: what it returns may be a cached object shared between callers (and stale after the file changes)",
                             loc=m.loc())
            else:
                ck.ok("C18.R1b", m.qualname, "no wrapping decorator", nontrivial=False)

    ck.guard(_r2, ck, prog)
    ck.guard(_r3, ck, prog)
    # "after any sequence of ... re-orientation": the orientation that is stored (and saved) is the one given (rule of C04)
    from . import c04
    with ck.borrow(c04, "C18.R2+"):
        ck.guard(c04._r1_r3, ck, prog)
    ck.extra["calls_resolved"] = eng.calls_resolved
    from .common import check_identity_comparisons as _cic
    ck.guard(_cic, ck, prog, "C18.R1a", "C18")


def _short(av) -> str:
    t = repr(av)
    return t if len(t) < 110 else t[:107] + "..."


# --------------------------------------------------------------------------- R2
def _r2(ck: Checker, prog: Program):
    sr = prog.cls("SeismicRecording3C")
    to_d = sr.find_method("_to_dict")
    from_d = sr.find_method("_from_dict")
    if to_d is None or from_d is None:
        raise AnalysisError("SeismicRecording3C._to_dict/_from_dict not found")
    from ..pathtable import PathTable
    R = lambda n: sp.Symbol(n, real=True)   # noqa: E731
    SELF = R(to_d.params[0])
    A = lambda a, o: sp.Function("attr_" + a)(o)   # noqa: E731
    lw = [l for l in PathTable(prog, to_d.module, unroll=True, structured=True).leaves(to_d.node.body) if l.exit == "return"]
    if len(lw) != 1 or getattr(getattr(lw[0].value, "func", None), "__name__", "") != "dict":
        raise AnalysisError("_to_dict does not return a dict built in the method")
    written = {}
    for a in lw[0].value.args:
        nm = getattr(a.func, "__name__", "")
        if nm.startswith("kv_"):
            written[nm[3:]] = a.args[0]
    DATA = R(from_d.params[1])
    gi = sp.Function("getitem")
    lr = [l for l in PathTable(prog, from_d.module, unroll=True, structured=True).leaves(from_d.node.body) if l.exit == "return"]
    if len(lr) != 1:
        raise AnalysisError("_from_dict: expected a single returning path")
    rv = lr[0].value
    read = set()
    for a in sp.preorder_traversal(rv):
        if getattr(a, "func", None) == gi and a.args[0] == DATA and a.args[1].is_Symbol and a.args[1].name.startswith("'"):
            read.add(a.args[1].name.strip("'"))
    if set(written) == read:
        ck.ok("C18.R2", to_d.qualname, f"keys {sorted(written)}", detail="same key set written and read")
    else:
        ck.violation("C18.R2", to_d.qualname, "key set",
                     f"_to_dict writes {sorted(written)} but _from_dict reads {sorted(read)}", loc=to_d.loc())
    # what is written under each key
    expect_w = {"degrees_from_north": [A("degrees_from_north", SELF)], "meta": [A("meta", SELF)],
                "dt_in_seconds": [A("dt_in_seconds", A(c, SELF)) for c in ("ns", "ew", "vt")]}
    for comp in ("ns", "ew", "vt"):
        expect_w[f"{comp}_amplitude"] = [sp.Function("tolist")(A("amplitude", A(comp, SELF)))]
    for k, alts in expect_w.items():
        if k not in written:
            ck.violation("C18.R2", to_d.qualname, f"key {k}", f"`{k}` is not persisted", loc=to_d.loc())
        elif written[k] in alts:
            ck.ok("C18.R2", to_d.qualname, f"{k}={written[k]}")
        else:
            ck.violation("C18.R2", to_d.qualname, f"key {k}", f"`{k}` persists `{written[k]}`", loc=to_d.loc())
    # wiring in _from_dict
    key = lambda k: gi(DATA, sp.Symbol(f"'{k}'"))   # noqa: E731
    TSf = sp.Function("TimeSeries")
    want_args = [TSf(key(f"{c}_amplitude"), key("dt_in_seconds")) for c in ("ns", "ew", "vt")]
    fname = getattr(getattr(rv, "func", None), "__name__", "")
    args = list(rv.args) if fname in ("cls", "SeismicRecording3C") else []
    rets_ = [r_ for r_ in own_nodes(from_d.node) if isinstance(r_, ast.Return)]
    c = rets_[0].value if rets_ and isinstance(rets_[0].value, ast.Call) else None
    if args[:3] == want_args:
        ck.ok("C18.R2", from_d.qualname, "cls(ns, ew, vt) built from the matching stored arrays and time step", detail=str(rv)[:200])
    else:
        ck.violation("C18.R2", from_d.qualname, "component wiring", f"components are rebuilt as {args[:3]}; expected {want_args}", loc=from_d.loc())
    # keyword arguments of the constructor call (names are dropped by the canonical form: use the call itself)
    from ..resolve import Resolver, canon
    RR = Resolver(prog, from_d, inline=False)
    for kw_name, k in (("degrees_from_north", "degrees_from_north"), ("meta", "meta")):
        v = kwarg(c, kw_name) if c is not None else None
        got = canon(RR.value(v, rets_[0])) if v is not None else None
        want_v = canon(RR.expect(f"{from_d.params[1]}['{k}']"))
        if got is not None and got == want_v:
            ck.ok("C18.R2", from_d.qualname, f"{kw_name} <- data['{k}']")
        else:
            ck.violation("C18.R2", from_d.qualname, f"{kw_name} wiring", f"constructor argument `{kw_name}` receives `{got}`", loc=from_d.loc())
    # save / load
    save, load = sr.find_method("save"), sr.find_method("load")
    ok_save = any(call_name(x) == "dump" and x.args and isinstance(x.args[0], ast.Call) and call_name(x.args[0]) == "_to_dict"
                  for x in calls_in(save.node)) if save else False
    ok_load = False
    if load:
        rdl = reaching(load)
        for x in calls_in(load.node, "_from_dict"):
            a = x.args[0] if x.args else None
            if isinstance(a, ast.Name):
                defs = rdl.def_stmts(a.id, x)
                ok_load = len(defs) == 1 and isinstance(defs[0], ast.Assign) and any(call_name(y) == "load" for y in calls_in(defs[0].value))
            elif isinstance(a, ast.Call) and call_name(a) == "load":
                ok_load = True
    for okk, m, txt in ((ok_save, save, "save dumps self._to_dict()"), (ok_load, load, "load returns cls._from_dict(json.load(f))")):
        if okk:
            ck.ok("C18.R2", m.qualname, txt)
        else:
            ck.violation("C18.R2", m.qualname if m else "SeismicRecording3C", txt, f"not established: {txt}", loc=m.loc() if m else "")
    # supplied meta overrides defaults in the constructor
    init = sr.find_method("__init__")
    meta_stores = [st for st in own_nodes(init.node) if isinstance(st, ast.Assign) and any(
        isinstance(t, ast.Attribute) and t.attr == "meta" for t in st.targets)]
    if len(meta_stores) != 1:
        raise AnalysisError("SeismicRecording3C.__init__: the single store of `self.meta` not found")
    segs = _merge_segments(init, meta_stores[0].value, meta_stores[0])
    # the order of a merge decides who wins: the supplied metadata must come after every default entry
    supplied = [i for i, sg in enumerate(segs) if sg == ("spread", "meta")]
    others = [i for i, sg in enumerate(segs) if sg != ("spread", "meta") and sg != ("spread", "{}")]
    if supplied and (not others or supplied[-1] > max(others)):
        ck.ok("C18.R2", init.qualname, "self.meta = {defaults..., **meta}", detail="supplied metadata overrides the defaults")
    else:
        ck.violation("C18.R2", init.qualname, norm_key(meta_stores[0], 100),
                     "metadata handed to the constructor (by load / copy / split) is overridden by the constructor's defaults "
                     "(the supplied `meta` is not the last part of the merged dictionary)", loc=init.loc(meta_stores[0]))
    # orientation is stored from the argument (normalised), copy constructors forward the source's values
    for fq in ("seismic_recording_3c.SeismicRecording3C.from_seismic_recording_3c", "seismic_recording_3c.SeismicRecording3C.split"):
        f = prog.func(fq)
        src = f.params[1] if fq.endswith("from_seismic_recording_3c") else f.params[0]
        cs = [x for x in calls_in(f.node) if call_name(x) in ("cls", "SeismicRecording3C")]
        if len(cs) != 1:
            raise AnalysisError(f"{fq}: constructor call not found")
        dv, mv = kwarg(cs[0], "degrees_from_north"), kwarg(cs[0], "meta")
        from ..resolve import Resolver, canon
        RR = Resolver(prog, f, inline=False)
        at = cs[0]
        while not isinstance(at, ast.stmt):
            at = parent_of(at)
        good = dv is not None and mv is not None and canon(RR.value(dv, at)) == canon(RR.expect(f"{src}.degrees_from_north")) \
            and canon(RR.value(mv, at)) == canon(RR.expect(f"{src}.meta"))
        if good:
            ck.ok("C18.R2", fq, norm_key(cs[0], 100), detail="orientation and meta forwarded from the source")
        else:
            ck.violation("C18.R2", fq, norm_key(cs[0], 100),
                         f"copy is built with degrees_from_north={unparse(dv) if dv else None}, meta={unparse(mv) if mv else None} "
                         f"instead of the source's current values", loc=f.loc(cs[0]))


# --------------------------------------------------------------------------- R3
def _canon(r):
    if isinstance(r, sp.Lt):
        return sp.Gt(r.rhs, r.lhs, evaluate=False)
    if isinstance(r, sp.Le):
        return sp.Ge(r.rhs, r.lhs, evaluate=False)
    return r


def _r3(ck: Checker, prog: Program):
    f = prog.func("timeseries.TimeSeries.trim")
    fq = f.qualname
    from ..pathtable import PathTable, literals, same_rel, negate
    T = Translator()
    st_t, en_t = T.sym("start_time"), T.sym("end_time")
    time_call = sp.Function("time")(T.sym("self"))
    leaves = PathTable(prog, f.module).leaves(f.node.body)
    succ = [l for l in leaves if l.exit in ("fall", "return")]
    if not succ:
        raise AnalysisError(f"{fq}: no path reaches the end of trim")
    want_s = sp.Function("argmin")(sp.Abs(time_call - st_t))
    want_e = sp.Function("argmin")(sp.Abs(time_call - en_t))
    AMP = T.sym("self.amplitude")
    for l in succ:
        stores = [e for e in l.events if e[0] == "store" and e[1] == "self.amplitude"]
        if len(stores) != 1:
            ck.violation("C18.R3", fq, "kept samples", f"a successful trim stores self.amplitude {len(stores)} time(s)", loc=f.loc())
            continue
        v, st = stores[0][2], stores[0][3]
        gi, sl = sp.Function("getitem"), sp.Function("slice")
        lo = hi = None
        if v.func == gi and v.args[0] == AMP and v.args[1].func == sl and v.args[1].args[2] == sp.Symbol("None"):
            lo, hi = v.args[1].args[0], v.args[1].args[1]
        if lo is None:
            ck.violation("C18.R3", fq, norm_key(st), f"trim stores {v}, not a slice of self.amplitude", loc=f.loc(st))
            continue
        if equal(lo, want_s) and equal(hi, want_e + 1):
            ck.ok("C18.R3", fq, "keeps [argmin|t - start_time|, argmin|t - end_time| + 1) with t = self.time()", detail=str(v))
        else:
            ck.violation("C18.R3", fq, "kept samples",
                         f"kept slice is [{lo} : {hi}] of self.amplitude; expected the samples nearest to start_time .. end_time inclusive "
                         f"([{want_s} : {want_e} + 1])", loc=f.loc(st))
    # the time axis itself
    tm = prog.func("timeseries.TimeSeries.time")
    r = [x for x in own_nodes(tm.node) if isinstance(x, ast.Return)]
    TT = Translator()
    tv = TT.tr(r[0].value) if r else None
    want_t = sp.Function("arange")(TT.sym("self.n_samples")) * TT.sym("self.dt_in_seconds")
    if tv is not None and equal(tv, want_t):
        ck.ok("C18.R3", tm.qualname, norm_key(r[0]), detail="t_i = i * dt")
    else:
        ck.violation("C18.R3", tm.qualname, "time axis", f"time() returns {tv}, expected arange(n_samples)*dt", loc=tm.loc())
    # refusals: completing a trim implies 0 <= start_time < end_time <= t[-1]
    last = sp.Function("getitem")(time_call, sp.Integer(-1))
    wants = {
        "start before the record": sp.Gt(sp.Integer(0), st_t, evaluate=False),
        "start not before end": sp.Ge(st_t, en_t, evaluate=False),
        "end after the record": sp.Gt(en_t, last, evaluate=False),
    }
    for name, w in wants.items():
        hit = all(any(same_rel(x, negate(w)) for x in literals(l)) for l in succ) and \
            any(l.exit == "raise" and any(same_rel(x, w) for x in literals(l)) for l in leaves)
        if hit:
            ck.ok("C18.R3", fq, f"refusal: {name}")
        else:
            ck.violation("C18.R3", fq, f"refusal: {name}", f"a trim can complete although `{w}` (no raising guard on every path)", loc=f.loc())
    # three components, same arguments
    from .common import check_componentwise
    check_componentwise(ck, prog, "C18.R3", "trim", "for component in [ns, ew, vt]: component.trim(start_time, end_time)")


def _merge_segments(fd, e: ast.AST, at: ast.AST, depth: int = 0):
    """The ordered parts of a dictionary merge: ("key", k) for a literal entry, ("spread", "meta") for the constructor's
    `meta` argument (in the world where it was given), ("spread", "{}") for an empty dict, ("spread", <text>) otherwise.
    Forms: dict displays with `**`, `dict(a, **b)`, `a | b`, local names bound once, `{} if meta is None else meta`."""
    if depth > 6:
        raise AnalysisError("SeismicRecording3C.__init__: metadata merge too deep")
    if isinstance(e, ast.Dict):
        out = []
        for k, v in zip(e.keys, e.values):
            if k is None:
                out += _merge_segments(fd, v, at, depth + 1)
            else:
                out.append(("key", ast.unparse(k)))
        return out or [("spread", "{}")]
    if isinstance(e, ast.BinOp) and isinstance(e.op, ast.BitOr):
        return _merge_segments(fd, e.left, at, depth + 1) + _merge_segments(fd, e.right, at, depth + 1)
    if isinstance(e, ast.Call) and call_name(e) == "dict":
        out = []
        for a in e.args:
            out += _merge_segments(fd, a, at, depth + 1)
        for k in e.keywords:
            out += _merge_segments(fd, k.value, at, depth + 1) if k.arg is None else [("key", repr(k.arg))]
        return out or [("spread", "{}")]
    if isinstance(e, ast.IfExp):
        t = e.test
        if isinstance(t, ast.Compare) and len(t.ops) == 1 and isinstance(t.left, ast.Name) and t.left.id == "meta" \
                and isinstance(t.comparators[0], ast.Constant) and t.comparators[0].value is None:
            if isinstance(t.ops[0], ast.Is):
                return _merge_segments(fd, e.orelse, at, depth + 1)
            if isinstance(t.ops[0], ast.IsNot):
                return _merge_segments(fd, e.body, at, depth + 1)
        raise AnalysisError("SeismicRecording3C.__init__: conditional part of the metadata merge not recognised")
    if isinstance(e, ast.BoolOp) and isinstance(e.op, ast.Or) and len(e.values) == 2 and isinstance(e.values[0], ast.Name) and e.values[0].id == "meta":
        return [("spread", "meta")]
    if isinstance(e, ast.Name):
        if e.id == "meta" and "meta" in fd.params:
            defs = reaching(fd).def_stmts("meta", at)
            real = [d for d in defs if isinstance(d, ast.stmt)]
            if not real:
                return [("spread", "meta")]
            if len(real) < len(defs) and all(isinstance(d, ast.Assign) and isinstance(d.value, ast.Dict) and not d.value.keys for d in real):
                return [("spread", "meta")]      # `if meta is None: meta = {}`: the argument, or nothing
            if len(real) == 1 and isinstance(real[0], ast.Assign):
                return _merge_segments(fd, real[0].value, real[0], depth + 1)
            if all(isinstance(d, ast.Assign) and isinstance(d.value, ast.Dict) and not d.value.keys for d in real):
                return [("spread", "meta")]      # `if meta is None: meta = {}`
            raise AnalysisError("SeismicRecording3C.__init__: `meta` is rebound in an unrecognised way")
        defs = [d for d in reaching(fd).def_stmts(e.id, at) if isinstance(d, ast.stmt)]
        if len(defs) == 1 and isinstance(defs[0], ast.Assign) and len(defs[0].targets) == 1 and isinstance(defs[0].targets[0], ast.Name):
            return _merge_segments(fd, defs[0].value, defs[0], depth + 1)
        raise AnalysisError(f"SeismicRecording3C.__init__: `{e.id}` in the metadata merge is not bound exactly once")
    return [("spread", ast.unparse(e))]
