"""C12 - HVSR results survive a write/read round trip after any history."""
from __future__ import annotations

import ast
import re
from typing import Dict, List, Optional, Set

import sympy as sp

from ..astutil import call_name, calls_in, own_nodes, unparse, kwarg, dotted, bind_call
from ..cfg import cfg_of
from ..dataflow import reaching, value_sources, PARAM
from ..expr import Translator, equal, forward_substitute
from ..model import AnalysisError, Program, norm_key, parent_of
from ..report import Checker
from .common import engine, group_effects, describe_effect, chain_text

EXPLANATION = (
    "Def-use, table, layout and ordering rules over object_io.write_hvsr_object_to_file / "
    "read_hvsr_object_from_file and the classes they persist. Decided: (R1) every use of `hvsr` in the writer "
    "sees the parameter (no rebinding): the derived columns are those of the object that was passed; (R2) the "
    "meta keys the writer adds per branch equal the keys the reader pops per branch, each key is wired to the "
    "attribute of the same name on both sides, and the keys the reader requires (search_range_in_hz, "
    "find_peaks_kwargs) are stored by every update_peaks_bounded whenever the range changes; (R3) column layout "
    "of the writer (0 frequency, 1:-2 curves transposed, -2 mean, -1 std with the mean-curve distribution; per-"
    "azimuth blocks in azimuth order by a running start/stop index) equals the reader's slices, and the column "
    "header written for azimuthal curves matches the reader's pattern; (R4) np.savetxt keeps >= 17 significant "
    "digits; (R5) in the reader the masks are restored after the peak update that overwrites them, for every "
    "azimuth; (R6) the writer does not modify the object; (R7) only HvsrAzimuthal.update_peaks_bounded updates "
    "the peaks of the per-azimuth members, so the search range persisted with an azimuthal object is the one "
    "its members use. Not decided: np.loadtxt/savetxt parsing exactness (assumption 2).")

RULES = {
    "C12.R1": "the object written is the object passed (no rebinding of `hvsr` before any use)",
    "C12.R2": "writer/reader meta key agreement and wiring; required keys are stored by update_peaks_bounded",
    "C12.R3": "writer column layout == reader slices; derived columns use distribution_mc; header matches the reader's pattern",
    "C12.R4": "np.savetxt precision >= 17 significant digits",
    "C12.R5": "reader restores masks after update_peaks_bounded, per azimuth",
    "C12.R6": "the writer does not mutate the object",
    "C12.R7": "per-azimuth members' peaks are only updated through HvsrAzimuthal.update_peaks_bounded",
}

W = "object_io.write_hvsr_object_to_file"
R = "object_io.read_hvsr_object_from_file"


def _branches(f, subject_pred) -> Dict[str, ast.If]:
    """top-level if/elif chain -> {label: If node}"""
    out = {}
    for st in f.node.body:
        cur = st
        while isinstance(cur, ast.If):
            lab = subject_pred(cur.test)
            if lab:
                out[lab] = cur
            cur = cur.orelse[0] if len(cur.orelse) == 1 and isinstance(cur.orelse[0], ast.If) else None
    return out


def run(ck: Checker, prog: Program, tier: str):
    w, r = prog.func(W), prog.func(R)
    ck.guard(_r1, ck, w)
    ck.guard(_r2, ck, prog, w, r)
    ck.guard(_r3, ck, prog, w, r)
    ck.guard(_r4, ck, w)
    ck.guard(_r5, ck, r)
    ck.guard(_r6, ck, prog, w)
    ck.guard(_r7, ck, prog)
    ck.guard(_meta_private, ck, prog)
    # what the file says about the peak search (range, find_peaks arguments) is what the object recorded when it searched:
    # the update tables of C08 (range / arguments remembered, metadata a private copy)
    from . import c08
    with ck.borrow(c08, "C12.R7+"):
        ck.guard(c08._r2, ck, prog)         # includes the update tables
        ck.guard(c08._r3, ck, prog)
        ck.guard(c08._r4, ck, prog)
    from . import c05, c06
    with ck.borrow(c05, "C12.R3+"):
        ck.guard(c05._single_window_guard, ck, prog, prog.cls("HvsrTraditional"))
    with ck.borrow(c06, "C12.R7+"):
        ck.guard(c06._entry_state, ck, prog, prog.func(c06.OUTER))
    ck.guard(_writers_truncate, ck, prog)
    # the object read back equals the object written only if asking the object for a statistic / a peak does not change it
    # (the writer and every caller before it do): accessors are read-only (rule of C20)
    from . import c20
    with ck.borrow(c20, "C12.R6+"):
        ck.guard(c20._read_only, ck, prog)
    # the state that is written is the container's own: members are private copies (rule of C08), so nothing changes a member
    # behind the back of the metadata that is written with it
    with ck.borrow(c08, "C12.R7+"):
        ck.guard(c08._members_private, ck, prog)
    from .common import check_identity_comparisons as _cic
    ck.guard(_cic, ck, prog, "C12.R1", "C12")


def _meta_private(ck: Checker, prog: Program):
    """The reader hands the parsed header dict to the constructors and reads the stored range from it afterwards; a
    constructor that keeps (and then updates) the caller's dict would overwrite the range before it is read."""
    from .common import reachable_nonlocal
    eng = engine(prog)
    for q in ("hvsr_curve.HvsrCurve.__init__", "hvsr_traditional.HvsrTraditional.__init__", "hvsr_azimuthal.HvsrAzimuthal.__init__"):
        init = prog.func(q)
        if "meta" not in init.params:
            raise AnalysisError(f"{q}: no `meta` parameter")
        pi = init.params.index("meta")
        s_ = eng.summary(init)
        ent = s_.heap.get((("P", 0, ()), "meta"))
        if ent is None:
            raise AnalysisError(f"{q}: self.meta is not stored")
        shared = [org for _p, org in reachable_nonlocal(eng, s_, ent[0], max_depth=1) if org[0] == "P" and org[1] == pi and _p == ()]
        writes = [e for e in s_.effects if e.origin[0] == "P" and e.origin[1] == pi]
        if not shared and not writes:
            ck.ok("C12.R2", q, "self.meta is a private dict; the caller's dict is not written")
        else:
            ck.violation("C12.R2", q, "self.meta shares the caller's dict",
                         "the constructor keeps the caller's meta dict (and updates it when the peaks are evaluated): the reader's parsed "
                         "header would lose its stored search range before it is applied", loc=init.loc())


# --------------------------------------------------------------------------- R1
def _r1(ck: Checker, w):
    rd = reaching(w)
    uses = [n for n in own_nodes(w.node) if isinstance(n, ast.Name) and n.id == w.params[0] and isinstance(n.ctx, ast.Load)]
    ck.floor("C12.R1", len(uses), 10, f"uses of `{w.params[0]}` in the writer")
    bad = {}
    for u in uses:
        if not rd.only_param(w.params[0], u):
            defs = [d for d in rd.def_stmts(w.params[0], u) if d is not PARAM]
            st = parent_of(u)
            while st is not None and not isinstance(st, ast.stmt):
                st = parent_of(st)
            bad.setdefault(norm_key(st, 100), (u, defs))
    if not bad:
        ck.ok("C12.R1", W, f"{len(uses)} uses of `{w.params[0]}`, all reached by the parameter only")
    for key, (u, defs) in bad.items():
        ck.violation("C12.R1", W, key,
                     f"`{w.params[0]}` may have been rebound by `{norm_key(defs[0], 60) if defs else '?'}` when this statement runs: "
                     f"the value written is not that of the object passed to the writer", loc=w.loc(u))
    for p in ("distribution_mc", "distribution_fn"):
        for n in own_nodes(w.node):
            if isinstance(n, ast.Name) and n.id == p and isinstance(n.ctx, ast.Load) and not rd.only_param(p, n):
                ck.violation("C12.R1", W, f"{p} rebound", f"`{p}` is rebound before use", loc=w.loc(n))


# --------------------------------------------------------------------------- R2
def _class_label(test: ast.AST) -> Optional[str]:
    if isinstance(test, ast.Call) and call_name(test) == "isinstance" and len(test.args) == 2 and isinstance(test.args[1], ast.Name):
        return test.args[1].id
    return None


def _method_label(test: ast.AST) -> Optional[str]:
    if isinstance(test, ast.Compare) and isinstance(test.comparators[0], ast.Constant) and "processing_method" in unparse(test.left):
        return test.comparators[0].value
    return None


PAIR = {"HvsrTraditional": "traditional", "HvsrAzimuthal": "azimuthal", "HvsrDiffuseField": "diffuse_field"}


def _r2(ck: Checker, prog: Program, w, r):
    wb = _branches(w, _class_label)
    rb = _branches(r, _method_label)
    for cls, meth in PAIR.items():
        if cls not in wb or meth not in rb:
            ck.violation("C12.R2", W if cls not in wb else R, f"branch {cls}/{meth}", f"no branch for {cls} / '{meth}'", loc=w.loc())
            continue
        written: Dict[str, ast.AST] = {}
        for st in ast.walk(wb[cls]):
            if st is not wb[cls] and isinstance(st, ast.If) and st in wb[cls].orelse:
                break
        body = ast.Module(body=wb[cls].body, type_ignores=[])
        for st in ast.walk(body):
            if isinstance(st, ast.Assign) and isinstance(st.targets[0], ast.Subscript) and unparse(st.targets[0].value) == "meta" \
                    and isinstance(st.targets[0].slice, ast.Constant):
                written[st.targets[0].slice.value] = st
        popped: Dict[str, ast.AST] = {}
        rbody = ast.Module(body=rb[meth].body, type_ignores=[])
        for c in calls_in(rbody, "pop"):
            if unparse(c.func.value) == "meta" and c.args and isinstance(c.args[0], ast.Constant):
                popped[c.args[0].value] = c
        if set(written) == set(popped):
            ck.ok("C12.R2", W, f"{cls}: keys {sorted(written)}", detail="same keys added by the writer and popped by the reader")
        else:
            ck.violation("C12.R2", W, f"{cls}: key sets",
                         f"writer adds {sorted(written)} but reader pops {sorted(popped)} for {meth}", loc=w.loc(wb[cls]))
        # wiring: key name <-> attribute name
        for key, st in written.items():
            attr = key[:-1] if key.endswith("masks") else key
            src = st.value
            names = {x.attr for x in ast.walk(src) if isinstance(x, ast.Attribute) and x.attr.startswith("valid_")}
            if isinstance(src, ast.Name):
                # list built in a loop: find its append
                for c in calls_in(body, "append"):
                    if unparse(c.func.value) == src.id:
                        names |= {x.attr for x in ast.walk(c) if isinstance(x, ast.Attribute) and x.attr.startswith("valid_")}
            if names == {attr}:
                ck.ok("C12.R2", W, f"meta['{key}'] <- {attr}")
            else:
                ck.violation("C12.R2", W, f"meta['{key}']", f"key '{key}' stores {sorted(names)} instead of `{attr}`", loc=w.loc(st))
        for key, c in popped.items():
            attr = key[:-1] if key.endswith("masks") else key
            tgt = _assigned_attr(rbody, c)
            if tgt == attr:
                ck.ok("C12.R2", R, f"{attr} <- meta.pop('{key}')")
            else:
                ck.violation("C12.R2", R, f"meta.pop('{key}')", f"value stored under '{key}' is restored into `{tgt}`", loc=r.loc(c))
    # keys required by the reader are written whenever the search range changes
    need = {"search_range_in_hz", "find_peaks_kwargs"}
    for cname in ("HvsrCurve", "HvsrTraditional", "HvsrAzimuthal"):
        m = prog.cls(cname).methods.get("update_peaks_bounded")
        if m is None:
            raise AnalysisError(f"{cname}.update_peaks_bounded not found")
        cfg = cfg_of(m)
        stores = {}
        for st in own_nodes(m.node):
            if isinstance(st, ast.Assign) and isinstance(st.targets[0], ast.Subscript) and unparse(st.targets[0].value) == "self.meta" \
                    and isinstance(st.targets[0].slice, ast.Constant):
                stores.setdefault(st.targets[0].slice.value, []).append(cfg.node(st))
        for key in sorted(need):
            nodes = stores.get(key, [])
            # every path that stores a new range (self._search_range_in_hz = ...) or fans out also stores meta[key]
            changers = [cfg.node(st) for st in own_nodes(m.node) if isinstance(st, ast.Assign)
                        and unparse(st.targets[0]) in ("self._search_range_in_hz",)]
            changers += [cfg.node(parent_stmt(c)) for c in calls_in(m.node, "update_peaks_bounded")]
            miss = None
            for ch in changers:
                if ch is None:
                    continue
                # path entry -> ch -> exit avoiding all stores of key
                if cfg.path_avoiding(cfg.entry, ch, nodes) is not None and cfg.path_avoiding(ch, cfg.exit, nodes) is not None:
                    miss = ch
            if nodes and miss is None:
                ck.ok("C12.R2", m.qualname, f"self.meta['{key}'] stored on every range change")
            else:
                ck.violation("C12.R2", m.qualname, f"self.meta['{key}']",
                             f"the search range can change without `meta['{key}']` being updated (the file would carry a stale value)",
                             loc=m.loc())
    # the value stored for the range is the range in use
    for cname in ("HvsrCurve", "HvsrTraditional", "HvsrAzimuthal"):
        m = prog.cls(cname).methods["update_peaks_bounded"]
        for st in own_nodes(m.node):
            if isinstance(st, ast.Assign) and unparse(st.targets[0]) == "self.meta['search_range_in_hz']":
                v = unparse(st.value)
                if v in ("self._search_range_in_hz", "tuple(search_range_in_hz)"):
                    ck.ok("C12.R2", m.qualname, norm_key(st), nontrivial=False)
                else:
                    ck.violation("C12.R2", m.qualname, norm_key(st), f"meta stores `{v}`, not the range in use", loc=m.loc(st))


def parent_stmt(n):
    while n is not None and not isinstance(n, ast.stmt):
        n = parent_of(n)
    return n


def _assigned_attr(body: ast.AST, call: ast.Call) -> Optional[str]:
    """attribute that receives (np.array of) the popped value, directly or through a zip loop variable"""
    st = parent_stmt(call)
    if isinstance(st, ast.Assign) and isinstance(st.targets[0], ast.Attribute):
        return st.targets[0].attr
    if isinstance(st, ast.For) and isinstance(st.iter, ast.Call) and call_name(st.iter) == "zip" and isinstance(st.target, ast.Tuple):
        for a, t in zip(st.iter.args, st.target.elts):
            if any(x is call for x in ast.walk(a)) and isinstance(t, ast.Name):
                for s2 in st.body:
                    if isinstance(s2, ast.Assign) and isinstance(s2.targets[0], ast.Attribute) and t.id in {x.id for x in ast.walk(s2.value) if isinstance(x, ast.Name)}:
                        return s2.targets[0].attr
    return None


# --------------------------------------------------------------------------- R3
def _r3(ck: Checker, prog: Program, w, r):
    wb = _branches(w, _class_label)
    rb = _branches(r, _method_label)
    # ---- writer layouts (column interpreter: direct column stores and running-index block loops)
    t = wb.get("HvsrTraditional")
    if t is None:
        raise AnalysisError("writer: HvsrTraditional branch not found")
    a = wb.get("HvsrAzimuthal")
    if a is None:
        raise AnalysisError("writer: HvsrAzimuthal branch not found")
    TX = Translator()
    TX.attr_of_bound = True
    TX.structured = True
    want_curves = {
        "traditional": TX.tr(ast.parse("[hvsr.amplitude]", mode="eval").body),
        "azimuthal": TX.tr(ast.parse("[_h.amplitude for _h in hvsr.hvsrs]", mode="eval").body),
    }
    for what, br in (("traditional", t), ("azimuthal", a)):
        lay = _writer_layout(prog, w, br.body)
        bad = list(lay["problems"])
        cols = lay["cols"]
        FRQ = TX.tr(ast.parse("hvsr.frequency", mode="eval").body)
        H, DMC = TX.sym("hvsr"), TX.sym("distribution_mc")
        want_cols = {"0": FRQ, "-2": sp.Function("mean_curve")(H, DMC), "-1": sp.Function("std_curve")(H, DMC)}
        for k, v in want_cols.items():
            g = cols.get(k)
            if g is None:
                bad.append(f"column {k} not written")
            elif g != v:
                bad.append(f"column {k} holds `{g}`, expected `{v}`")
        extra = sorted(set(cols) - set(want_cols))
        if extra:
            bad.append(f"unexpected column stores {extra}")
        if lay["curves"] is None:
            bad.append("curve columns 1:-2 not written")
        elif lay["curves"] != want_curves[what]:
            bad.append(f"curve columns hold the rows of {lay['curves']}, expected those of {want_curves[what]} (in order, starting at column 1)")
        if bad:
            ck.violation("C12.R3", W, f"{what} writer columns", "; ".join(bad), loc=w.loc(br))
        else:
            ck.ok("C12.R3", W, f"{what} writer columns", detail=f"0 <- frequency; 1:-2 <- rows of {want_curves[what]}; -2 <- mean curve; -1 <- std curve (distribution_mc)")
    # headers: one per curve in the same nesting order as the blocks (loop nest or comprehension - names are free)
    fstr, gens, guarded = _azimuth_header_nest(a)
    if fstr is None:
        raise AnalysisError(f"{W}: the per-curve header text of the azimuthal branch was not found")
    TH = Translator()
    TH.structured = True
    TH.attr_of_bound = True
    it = [sp.Symbol(f"<h{i}>", real=True) for i in range(len(gens))]
    got = []
    for i, (tg, itx) in enumerate(gens):
        got.append(TH.tr(itx))
        if isinstance(tg, ast.Name):
            TH.env[tg.id] = it[i]
        elif isinstance(tg, (ast.Tuple, ast.List)):
            for j, e in enumerate(tg.elts):
                if isinstance(e, ast.Name):
                    TH.env[e.id] = sp.Function("item")(it[i], sp.Integer(j))
    vals = [TH.tr(v.value) for v in fstr.values if isinstance(v, ast.FormattedValue)]
    Hs = TH.sym("hvsr")
    item = sp.Function("item")
    want_g = [sp.Function("zip")(sp.Function("attr_azimuths")(Hs), sp.Function("attr_hvsrs")(Hs)),
              sp.Function("range")(sp.Integer(1), sp.Function("attr_n_curves")(item(it[0], sp.Integer(1))) + 1)] if len(it) >= 2 else None
    if len(gens) == 2 and got == want_g and vals == [item(it[0], sp.Integer(0)), it[1]] and not guarded:
        ck.ok("C12.R3", W, "one header per curve, azimuth-major", nontrivial=False)
    else:
        ck.violation("C12.R3", W, "azimuthal headers", f"headers are not written one per curve in azimuth-major order (iteration nest {got}, values {vals}{', conditional' if guarded else ''})", loc=w.loc(a))
    # header f-string vs reader regex
    if fstr is not None:
        _header_vs_regex(ck, prog, w, fstr)
    # ---- reader slices
    rt = rb.get("traditional")
    if rt is None:
        raise AnalysisError("reader: traditional branch not found")
    from ..resolve import Resolver, canon
    RR = Resolver(prog, r, inline=False)
    cons = [c for c in calls_in(ast.Module(body=rt.body, type_ignores=[]), "HvsrTraditional")]
    want0 = canon(RR.expect("array[:, 0]"))
    want1 = canon(RR.expect("array[:, 1:-2].T"))
    ARR = RR.expect("array")
    got = []
    if len(cons) == 1 and len(cons[0].args) >= 2:
        st = parent_stmt(cons[0])
        arr_def = canon(RR.value(ast.Name(id="array", ctx=ast.Load()), st))
        got = [canon(RR.value(x, st)).subs(arr_def, ARR) for x in cons[0].args[:2]]
    if got == [want0, want1]:
        ck.ok("C12.R3", R, norm_key(cons[0]), detail="frequency = column 0, curves = columns 1:-2 transposed")
    else:
        ck.violation("C12.R3", R, "traditional reader slices",
                     f"reader builds HvsrTraditional from {got}; writer layout is column 0 / 1:-2", loc=r.loc(rt))
    ra = rb.get("azimuthal")
    if ra is None:
        raise AnalysisError("reader: azimuthal branch not found")
    _reader_azimuthal(ck, r, ra)
    rdif = rb.get("diffuse_field")
    if rdif is not None:
        cons = [c for c in calls_in(ast.Module(body=rdif.body, type_ignores=[]), "HvsrDiffuseField")]
        wd = wb.get("HvsrDiffuseField")
        gotd = {}
        for st in (wd.body if wd else []):
            if isinstance(st, ast.Assign) and isinstance(st.targets[0], ast.Subscript) and unparse(st.targets[0].value) == "array":
                gotd[_slice_key(st.targets[0].slice)] = unparse(st.value)
        gotr = []
        if len(cons) == 1 and len(cons[0].args) >= 2:
            st = parent_stmt(cons[0])
            arr_def = canon(RR.value(ast.Name(id="array", ctx=ast.Load()), st))
            gotr = [canon(RR.value(x, st)).subs(arr_def, ARR) for x in cons[0].args[:2]]
        okd = gotr == [want0, canon(RR.expect("array[:, 1]"))] and \
            gotd == {"(slice(None, None, None), 0)": "hvsr.frequency", "(slice(None, None, None), 1)": "hvsr.amplitude"}
        if okd:
            ck.ok("C12.R3", R, "diffuse field: columns 0, 1")
        else:
            ck.violation("C12.R3", R, "diffuse field layout", f"writer {gotd} vs reader {[unparse(x) for c in cons for x in c.args[:2]]}", loc=r.loc(rdif))


def _azimuth_header_nest(branch: ast.If):
    """The f-string that labels one curve of one azimuth, with the iteration constructs around it from the outside in:
    for-loops and/or comprehension generators.  Returns (f-string, [(target, iterable)], guarded?)."""
    best = None
    for x in ast.walk(ast.Module(body=branch.body, type_ignores=[])):
        if isinstance(x, ast.JoinedStr) and sum(isinstance(v, ast.FormattedValue) for v in x.values) == 2 \
                and any(isinstance(v, ast.Constant) and "azimuth" in str(v.value) for v in x.values):
            best = x
    if best is None:
        return None, [], False
    gens, guarded = [], False
    n = best
    while n is not None and n is not branch:
        p = parent_of(n)
        if isinstance(p, (ast.ListComp, ast.GeneratorExp, ast.SetComp)) and n is p.elt:
            gens = [(g.target, g.iter) for g in p.generators] + gens
            guarded = guarded or any(g.ifs for g in p.generators)
        elif isinstance(p, ast.For) and any(n is b for b in p.body):
            gens = [(p.target, p.iter)] + gens
            guarded = guarded or any(isinstance(z, (ast.Break, ast.Continue)) for z in ast.walk(p))
        elif isinstance(p, (ast.If, ast.While, ast.Try)) and p is not branch:
            guarded = True
        n = p
    return best, gens, guarded


def _writers_truncate(ck: Checker, prog: Program):
    """A written file holds one object: the writers create / truncate their target, they never append to an existing file."""
    n = 0
    mod = prog.module("object_io")
    for f in [g for g in prog.funcs.values() if g.module is mod and g.name.startswith("write_")]:
        for c in calls_in(f.node, "open"):
            if not isinstance(c.func, ast.Name):
                continue
            n += 1
            mode = c.args[1] if len(c.args) > 1 else kwarg(c, "mode")
            mv = mode.value if isinstance(mode, ast.Constant) and isinstance(mode.value, str) else None
            if mv is not None and mv[0] in ("w", "x") and "+" not in mv:
                ck.ok("C12.R1", f.qualname, f"open(..., {mv!r})", nontrivial=False)
            else:
                ck.violation("C12.R1", f.qualname, norm_key(c, 80), f"the output file is opened with mode {unparse(mode) if mode is not None else '<default: read>'}: "
                             f"an existing file is not replaced (a second object would be appended to / mixed with the first)", loc=f.loc(c))
        for c in calls_in(f.node, "savetxt"):
            n += 1
            ck.ok("C12.R1", f.qualname, "np.savetxt(target, ...)", nontrivial=False, detail="creates / truncates the file it is given by name")
    ck.floor("C12.R1", n, 1, "file-writing calls of the writers")


def _writer_layout(prog: Program, w, stmts):
    """Interpret the column stores of one writer branch.
    Returns {"cols": {"0"|"-1"|...: value}, "curves": canonical sequence of the 2-D arrays whose rows fill columns 1:-2, "problems": [...]}."""
    from ..pathtable import PathTable
    from ..dataflow import loop_carried
    from .common import pkg_call_hook
    gi, sl, idx_, NONE = sp.Function("getitem"), sp.Function("slice"), sp.Function("idx"), sp.Symbol("None")
    comp, gen = sp.Function("comp"), sp.Function("gen")
    ALL = sl(NONE, NONE, NONE)
    hook = _method_hook(prog)
    pt = PathTable(prog, w.module, call_hook=hook, structured=True)
    leaves = pt.leaves(stmts)
    out = {"cols": {}, "curves": None, "problems": []}
    if len(leaves) != 1:
        raise AnalysisError(f"writer branch has {len(leaves)} paths")
    l = leaves[0]
    arr = None
    for e in l.events:
        if e[0] == "store" and id(e[3]) in l.store_at:
            base, ix = l.store_at[id(e[3])]
            if not (getattr(ix, "func", None) == idx_ and len(ix.args) == 2 and ix.args[0] == ALL):
                continue
            arr = base
            c = ix.args[1]
            if c.is_Integer:
                out["cols"][str(c)] = e[2]
            elif getattr(c, "func", None) == sl and c.args == (sp.Integer(1), sp.Integer(-2), NONE):
                v = e[2]
                fnm = lambda z: getattr(getattr(z, "func", None), "__name__", "")   # noqa: E731
                if fnm(v) == "attr_T" and fnm(v.args[0]) in ("vstack", "concatenate", "row_stack") and len(v.args[0].args) == 1:
                    # (blocks stacked row-wise).T: the blocks' rows, in order
                    out["curves"] = v.args[0].args[0]
                elif fnm(v) == "attr_T":
                    out["curves"] = sp.Tuple(v.args[0])
                elif fnm(v) in ("hstack", "column_stack") and len(v.args) == 1 and fnm(v.args[0]) == "comp" and fnm(v.args[0].args[0]) == "attr_T":
                    # transposed blocks side by side, in the order of the sequence
                    cc = v.args[0]
                    out["curves"] = comp(cc.args[0].args[0], *cc.args[1:])
                elif fnm(v) in ("hstack", "column_stack") and len(v.args) == 1 and isinstance(v.args[0], sp.Tuple) and all(fnm(z) == "attr_T" for z in v.args[0]):
                    out["curves"] = sp.Tuple(*[z.args[0] for z in v.args[0]])
                else:
                    out["problems"].append(f"columns 1:-2 hold {v}, not a transposed array of curves")
            else:
                out["problems"].append(f"column store at {c} not recognised")
        elif e[0] == "loop":
            lp = e[3]
            if not any(isinstance(x, ast.Subscript) and isinstance(x.ctx, ast.Store) and isinstance(x.slice, ast.Tuple) for x in ast.walk(lp)):
                continue
            env0 = l.snaps[id(lp)][0]
            if not isinstance(lp, ast.For) or not isinstance(lp.target, ast.Name) or any(isinstance(x, (ast.Break, ast.Continue, ast.If)) for x in ast.walk(lp)):
                out["problems"].append(f"block loop `{norm_key(lp, 60)}` not recognised")
                continue
            T0 = Translator(env=env0, call_hook=hook)
            T0.attr_of_bound = True
            T0.structured = True
            seq = T0.tr(lp.iter)
            carried = sorted({nm for (nm, _u, _d) in loop_carried(w, lp)} & set(env0))
            if len(carried) != 1:
                out["problems"].append(f"block loop carries {carried} between blocks")
                continue
            sv = carried[0]
            S = sp.Symbol("<start>", integer=True)
            ITEM = sp.Symbol("<item>", real=True)
            env = dict(env0)
            env[sv] = S
            env[lp.target.id] = ITEM
            sub = PathTable(prog, w.module, call_hook=hook, env=env, structured=True).leaves(lp.body)
            if len(sub) != 1:
                out["problems"].append("branching block loop")
                continue
            sl_ = sub[0]
            stores = [(sl_.store_at[id(x[3])], x[2]) for x in sl_.events if x[0] == "store" and id(x[3]) in sl_.store_at]
            if len(stores) != 1:
                out["problems"].append(f"{len(stores)} stores per block")
                continue
            (base, ix), val = stores[0]
            width = sp.simplify(sl_.env[sv] - S)
            okb = getattr(ix, "func", None) == idx_ and ix.args[0] == ALL and getattr(ix.args[1], "func", None) == sl \
                and ix.args[1].args[0] == S and sp.simplify(ix.args[1].args[1] - S - width) == 0 and ix.args[1].args[2] == NONE
            if not okb or width.has(S):
                out["problems"].append(f"block stored at {ix} while the running index advances by {width}: blocks are not laid out consecutively")
                continue
            if env0[sv] != 1:
                out["problems"].append(f"the first block starts at column {env0[sv]}, not 1")
            if getattr(val, "func", None) != sp.Function("attr_T"):
                out["problems"].append(f"a block holds {val}, not a transposed array of curves")
                continue
            block = val.args[0]
            rows = [sp.Function("len")(block), gi(sp.Function("attr_shape")(block), sp.Integer(0))]
            if getattr(block, "func", None) == sp.Function("attr_amplitude"):
                rows.append(sp.Function("attr_n_curves")(block.args[0]))
            if width not in rows:
                out["problems"].append(f"a block of {block} is given {width} columns, not one per curve")
            it0 = sp.Symbol("_it0")
            if block == ITEM:
                out["curves"] = seq
            else:
                out["curves"] = comp(block.subs(ITEM, it0), gen(it0, seq))
            arr = base
    if not out["cols"] and out["curves"] is None and not out["problems"]:
        # whole-array construction: np.column_stack([frequency, <curve blocks>, mean, std]) - one column per entry, in order
        fnm = lambda z: getattr(getattr(z, "func", None), "__name__", "")   # noqa: E731
        stacks = [v for v in l.env.values() if fnm(v) == "column_stack" and len(v.args) == 1 and isinstance(v.args[0], sp.Tuple) and len(v.args[0]) >= 4]
        if len(stacks) == 1:
            parts = list(stacks[0].args[0])
            out["cols"] = {"0": parts[0], "-2": parts[-2], "-1": parts[-1]}
            mid = parts[1:-2]
            if len(mid) == 1 and fnm(mid[0]) == "attr_T":
                out["curves"] = sp.Tuple(mid[0].args[0])
            elif len(mid) == 1 and fnm(mid[0]) == "splat" and fnm(mid[0].args[0]) == "comp" and fnm(mid[0].args[0].args[0]) == "attr_T":
                cc = mid[0].args[0]
                out["curves"] = comp(cc.args[0].args[0], *cc.args[1:])
            elif all(fnm(z) == "attr_T" for z in mid):
                out["curves"] = sp.Tuple(*[z.args[0] for z in mid])
            else:
                out["problems"].append(f"the curve columns of the stacked array are {mid}, not transposed arrays of curves")
    return out


def _method_hook(prog: Program):
    """hvsr.mean_curve(distribution=d) / hvsr.std_curve(d) -> canonical mean_curve(hvsr, d)."""
    def hook(call, T):
        if isinstance(call.func, ast.Attribute) and call.func.attr in ("mean_curve", "std_curve") and isinstance(call.func.value, ast.Name):
            d = kwarg(call, "distribution") or (call.args[0] if call.args else None)
            if d is None:
                return None
            return sp.Function(call.func.attr)(T.tr(call.func.value), T.tr(d))
        return None
    return hook


def _slice_key(s: ast.AST) -> str:
    def one(x):
        if isinstance(x, ast.Slice):
            return "slice(%s, %s, %s)" % tuple(unparse(y) if y is not None else "None" for y in (x.lower, x.upper, x.step))
        return unparse(x)
    if isinstance(s, ast.Tuple):
        return "(" + ", ".join(one(e) for e in s.elts) + ")"
    return one(s)


def _cmp_layout(ck, w, what, got, want, node):
    bad = []
    for k, v in want.items():
        g = got.get(k)
        if g is None:
            bad.append(f"column {k} not written")
        elif _norm_call(g) != _norm_call(v):
            bad.append(f"column {k} holds `{g}`, expected `{v}`")
    if bad:
        ck.violation("C12.R3", W, f"{what} columns", "; ".join(bad), loc=w.loc(node))
    else:
        ck.ok("C12.R3", W, f"{what} columns", detail="; ".join(f"{k} <- {v}" for k, v in want.items()))


def _norm_call(src: str) -> str:
    # accept positional distribution argument
    return re.sub(r"\(distribution=", "(", src.replace(" ", ""))


def _count_header_entries(branch) -> int:
    return 0


def _header_vs_regex(ck: Checker, prog: Program, w, fstr: ast.JoinedStr):
    import re._parser as rp   # regex AST only; the pattern is never executed
    mod = prog.module("regex")
    sym = mod.symbols.get("azimuth_expr")
    if not sym or not isinstance(sym[1], ast.Constant):
        raise AnalysisError("regex.azimuth_expr not found as string literal")
    pat = sym[1].value
    tree = rp.parse(pat)
    # first alternative (or the whole pattern): literal prefix, capturing group of digits '.' digits, literal suffix
    items = list(tree)
    if len(items) == 1 and items[0][0] is rp.BRANCH:
        items = list(items[0][1][1][0])
    prefix, suffix, group = "", "", None
    for op, av in items:
        if op is rp.LITERAL:
            if group is None:
                prefix += chr(av)
            else:
                suffix += chr(av)
        elif op is rp.SUBPATTERN and group is None:
            group = av[3]
        else:
            if group is not None:
                break
    # f-string skeleton
    parts = []
    for v in fstr.values:
        if isinstance(v, ast.Constant):
            parts.append(("lit", v.value))
        else:
            parts.append(("val", unparse(v.value), v.format_spec))
    good = len(parts) >= 3 and parts[0][0] == "lit" and parts[0][1] == prefix and parts[1][0] == "val" \
        and parts[1][1] == "azimuth" and parts[1][2] is None and parts[2][0] == "lit" and parts[2][1].startswith(suffix)
    # group must be digits '.' digits (float repr of a float azimuth)
    gtxt = None
    if group is not None:
        toks = [op for op, _ in group]
        gtxt = toks
        good = good and len(group) == 3 and group[0][0] is rp.MAX_REPEAT and group[1][0] is rp.LITERAL and chr(group[1][1]) == "." \
            and group[2][0] is rp.MAX_REPEAT
    else:
        good = False
    if good:
        ck.ok("C12.R3", W, f"header f'{prefix}{{azimuth}}{suffix}...' matches pattern '{pat}'")
    else:
        ck.violation("C12.R3", W, "azimuth header vs reader pattern",
                     f"the header written ({[p[:2] for p in parts]}) is not matched by the reader's pattern {pat!r} "
                     f"(prefix {prefix!r}, suffix {suffix!r})", loc=w.loc(fstr))


def _reader_azimuthal(ck: Checker, r, ra: ast.If):
    body = ast.Module(body=ra.body, type_ignores=[])
    loops = [st for st in ra.body if isinstance(st, ast.For) and any(call_name(c) == "HvsrTraditional" for c in calls_in(st))]
    if len(loops) != 1:
        raise AnalysisError("reader: azimuthal grouping loop not found")
    lp = loops[0]
    it = lp.iter
    ok_iter = isinstance(it, ast.Call) and call_name(it) == "enumerate" and unparse(it.args[0]) == "header_line[1:-2]" \
        and kwarg(it, "start") is not None and unparse(kwarg(it, "start")) == "1"
    cons_in = [c for c in calls_in(lp, "HvsrTraditional")]
    cons_after = [c for st in ra.body if st.lineno > lp.end_lineno for c in calls_in(st, "HvsrTraditional")]
    idx = unparse(lp.target.elts[0]) if isinstance(lp.target, ast.Tuple) else "?"
    ok_in = len(cons_in) == 1 and [unparse(x) for x in cons_in[0].args[:2]] == ["array[:, 0]", f"array[:, start_idx:{idx}].T"]
    ok_after = len(cons_after) == 1 and [unparse(x) for x in cons_after[0].args[:2]] == ["array[:, 0]", f"array[:, start_idx:{idx} + 1].T"]
    start_ok = any(isinstance(st, ast.Assign) and unparse(st.targets[0]) == "start_idx" and unparse(st.value) == "1" for st in ra.body) and \
        any(isinstance(st, ast.Assign) and unparse(st.targets[0]) == "start_idx" and unparse(st.value) == idx for st in ast.walk(lp))
    # azimuths appended in the same order as the blocks
    az_ok = len([c for c in calls_in(body, "append") if unparse(c.func.value) == "azimuths"]) == 2 and \
        len([c for c in calls_in(body, "append") if unparse(c.func.value) == "hvsrs"]) == 2
    cons = [c for c in calls_in(body, "HvsrAzimuthal")]
    ctor_ok = len(cons) == 1 and unparse(kwarg(cons[0], "hvsrs") or cons[0].args[0]) == "hvsrs" and \
        unparse(kwarg(cons[0], "azimuths") or cons[0].args[1]) == "azimuths"
    if ok_iter and ok_in and ok_after and start_ok and az_ok and ctor_ok:
        ck.ok("C12.R3", R, "azimuthal reader: blocks [start, idx) split where the header azimuth changes; last block [start, idx+1)")
    else:
        ck.violation("C12.R3", R, "azimuthal reader slices",
                     f"reader grouping does not mirror the writer's blocks (iter={ok_iter}, inner slice={ok_in}, last slice={ok_after}, "
                     f"start index={start_ok}, azimuth/hvsr lists={az_ok}, constructor={ctor_ok})", loc=r.loc(ra))


# --------------------------------------------------------------------------- R4
def _r4(ck: Checker, w):
    saves = calls_in(w.node, "savetxt")
    if len(saves) != 1:
        raise AnalysisError("writer: expected exactly one np.savetxt call")
    c = saves[0]
    fmt = kwarg(c, "fmt") or (c.args[2] if len(c.args) > 2 else None)
    if fmt is None:
        ck.ok("C12.R4", W, norm_key(c, 100), detail="default fmt %.18e")
        return
    txt = fmt.value if isinstance(fmt, ast.Constant) and isinstance(fmt.value, str) else None
    m = re.search(r"%[-+ #0]*\d*\.(\d+)([eEgG])", txt or "")
    if m and ((m.group(2) in "eE" and int(m.group(1)) >= 16) or (m.group(2) in "gG" and int(m.group(1)) >= 17)) or txt == "%r":
        ck.ok("C12.R4", W, norm_key(c, 100), detail=f"fmt {txt}")
    else:
        ck.violation("C12.R4", W, norm_key(c, 100), f"np.savetxt fmt={unparse(fmt)} keeps fewer than 17 significant digits: curves do not survive bit for bit",
                     loc=w.loc(c))


# --------------------------------------------------------------------------- R5
def _r5(ck: Checker, r):
    rb = _branches(r, _method_label)
    cfg = cfg_of(r)
    for meth in ("traditional", "azimuthal", "diffuse_field"):
        br = rb.get(meth)
        if br is None:
            continue
        body = ast.Module(body=br.body, type_ignores=[])
        if meth == "diffuse_field":
            _update_arguments(ck, r, body)
            continue
        ups = [cfg.node(parent_stmt(c)) for c in calls_in(body, "update_peaks_bounded")]
        ctor = [cfg.node(parent_stmt(c)) for c in calls_in(body) if call_name(c) in ("HvsrTraditional", "HvsrAzimuthal")]
        mask_stores = []
        for st in ast.walk(body):
            if isinstance(st, ast.Assign) and isinstance(st.targets[0], ast.Attribute) and st.targets[0].attr.startswith("valid_"):
                mask_stores.append(st)
        if len(mask_stores) < 2 or not ups:
            ck.violation("C12.R5", R, f"{meth}: mask restoration", f"found {len(mask_stores)} mask stores and {len(ups)} peak updates", loc=r.loc(br))
            continue
        bad = None
        for st in mask_stores:
            n = cfg.node(st)
            for u in ups + ctor:
                if u is not None and cfg.exists_path_avoiding(n, u, []):
                    bad = (st, u)
        # every update happens before the first store on every path: the update must dominate the stores
        idom = cfg.dominators()
        for st in mask_stores:
            n = cfg.node(st)
            if not any(cfg.dominates(u, n, idom) for u in ups if u is not None):
                bad = bad or (st, None)
        if bad:
            st, u = bad
            ck.violation("C12.R5", R, f"{meth}: {norm_key(st, 80)}",
                         "the accept masks are restored before the peak search that overwrites them (or without a preceding peak search): "
                         "rejected windows with a peak in range are re-accepted on read", loc=r.loc(st))
        else:
            ck.ok("C12.R5", R, f"{meth}: masks restored after update_peaks_bounded", detail=f"{len(mask_stores)} stores")
        if meth == "azimuthal":
            loops = [st for st in br.body if isinstance(st, ast.For) and any(s in ast.walk(st) for s in mask_stores)]
            good = len(loops) == 1 and isinstance(loops[0].iter, ast.Call) and call_name(loops[0].iter) == "zip" \
                and unparse(loops[0].iter.args[0]) == "hvsr.hvsrs" and not any(isinstance(x, (ast.Break, ast.Continue, ast.If)) for x in ast.walk(loops[0]))
            # a new member starts wherever the azimuth label of a column differs from the label before it (in either direction:
            # the azimuths of a file need not increase)
            for lp_ in [x for x in ast.walk(body) if isinstance(x, ast.For)]:
                for iff in [x for x in ast.walk(lp_) if isinstance(x, ast.If) and any(call_name(c) == "append" for b in x.body for c in calls_in(b))]:
                    t = iff.test
                    if isinstance(t, ast.UnaryOp) and isinstance(t.op, ast.Not) and isinstance(t.operand, ast.Compare) and len(t.operand.ops) == 1 and isinstance(t.operand.ops[0], ast.Eq):
                        continue
                    if isinstance(t, ast.Compare) and len(t.ops) == 1:
                        if isinstance(t.ops[0], ast.NotEq):
                            ck.ok("C12.R5", R, "azimuthal: a member ends where the column label changes", nontrivial=False)
                        elif isinstance(t.ops[0], (ast.Gt, ast.GtE, ast.Lt, ast.LtE)):
                            good = False
                            ck.violation("C12.R5", R, "azimuthal: grouping of the columns",
                                         f"columns are split into members by `{unparse(t)[:80]}`, not wherever the azimuth label changes: for azimuths that are not "
                                         f"stored in that order, columns of different azimuths are merged into one member", loc=r.loc(iff))
            # the members are handed to the container in the order of the file's columns - the order the stored mask lists follow
            for c in [c for c in calls_in(body) if call_name(c) == "HvsrAzimuthal"]:
                for kwn, pos in (("hvsrs", 0), ("azimuths", 1)):
                    a = kwarg(c, kwn) or (c.args[pos] if len(c.args) > pos else None)
                    if not isinstance(a, ast.Name):
                        continue
                    binds = [st for st in ast.walk(body) if isinstance(st, (ast.Assign, ast.AugAssign, ast.AnnAssign)) and any(
                        isinstance(t, ast.Name) and t.id == a.id for tt in (st.targets if isinstance(st, ast.Assign) else [st.target]) for t in ast.walk(tt))]
                    reorders = lambda st: any(call_name(x) in ("sorted", "argsort", "reversed", "lexsort", "sort", "flip", "unique") for x in calls_in(st)) or \
                        any(isinstance(x, ast.Slice) and x.step is not None for x in ast.walk(st))      # noqa: E731
                    extra = [st for st in binds[1:]] + [st for st in binds[:1] if reorders(st)]
                    sorts = [x for x in calls_in(body) if call_name(x) in ("sort", "reverse") and isinstance(x.func, ast.Attribute) and unparse(x.func.value) == a.id]
                    if extra or sorts:
                        bad_st = (extra or [parent_stmt(sorts[0])])[0]
                        good = False
                        ck.violation("C12.R5", R, f"azimuthal: order of `{a.id}`",
                                     f"`{norm_key(bad_st, 70)}` re-orders `{a.id}` after it was collected in file order: the stored per-azimuth masks (kept in file order) "
                                     f"are restored onto other azimuths", loc=r.loc(bad_st))
            if good:
                ck.ok("C12.R5", R, "azimuthal: masks restored for every azimuth in order", nontrivial=False)
            else:
                ck.violation("C12.R5", R, "azimuthal: per-azimuth restoration", "masks are not restored for every azimuth in order", loc=r.loc(br))
        _update_arguments(ck, r, body)


def _update_arguments(ck: Checker, r, body):
    """The range / find_peaks arguments handed to update_peaks_bounded on read are the entries of the metadata parsed from the file."""
    for c in calls_in(body, "update_peaks_bounded"):
        sr = kwarg(c, "search_range_in_hz")
        fk = kwarg(c, "find_peaks_kwargs")
        def from_file(e, key):
            """`e` reads entry `key` of the metadata parsed from the file: the local dict itself, or the object's `meta` only when
            that dict was assigned to it before this call (a constructor's own default search overwrites its copy)."""
            subs = [x for x in ast.walk(e) if isinstance(x, ast.Subscript) and isinstance(x.slice, ast.Constant) and x.slice.value == key]
            if len(subs) != 1:
                return False
            b = subs[0].value
            if isinstance(b, ast.Name):
                return True
            if isinstance(b, ast.Attribute) and b.attr == "meta" and isinstance(b.value, ast.Name):
                return any(isinstance(st, ast.Assign) and any(unparse(t) == unparse(b) for t in st.targets) and isinstance(st.value, ast.Name)
                           and (st.lineno, st.col_offset) < (c.lineno, c.col_offset) for st in ast.walk(body if isinstance(body, ast.AST) else ast.Module(body=list(body), type_ignores=[])))
            return False
        good = sr is not None and from_file(sr, "search_range_in_hz") and fk is not None and from_file(fk, "find_peaks_kwargs") \
            and isinstance(fk, ast.Subscript)
        if good:
            ck.ok("C12.R5", R, norm_key(c, 100), nontrivial=False)
        else:
            ck.violation("C12.R5", R, norm_key(c, 100), "the peak search on read does not use the stored range and kwargs", loc=r.loc(c))


# --------------------------------------------------------------------------- R6
def _r6(ck: Checker, prog: Program, w):
    s = engine(prog).summary(w)
    effs = [e for e in s.effects if e.origin[0] == "P" and e.origin[1] == 0]
    if not effs:
        ck.ok("C12.R6", W, "no effect on the object written")
    for (func, text), es in group_effects(prog, effs).items():
        ck.violation("C12.R6", func, text, f"writing a result modifies it: {describe_effect(es[0])}", loc=es[0].chain[0].loc, path=chain_text(es[0]))


# --------------------------------------------------------------------------- R7
def _r7(ck: Checker, prog: Program):
    n = 0
    for f in prog.funcs.values():
        if f.kind == "lambda":
            continue
        for c in calls_in(f.node, "update_peaks_bounded"):
            if not (isinstance(c.func, ast.Attribute) and isinstance(c.func.value, ast.Name)):
                continue
            if f.cls is not None and f.cls.name == "HvsrAzimuthal":
                continue
            recv = c.func.value.id
            if recv in ("self",):
                continue
            n += 1
            rd = reaching(f)
            member = False
            why = ""
            for d in rd.def_stmts(recv, c):
                if isinstance(d, ast.For):
                    srcs, stmts = value_sources(f, d.iter, d)
                    texts = [unparse(d.iter)] + [unparse(s.value) for s in stmts if isinstance(s, ast.Assign)]
                    if any(".hvsrs" in t for t in texts):
                        member = True
                        why = f"`{recv}` iterates {unparse(d.iter)} (from {[t for t in texts if '.hvsrs' in t][0]})"
            if member:
                # harmless when the same arguments were already applied through the object itself
                cfgf = cfg_of(f)
                idom = cfgf.dominators()
                me = cfgf.node(parent_stmt(c))
                argtxt = sorted(unparse(k.value) + "=" + (k.arg or "") for k in c.keywords) + [unparse(a) for a in c.args]
                for c2 in calls_in(f.node, "update_peaks_bounded"):
                    if c2 is c or not (isinstance(c2.func, ast.Attribute) and isinstance(c2.func.value, ast.Name)):
                        continue
                    a2 = sorted(unparse(k.value) + "=" + (k.arg or "") for k in c2.keywords) + [unparse(a) for a in c2.args]
                    n2 = cfgf.node(parent_stmt(c2))
                    if a2 == argtxt and rd.only_param(c2.func.value.id, c2) and n2 is not None and me is not None \
                            and cfgf.dominates(n2, me, idom) and all(rd.defs_at(x, c) == rd.defs_at(x, c2)
                                                                     for x in {y.id for k in c.keywords for y in ast.walk(k.value) if isinstance(y, ast.Name)}):
                        member = False
                        why = f"same arguments already applied through `{c2.func.value.id}` itself"
            if member:
                ck.violation("C12.R7", f.qualname, norm_key(c, 100),
                             f"update_peaks_bounded is called on the per-azimuth members directly ({why}): the azimuthal object's "
                             f"own search range (saved to file and used on read) is left stale", loc=f.loc(c))
            else:
                ck.ok("C12.R7", f.qualname, norm_key(c, 100))
    ck.floor("C12.R7", n, 4, "calls of update_peaks_bounded outside the result classes")
