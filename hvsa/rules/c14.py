"""C14 - spatial weights are nearest-sensor area fractions; Monte-Carlo fn uses them (bookkeeping half)."""
from __future__ import annotations

import ast
from typing import Dict, List

import sympy as sp

from ..astutil import call_name, calls_in, own_nodes, unparse, kwarg, dotted
from ..cfg import cfg_of, events_per_iteration
from ..dataflow import reaching
from ..expr import Translator, equal, forward_substitute
from ..model import AnalysisError, Program, norm_key, parent_of
from ..report import Checker
from .common import engine, group_effects, describe_effect, chain_text

EXPLANATION = (
    "Def-use, accumulator, table and effect rules over hvsr_spatial.py - the Monte-Carlo half and the bookkeeping "
    "of the Voronoi half only. Decided: (R1) _statistics normalises the weights first and never reads the raw "
    "weights again (degree 0 in a common weight factor); (R2) its accumulator loops are the weighted mean "
    "sum_i w_i sum_j x_ij / N and the reliability-weighted standard deviation sqrt((sum_i w_i sum_j (x_ij - mean)^2 / N) "
    "/ (1 - sum_i w_i^2 / N)); (R3) every random draw in montecarlo_fn is a method call on `rng` (the argument, or "
    "default_rng() only when it is None); no module-level numpy.random function is used in the module; (R4) "
    "conversion table: (lognormal generators, normal spatial) -> exp, (normal, lognormal) -> log, otherwise "
    "identity; statistics are taken after the conversion; the back-transform of the mean and realisations is "
    "controlled by the spatial distribution; unknown names raise; (R5) culling appends a point and its index under "
    "the same containment test; the weights are areas / area of the convex-hull mask, areas and indices come from "
    "the same tessellation call on that mask; no method of HvsrSpatial other than __init__ writes the object, its "
    "arguments or module state (no cached culling). NOT decided (and not decidable here): that a clipped Voronoi "
    "cell is the nearest-sensor region, non-negativity and unit sum of the weights, invariance under "
    "translation/scaling/order - these depend on scipy/shapely geometry on runtime values.")

RULES = {
    "C14.R1": "_statistics uses only the normalised weights",
    "C14.R2": "weighted mean and reliability-weighted standard deviation accumulators have the stated forms",
    "C14.R3": "all randomness comes from the `rng` object; default_rng() only as fallback",
    "C14.R4": "space-conversion table and back-transform keyed on the right distribution arguments; statistics in between; unknown names raise",
    "C14.R5": "culling pairs point and index; weights = cell areas / hull area from one tessellation; methods are stateless",
}


def run(ck: Checker, prog: Program, tier: str):
    ck.guard(_statistics, ck, prog)
    ck.guard(_montecarlo, ck, prog)
    ck.guard(_spatial, ck, prog)


def _statistics(ck: Checker, prog: Program):
    f = prog.func("hvsr_spatial._statistics")
    q = f.qualname
    first = [st for st in f.node.body if isinstance(st, ast.Assign)][0]
    T = Translator()
    w = T.sym("weights")
    nw_name = unparse(first.targets[0])
    if equal(T.tr(first.value), w / sp.Function("sum")(w)):
        ck.ok("C14.R1", q, norm_key(first), detail="weights normalised to unit sum first")
    else:
        ck.violation("C14.R1", q, norm_key(first), "the weights are not normalised to unit sum before use", loc=f.loc(first))
    raw_uses = [n for n in own_nodes(f.node) if isinstance(n, ast.Name) and n.id == "weights" and isinstance(n.ctx, ast.Load)
                and not any(x is n for x in ast.walk(first))]
    if not raw_uses:
        ck.ok("C14.R1", q, "raw weights are not read again")
    for n in raw_uses:
        st = n
        while not isinstance(st, ast.stmt):
            st = parent_of(st)
        ck.violation("C14.R1", q, norm_key(st), "the raw (un-normalised) weights are used here: the statistics would change when all weights are multiplied by a constant",
                     loc=f.loc(n))
    loops = [st for st in f.node.body if isinstance(st, ast.For)]
    if len(loops) != 2:
        raise AnalysisError(f"{q}: expected two accumulator loops")
    for lp in loops:
        if unparse(lp.iter) != f"zip(values, {nw_name})" or any(isinstance(x, (ast.Break, ast.Continue, ast.If)) for x in ast.walk(lp)):
            ck.violation("C14.R2", q, norm_key(lp), f"the accumulator loop does not pair every row of values with its normalised weight (zip(values, {nw_name}))", loc=f.loc(lp))
    row, wt = [unparse(e) for e in loops[0].target.elts]
    TT = Translator()
    R, Wt, MEAN = TT.sym(row), TT.sym(wt), TT.sym("mean")
    SUM = sp.Function("sum")
    inc = {}
    for lp in loops:
        TL = Translator()
        forward_substitute([st for st in lp.body if isinstance(st, ast.Assign)], TL)
        for st in lp.body:
            if isinstance(st, ast.AugAssign) and isinstance(st.op, ast.Add):
                inc[unparse(st.target)] = TL.tr(st.value)
    want = {"mean": Wt * SUM(R), "numerator": Wt * SUM((R - MEAN) ** 2), "w2": SUM(Wt * Wt)}
    alt = {"w2": Wt * Wt}
    for k, wv in want.items():
        g = inc.get(k)
        if g is not None and (equal(g, wv) or (k in alt and equal(g, alt[k]))):
            ck.ok("C14.R2", q, f"{k} += {wv}")
        else:
            ck.violation("C14.R2", q, f"accumulator {k}", f"`{k}` accumulates {g}; expected {wv} per generating location", loc=f.loc())
    # initial values and post-scaling
    inits = {unparse(st.targets[0]): unparse(st.value) for st in f.node.body if isinstance(st, ast.Assign) and unparse(st.targets[0]) in want}
    post = {unparse(st.target): unparse(st.value) for st in f.node.body if isinstance(st, ast.AugAssign) and isinstance(st.op, ast.Div)}
    if inits == {"mean": "0", "numerator": "0", "w2": "0"} and post == {"mean": f"len({row})", "numerator": f"len({row})", "w2": f"len({row})"}:
        ck.ok("C14.R2", q, "accumulators start at 0 and are divided by the number of realisations")
    else:
        ck.violation("C14.R2", q, "accumulator scaling", f"initial values {inits}, post-scaling {post}; expected zeros and division by len(row)", loc=f.loc())
    # mean is final before the second loop uses it
    mdiv = [st for st in f.node.body if isinstance(st, ast.AugAssign) and unparse(st.target) == "mean"]
    if mdiv and mdiv[0].lineno < loops[1].lineno and mdiv[0].lineno > loops[0].end_lineno:
        ck.ok("C14.R2", q, "deviations are taken about the final weighted mean", nontrivial=False)
    else:
        ck.violation("C14.R2", q, "mean before deviations", "the deviations are not taken about the finished weighted mean", loc=f.loc())
    sd = [st for st in f.node.body if isinstance(st, ast.Assign) and unparse(st.targets[0]) == "stddev"]
    T3 = Translator()
    if len(sd) == 1 and equal(T3.tr(sd[0].value), sp.sqrt(T3.sym("numerator") / (1 - T3.sym("w2")))):
        ck.ok("C14.R2", q, norm_key(sd[0]), detail="sqrt(numerator / (1 - sum w^2))")
    else:
        ck.violation("C14.R2", q, "standard deviation", "stddev is not sqrt(numerator/(1 - w2))", loc=f.loc())
    rets = [r for r in own_nodes(f.node) if isinstance(r, ast.Return)]
    if len(rets) == 1 and unparse(rets[0].value) == "(mean, stddev)":
        ck.ok("C14.R2", q, "returns (mean, stddev)", nontrivial=False)
    else:
        ck.violation("C14.R2", q, "return", "does not return (mean, stddev)", loc=f.loc())


def _montecarlo(ck: Checker, prog: Program):
    f = prog.func("hvsr_spatial.montecarlo_fn")
    q = f.qualname
    mod = f.module
    # R3
    bad = []
    for g in prog.funcs.values():
        if g.module is not mod:
            continue
        for c in calls_in(g.node):
            d = dotted(c.func) or ""
            if d.startswith(("np.random.", "numpy.random.", "random.")) and not d.endswith("default_rng"):
                bad.append((g, c))
    for g, c in bad:
        ck.violation("C14.R3", g.qualname, norm_key(c), f"`{unparse(c.func)}` draws from the global random state, not from the `rng` argument: results are not reproducible "
                     f"for a given generator", loc=g.loc(c))
    draws = [c for g in prog.funcs.values() if g.module is mod and (g is f or g.parent is f) for c in calls_in(g.node)
             if isinstance(c.func, ast.Attribute) and c.func.attr in ("normal", "lognormal", "uniform", "standard_normal", "random", "choice", "integers")]
    ck.floor("C14.R3", len(draws), 1, "random draws in montecarlo_fn")
    for c in draws:
        if unparse(c.func.value) == "rng":
            ck.ok("C14.R3", q, norm_key(c))
        else:
            ck.violation("C14.R3", q, norm_key(c), f"the draw uses `{unparse(c.func.value)}` instead of `rng`", loc=f.loc(c))
    fb = [st for st in f.node.body if isinstance(st, ast.If) and unparse(st.test) == "rng is None"]
    asg = [st for st in own_nodes(f.node) if isinstance(st, ast.Assign) and unparse(st.targets[0]) == "rng"]
    if len(fb) == 1 and len(asg) == 1 and parent_of(asg[0]) is fb[0] and unparse(asg[0].value) == "default_rng()":
        ck.ok("C14.R3", q, "rng = default_rng() only when no generator is given")
    else:
        ck.violation("C14.R3", q, "rng fallback", "`rng` is replaced or re-seeded other than `default_rng()` when it is None", loc=f.loc())
    # draw parameters: realization(_mean, _stddev) for zip(generator_means, generator_stddevs)
    nested = [g for g in prog.funcs.values() if g.parent is f and g.kind == "nested"]
    okd = False
    if len(nested) == 1:
        r = [x for x in own_nodes(nested[0].node) if isinstance(x, ast.Return)]
        okd = len(r) == 1 and unparse(r[0].value) == f"rng.normal({nested[0].params[0]}, {nested[0].params[1]}, size=n_realizations)"
    loops = [st for st in f.node.body if isinstance(st, ast.For)]
    okl = len(loops) == 1 and unparse(loops[0].iter) == "enumerate(zip(generator_means, generator_stddevs))" \
        and [unparse(st) for st in loops[0].body] == [f"realizations[{unparse(loops[0].target.elts[0])}, :] = realization({', '.join(unparse(e) for e in loops[0].target.elts[1].elts)})"]
    if okd and okl:
        ck.ok("C14.R3", q, "row r = rng.normal(mean_r, stddev_r, n_realizations)")
    else:
        ck.violation("C14.R3", q, "realisations", "row r of the realisations is not rng.normal(generator_means[r], generator_stddevs[r], size=n_realizations)", loc=f.loc())
    # R4 conversion table
    conv = [st for st in f.node.body if isinstance(st, ast.If) and "distribution_generators ==" in unparse(st.test) and "distribution_spatial ==" in unparse(st.test)]
    if len(conv) != 1:
        raise AnalysisError(f"{q}: conversion ladder not found")
    table = {}
    cur = conv[0]
    while isinstance(cur, ast.If):
        t = cur.test
        key = None
        if isinstance(t, ast.BoolOp) and isinstance(t.op, ast.And) and len(t.values) == 2:
            d = {}
            for v in t.values:
                if isinstance(v, ast.Compare) and isinstance(v.ops[0], ast.Eq) and isinstance(v.comparators[0], ast.Constant):
                    d[unparse(v.left)] = v.comparators[0].value
            key = (d.get("distribution_generators"), d.get("distribution_spatial"))
        acts = [unparse(b) for b in cur.body]
        table[key] = acts
        if len(cur.orelse) == 1 and isinstance(cur.orelse[0], ast.If):
            cur = cur.orelse[0]
        else:
            table["else"] = [unparse(b) for b in cur.orelse]
            break
    want = {("lognormal", "normal"): ["realizations = np.exp(realizations)"], ("normal", "lognormal"): ["realizations = np.log(realizations)"], "else": ["pass"]}
    if table == want:
        ck.ok("C14.R4", q, "(lognormal, normal) -> exp; (normal, lognormal) -> log; otherwise identity")
    else:
        ck.violation("C14.R4", q, "conversion table", f"conversion table is {table}; expected {want}", loc=f.loc(conv[0]))
    stat = [st for st in f.node.body if isinstance(st, ast.Assign) and calls_in(st.value, "_statistics")]
    back = [st for st in f.node.body if isinstance(st, ast.If) and st is not conv[0] and any("np.exp(fn_mean)" in unparse(b) for b in st.body)]
    okb = len(stat) == 1 and unparse(stat[0].value) == "_statistics(realizations, generator_weights)" and unparse(stat[0].targets[0]) == "(fn_mean, fn_stddev)" \
        and conv[0].end_lineno < stat[0].lineno
    if okb:
        ck.ok("C14.R4", q, norm_key(stat[0]), detail="statistics of the converted realisations with the given weights")
    else:
        ck.violation("C14.R4", q, "statistics call", "the spatial statistics are not _statistics(converted realisations, generator_weights)", loc=f.loc())
    okbt = len(back) == 1 and unparse(back[0].test) == "distribution_spatial == 'lognormal'" and not back[0].orelse \
        and sorted(unparse(b) for b in back[0].body) == ["fn_mean = np.exp(fn_mean)", "realizations = np.exp(realizations)"] \
        and stat and back[0].lineno > stat[0].lineno
    if okbt:
        ck.ok("C14.R4", q, norm_key(back[0]), detail="mean and realisations brought back from log space iff the spatial distribution is lognormal")
    else:
        ck.violation("C14.R4", q, "back-transform",
                     f"the back-transform is controlled by `{unparse(back[0].test) if back else None}`; it must depend on distribution_spatial == 'lognormal' "
                     f"(the space in which the statistics were taken)", loc=f.loc(back[0]) if back else f.loc())
    rets = [r for r in own_nodes(f.node) if isinstance(r, ast.Return) and parent_of(r) is f.node]
    if len(rets) == 1 and unparse(rets[0].value) == "(fn_mean, fn_stddev, realizations)":
        ck.ok("C14.R4", q, "returns (fn_mean, fn_stddev, realizations)", nontrivial=False)
    else:
        ck.violation("C14.R4", q, "return", "does not return (fn_mean, fn_stddev, realizations)", loc=f.loc())
    guards = {unparse(st.test): st for st in f.node.body if isinstance(st, ast.If) and any(isinstance(b, ast.Raise) for b in st.body)}
    need = {"distribution_generators not in ['normal', 'lognormal']", "distribution_spatial not in ['normal', 'lognormal']"}
    if need <= set(guards):
        ck.ok("C14.R4", q, "unknown distribution names raise")
    else:
        ck.violation("C14.R4", q, "unknown names", f"unknown distribution names are not refused (guards: {sorted(guards)})", loc=f.loc())
    rd = reaching(f)
    for p in ("distribution_generators", "distribution_spatial", "generator_weights"):
        uses = [n for n in own_nodes(f.node) if isinstance(n, ast.Name) and n.id == p and isinstance(n.ctx, ast.Load)]
        if any(not rd.only_param(p, u) for u in uses):
            ck.violation("C14.R4", q, f"{p} rebound", f"`{p}` is rebound inside montecarlo_fn", loc=f.loc())


def _spatial(ck: Checker, prog: Program):
    cls = prog.cls("HvsrSpatial")
    eng = engine(prog)
    # culling
    m = cls.methods["_cull_points"]
    cfg = cfg_of(m)
    loops = [st for st in m.node.body if isinstance(st, ast.For)]
    if len(loops) != 1:
        raise AnalysisError(f"{m.qualname}: loop not found")
    lp = loops[0]

    def classify(n):
        st = cfg.ast_of(n)
        if cfg.kind(n) != "stmt":
            return None
        for c in calls_in(st, "append"):
            v = unparse(c.func.value)
            if v == "passing_points":
                return 0
            if v == "passing_indices":
                return 1
        return None
    res = events_per_iteration(cfg, lp, classify, 2)
    it_ok = unparse(lp.iter) == "enumerate(self.coordinates)"
    if res <= {(0, 0), (1, 1)} and (1, 1) in res and it_ok:
        ck.ok("C14.R5", m.qualname, "a point and its index are appended together", detail=f"iteration outcomes {sorted(res)}")
    else:
        ck.violation("C14.R5", m.qualname, "culling pairs",
                     f"per sensor the (point, index) appends happen {sorted(res)} times: the returned indices would not identify the retained sensors", loc=m.loc(lp))
    idxv = unparse(lp.target.elts[0])
    xy = [unparse(e) for e in lp.target.elts[1].elts] if isinstance(lp.target.elts[1], ast.Tuple) else []
    app = {unparse(c.func.value): unparse(c.args[0]) for c in calls_in(lp, "append")}
    sel = [st for st in lp.body if isinstance(st, ast.If)]
    ok = app == {"passing_points": f"[{', '.join(xy)}]", "passing_indices": idxv} and len(sel) == 1 and unparse(sel[0].test) == "mask.contains(p)"
    pdef = [st for st in lp.body if isinstance(st, ast.Assign) and unparse(st.targets[0]) == "p"]
    ok = ok and len(pdef) == 1 and unparse(pdef[0].value) == f"Point({', '.join(xy)})"
    rets = [r for r in own_nodes(m.node) if isinstance(r, ast.Return)]
    ok = ok and len(rets) == 1 and unparse(rets[0].value) == "(np.array(passing_points), passing_indices)"
    if ok:
        ck.ok("C14.R5", m.qualname, "kept iff the boundary mask contains the sensor; index = position in the coordinate list")
    else:
        ck.violation("C14.R5", m.qualname, "containment test", "sensors are not kept exactly when the boundary mask contains them, with their own index", loc=m.loc())
    # weights
    w = cls.methods["_voronoi_weights"]
    d = {unparse(st.targets[0]): unparse(st.value) for st in w.node.body if isinstance(st, ast.Assign)}
    rets = [r for r in own_nodes(w.node) if isinstance(r, ast.Return)]
    good = d.get("mask") == "self._boundary_to_mask(boundary)" and d.get("total_area") == "mask.area" \
        and d.get("(regions, indices)") == "self._bounded_voronoi(mask)" and len(rets) == 1 and unparse(rets[0].value) == "(areas / total_area, indices)"
    lps = [st for st in w.node.body if isinstance(st, ast.For)]
    good = good and len(lps) == 1 and unparse(lps[0].iter) == "enumerate(regions)" and \
        any(isinstance(b, ast.Assign) and unparse(b.targets[0]) == f"areas[{unparse(lps[0].target.elts[0])}]" and unparse(b.value) == "Polygon(closed_points).area" for b in lps[0].body)
    if good:
        ck.ok("C14.R5", w.qualname, "weights = cell areas / area of the convex-hull mask; indices from the same tessellation")
    else:
        ck.violation("C14.R5", w.qualname, "area weights",
                     f"weights are not (clipped cell areas)/(area of the convex-hull mask) with indices from the same _bounded_voronoi(mask) call "
                     f"(total_area = {d.get('total_area')})", loc=w.loc())
    bm = cls.methods["_boundary_to_mask"]
    rets = [r for r in own_nodes(bm.node) if isinstance(r, ast.Return)]
    if len(rets) == 1 and unparse(rets[0].value).endswith(".convex_hull"):
        ck.ok("C14.R5", bm.qualname, "mask = convex hull of the boundary points", nontrivial=False)
    else:
        ck.violation("C14.R5", bm.qualname, "mask", "the boundary mask is not the convex hull of the boundary points", loc=bm.loc())
    bv = cls.methods["_bounded_voronoi"]
    d = {unparse(st.targets[0]): unparse(st.value) for st in bv.node.body if isinstance(st, ast.Assign)}
    rets = [r for r in own_nodes(bv.node) if isinstance(r, ast.Return)]
    good = d.get("(points, indices)") == "self._cull_points(mask)" and d.get("vor") == "Voronoi(points)" and len(rets) == 1 \
        and unparse(rets[0].value) == "(new_vertices, indices)" and any("polygon_before.intersection(mask)" in unparse(st) for st in ast.walk(bv.node) if isinstance(st, ast.Assign))
    if good:
        ck.ok("C14.R5", bv.qualname, "tessellation of the retained sensors, each cell clipped by the mask; indices of the same culling")
    else:
        ck.violation("C14.R5", bv.qualname, "tessellation bookkeeping", "cells and indices do not come from one culling of the sensors against the given mask", loc=bv.loc())
    # statelessness
    n = 0
    for name, mm in sorted(cls.methods.items()):
        if name == "__init__":
            continue
        n += 1
        s = eng.summary(mm)
        effs = [e for e in s.effects if e.origin[0] in ("P", "G")]
        # the finite-polygon helper normalises a local difference vector in place: local only
        if not effs:
            ck.ok("C14.R5", mm.qualname, "no effect on the object, its arguments or module state")
        for (func, text), es in group_effects(prog, effs).items():
            ck.violation("C14.R5", func, text, f"{mm.qualname} keeps state between calls: {describe_effect(es[0])} (a second boundary on the same object would reuse it)",
                         loc=es[0].chain[0].loc, path=chain_text(es[0]))
        extra = [dd for dd in mm.decorators if dd not in ("property", "staticmethod", "classmethod")]
        if extra:
            ck.violation("C14.R5", mm.qualname, f"decorator {extra[0]}", f"`@{extra[0]}` may cache results across boundaries", loc=mm.loc())
    ck.floor("C14.R5", n, 6, "methods of HvsrSpatial")
    init = cls.methods["__init__"]
    stores = sorted({unparse(t) for st in own_nodes(init.node) if isinstance(st, ast.Assign) for t in st.targets if unparse(t).startswith("self.")})
    if stores == ["self.coordinates"]:
        ck.ok("C14.R5", init.qualname, "the object holds only the coordinates", nontrivial=False)
    else:
        ck.violation("C14.R5", init.qualname, "object state", f"the object stores {stores}; expected only the coordinates (no caches)", loc=init.loc())
