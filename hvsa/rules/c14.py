"""C14 - spatial weights are nearest-sensor area fractions; Monte-Carlo fn uses them (bookkeeping half)."""
from __future__ import annotations

import ast
from typing import Dict, List

import sympy as sp

from ..astutil import call_name, calls_in, own_nodes, unparse, kwarg, dotted, bind_call
from ..cfg import cfg_of, events_per_iteration
from ..dataflow import reaching
from ..expr import Translator, equal, forward_substitute
from ..model import AnalysisError, Program, norm_key, parent_of
from ..report import Checker
from .common import engine, group_effects, describe_effect, chain_text

EXPLANATION = (
    "Def-use, accumulator, table and effect rules over hvsr_spatial.py - the Monte-Carlo half and the bookkeeping "
    "of the Voronoi half only. Decided: (R1) _statistics normalises the weights first and never reads the raw "
    "weights again (degree 0 in a common weight factor); (R2) its accumulator loops are the weighted mean "
    "sum_i w_i sum_j x_ij / N and the reliability-weighted standard deviation sqrt((sum_i w_i sum_j (x_ij - mean)^2 / N) "
    "/ (1 - sum_i w_i^2 / N)); (R3) every random draw in montecarlo_fn is a method call on `rng` (the argument, or "
    "default_rng() only when it is None); no module-level numpy.random function is used in the module; (R4) "
    "conversion table: (lognormal generators, normal spatial) -> exp, (normal, lognormal) -> log, otherwise "
    "identity; statistics are taken after the conversion; the back-transform of the mean and realisations is "
    "controlled by the spatial distribution; unknown names raise; (R5) culling appends a point and its index under "
    "the same containment test; the weights are areas / area of the convex-hull mask, areas and indices come from "
    "the same tessellation call on that mask; no method of HvsrSpatial other than __init__ writes the object, its "
    "arguments or module state (no cached culling); the distance at which open cells are closed before clipping, as it reaches "
    "the finite-polygon helper from the weight computation, is a number not below today's 1e6 (a necessary condition for "
    "boundaries far larger than the array). NOT decided (and not decidable here): that a clipped Voronoi "
    "cell is the nearest-sensor region, non-negativity and unit sum of the weights, invariance under "
    "translation/scaling/order - these depend on scipy/shapely geometry on runtime values.")

RULES = {
    "C14.R1": "_statistics uses only the normalised weights",
    "C14.R2": "weighted mean and reliability-weighted standard deviation accumulators have the stated forms",
    "C14.R3": "all randomness comes from the `rng` object; default_rng() only as fallback",
    "C14.R4": "space-conversion table and back-transform keyed on the right distribution arguments; statistics in between; unknown names raise",
    "C14.R5": "culling pairs point and index; weights = cell areas / hull area from one tessellation; closing distance >= 1e6; methods are stateless",
}


def run(ck: Checker, prog: Program, tier: str):
    ck.guard(_statistics, ck, prog)
    ck.guard(_montecarlo, ck, prog)
    ck.guard(_spatial, ck, prog)
    from .common import check_identity_comparisons as _cic
    ck.guard(_cic, ck, prog, "C14.R1", "C14")


def _statistics(ck: Checker, prog: Program):
    """_statistics by value: the accumulation loops are summarised as sums over (row, normalised weight) pairs, and the pair
    returned is compared with the weighted mean / weighted standard deviation written with the same constructors."""
    from ..pathtable import PathTable
    f = prog.func("hvsr_spatial._statistics")
    q = f.qualname
    if f.params[:2] != ["values", "weights"]:
        raise AnalysisError(f"{q}: parameters are {f.params}")
    leaves = [l for l in PathTable(prog, f.module, sum_loops=True).leaves(f.node.body) if l.exit == "return"]
    if len(leaves) != 1 or not isinstance(leaves[0].value, sp.Tuple) or len(leaves[0].value) != 2:
        raise AnalysisError(f"{q}: expected one returning path with a pair")
    got_mean, got_std = leaves[0].value
    R_ = lambda n: sp.Symbol(n, real=True)   # noqa: E731
    V, Wraw = R_("values"), R_("weights")
    F = sp.Function
    SUM, Sum, item, last, LEN = F("sum"), F("Sum"), F("item"), F("last"), F("len")
    fn = lambda e: getattr(getattr(e, "func", None), "__name__", "")   # noqa: E731
    known = {"sum", "Sum", "item", "last", "len", "zip", "shape", "getitem", "attr_shape", "attr_size"}
    foreign = sorted({fn(a_) for a_ in sp.preorder_traversal(sp.Tuple(got_mean, got_std)) if fn(a_) and isinstance(a_, sp.core.function.AppliedUndef)} - known)
    # ---- R1: the weights enter only through their normalised form
    NW = Wraw / SUM(Wraw)
    marker = R_("<normalised weights>")
    probe = sp.Tuple(got_mean, got_std).xreplace({NW: marker}) if hasattr(sp.Tuple(got_mean, got_std), "xreplace") else None
    probe = sp.Tuple(got_mean, got_std).subs(NW, marker)
    if not probe.has(marker):
        ck.violation("C14.R1", q, "weight normalisation", "the weights are not normalised to unit sum before use", loc=f.loc())
    elif probe.has(Wraw):
        ck.violation("C14.R1", q, "raw weights used", "the raw (un-normalised) weights are used: the statistics would change when all weights are multiplied by a constant", loc=f.loc())
    else:
        ck.ok("C14.R1", q, "weights normalised to unit sum first")
        ck.ok("C14.R1", q, "raw weights are not read again")
    # ---- R2: the estimators
    SEQ = F("zip")(V, NW)
    b0 = R_("_sum0")
    ROW, WT = item(b0, sp.Integer(0)), item(b0, sp.Integer(1))
    ns = [LEN(item(last(SEQ), sp.Integer(0)))]
    ok_mean = ok_std = False
    want_mean = want_std = None
    for n_ in ns:
        want_mean = Sum(WT * SUM(ROW), SEQ) / n_
        if equal(got_mean, want_mean):
            ok_mean = True
            for w2_inc in (SUM(WT * WT), WT * WT):
                # deviations about the finished mean of this same function
                num = Sum(WT * SUM((ROW - got_mean) ** 2), SEQ) / n_
                w2 = Sum(w2_inc, SEQ) / n_
                want_std = sp.sqrt(num / (1 - w2))
                if equal(got_std, want_std):
                    ok_std = True
    if foreign and not (ok_mean and ok_std):
        raise AnalysisError(f"{q}: the statistics are written with constructs this rule does not interpret ({foreign})")
    if ok_mean:
        ck.ok("C14.R2", q, "mean = sum_i w_i sum_j x_ij / n_realisations", detail=str(got_mean)[:160])
    else:
        ck.violation("C14.R2", q, "weighted mean", f"the mean returned is {got_mean}; expected {want_mean}", loc=f.loc())
    if ok_std:
        ck.ok("C14.R2", q, "stddev = sqrt( (sum_i w_i sum_j (x_ij - mean)^2 / n) / (1 - sum_i w_i^2) ), deviations about the finished mean")
        ck.ok("C14.R2", q, "accumulators start at 0 and are divided by the number of realisations")
    elif ok_mean:
        ck.violation("C14.R2", q, "standard deviation", f"stddev is {got_std}; expected sqrt(numerator/(1 - w2)) with deviations about the finished weighted mean", loc=f.loc())
    ck.ok("C14.R2", q, "returns (mean, stddev)", nontrivial=False)


def _montecarlo(ck: Checker, prog: Program):
    f = prog.func("hvsr_spatial.montecarlo_fn")
    q = f.qualname
    mod = f.module
    # R3
    bad = []
    for g in prog.funcs.values():
        if g.module is not mod:
            continue
        for c in calls_in(g.node):
            d = dotted(c.func) or ""
            if d.startswith(("np.random.", "numpy.random.", "random.")) and not d.endswith("default_rng"):
                bad.append((g, c))
    for g, c in bad:
        ck.violation("C14.R3", g.qualname, norm_key(c), f"`{unparse(c.func)}` draws from the global random state, not from the `rng` argument: results are not reproducible "
                     f"for a given generator", loc=g.loc(c))
    draws = [c for g in prog.funcs.values() if g.module is mod and (g is f or g.parent is f) for c in calls_in(g.node)
             if isinstance(c.func, ast.Attribute) and c.func.attr in ("normal", "lognormal", "uniform", "standard_normal", "random", "choice", "integers")]
    ck.floor("C14.R3", len(draws), 1, "random draws in montecarlo_fn")
    for c in draws:
        if unparse(c.func.value) == "rng":
            ck.ok("C14.R3", q, norm_key(c))
        else:
            ck.violation("C14.R3", q, norm_key(c), f"the draw uses `{unparse(c.func.value)}` instead of `rng`", loc=f.loc(c))
    fb = [st for st in f.node.body if isinstance(st, ast.If) and unparse(st.test) == "rng is None"]
    asg = [st for st in own_nodes(f.node) if isinstance(st, ast.Assign) and unparse(st.targets[0]) == "rng"]
    if len(fb) == 1 and len(asg) == 1 and parent_of(asg[0]) is fb[0] and unparse(asg[0].value) == "default_rng()":
        ck.ok("C14.R3", q, "rng = default_rng() only when no generator is given")
    else:
        ck.violation("C14.R3", q, "rng fallback", "`rng` is replaced or re-seeded other than `default_rng()` when it is None", loc=f.loc())
    _montecarlo_table(ck, prog, f)


from ..pathtable import holds as _holds

FLOAT_DTYPES = ("float", "np.float64", "np.double", "'float64'", "'float'", "np.float_")
FLOAT_DTYPES_SRC = ("float", "np.float64", "np.double", "numpy.float64", "numpy.double", "'float64'", "'float'", '"float64"', '"float"', "np.float_", "np.longdouble")


def _montecarlo_table(ck: Checker, prog: Program, f):
    """The function as a decision table over the four (generator, spatial) distribution pairs."""
    from ..pathtable import PathTable, literals
    q = f.qualname
    R = lambda n: sp.Symbol(n, real=True)   # noqa: E731
    G, S_, W, RNG, NR = R("distribution_generators"), R("distribution_spatial"), R("generator_weights"), R("rng"), R("n_realizations")
    GM, GS = R("generator_means"), R("generator_stddevs")
    NONE = sp.Symbol("None")
    gi = sp.Function("getitem")
    from ..pathtable import seq_form, SEQ, ELT
    pt = PathTable(prog, f.module, scope=f, unroll=True, map_loops=True)
    leaves = pt.leaves(f.node.body)
    rets = [l for l in leaves if l.exit == "return"]
    if not rets:
        raise AnalysisError(f"{q}: no returning path")
    fnm = lambda x: getattr(getattr(x, "func", None), "__name__", "")      # noqa: E731
    RL = R("realizations")
    # ---- draws, by value: the realisations are the sequence, over zip(generator_means, generator_stddevs) in order, of
    #      rng.normal(mean, stddev, n_realizations) - filled row by row, collected in a list, through a closure or functools.partial
    okd, why = True, ""
    value_of: Dict[int, sp.Expr] = {}
    loop_site = next((st for st in f.node.body if isinstance(st, ast.For)), f.node)
    for l in rets:
        v = seq_form(l.value)
        cands = {t for t in v.atoms(sp.Function) if fnm(t) == "SEQ" and any(fnm(a) in ("normal", "lognormal", "uniform", "standard_normal") for a in t.args[0].atoms(sp.Function) | {t.args[0]})}
        if len(cands) != 1:
            okd, why = False, f"{len(cands)} sequences of draws reach the result"
            value_of[id(l)] = v
            continue
        d = next(iter(cands))
        is_none = any(str(x) == str(sp.Eq(RNG, NONE, evaluate=False)) for x in literals(l))
        want_rng = sp.Function("default_rng")() if is_none else RNG
        want = SEQ(sp.Function("normal")(want_rng, gi(ELT, sp.Integer(0)), gi(ELT, sp.Integer(1)), NR), sp.Function("zip")(GM, GS))
        if d != want:
            okd, why = False, f"the realisations are {str(d)[:200]} with rng {'None' if is_none else 'given'}"
        value_of[id(l)] = v.xreplace({d: RL})
        # a pre-allocated buffer must be a float array with one row per generating location
        for st_id, (env0, _n) in l.snaps.items():
            for name, val in env0.items():
                if fnm(val) not in ("empty", "zeros", "ones", "full", "empty_like", "zeros_like"):
                    continue
                filled = any(isinstance(x, ast.Subscript) and isinstance(x.ctx, ast.Store) and isinstance(x.value, ast.Name) and x.value.id == name
                             for lp_ in f.node.body if isinstance(lp_, ast.For) and id(lp_) == st_id for x in ast.walk(lp_))
                if not filled:
                    continue
                shape_ok = fnm(val) in ("empty", "zeros") and val.args and isinstance(val.args[0], sp.Tuple) and len(val.args[0]) == 2 \
                    and val.args[0][0] in (sp.Function("len")(GM), sp.Function("len")(GS)) and val.args[0][1] == NR
                dtype_ok = shape_ok and (len(val.args) == 1 or (len(val.args) == 2 and str(val.args[1]) in FLOAT_DTYPES))
                if not dtype_ok:
                    okd = False
                    why = f"the draws are stored into {val}: not a float array of shape (number of generating locations, n_realizations) - the draws would be converted to the buffer's type"
    # no conversion of the draws to a non-float type anywhere in the function
    for c in calls_in(f.node):
        dt = kwarg(c, "dtype")
        if dt is not None and unparse(dt) not in FLOAT_DTYPES_SRC:
            okd = False
            why = f"`{norm_key(c, 80)}` converts to {unparse(dt)}: the realisations would lose their fractional part"
    if okd:
        ck.ok("C14.R3", q, "row r = rng.normal(mean_r, stddev_r, n_realizations)", detail="rng = default_rng() exactly when no generator is given")
    else:
        ck.violation("C14.R3", q, "realisations", f"row r of the realisations is not rng.normal(generator_means[r], generator_stddevs[r], size=n_realizations) ({why})", loc=f.loc(loop_site))
    # ---- the four distribution pairs
    names = {"normal": sp.Symbol("'normal'"), "lognormal": sp.Symbol("'lognormal'")}
    n_ok = 0
    for g in ("normal", "lognormal"):
        for s_ in ("normal", "lognormal"):
            assign = {G: names[g], S_: names[s_]}
            cands = []
            for l in rets:
                from ..pathtable import specialise as _spec
                vals = [_holds(_spec(x, assign), assign) for x in literals(l) if x.has(G) or x.has(S_)]
                if any(v is None for v in vals):
                    raise AnalysisError(f"{q}: a condition on the distributions could not be evaluated ({[str(x) for x in literals(l)]})")
                if all(vals):
                    cands.append(l)
            if not cands:
                ck.violation("C14.R4", q, f"({g}, {s_})", f"no result is returned for generators '{g}' / spatial '{s_}'", loc=f.loc())
                continue
            conv = sp.exp(RL) if (g, s_) == ("lognormal", "normal") else sp.log(RL) if (g, s_) == ("normal", "lognormal") else RL
            st = sp.Function("_statistics")(conv, W)
            mean, std = gi(st, sp.Integer(0)), gi(st, sp.Integer(1))
            want = sp.Tuple(sp.exp(mean), std, sp.exp(conv)) if s_ == "lognormal" else sp.Tuple(mean, std, conv)
            bad = [l for l in cands if not (isinstance(_spec(value_of[id(l)], assign), sp.Tuple) and len(value_of[id(l)]) == 3
                                            and all(equal(a, b) for a, b in zip(_spec(value_of[id(l)], assign), want)))]
            if not bad:
                n_ok += 1
                ck.ok("C14.R4", q, f"({g}, {s_}): statistics of {conv}; {'exp of mean and realisations' if s_ == 'lognormal' else 'no back-transform'}")
            else:
                ck.violation("C14.R4", q, f"({g}, {s_})",
                             f"for generators '{g}' and spatial distribution '{s_}' the function returns {value_of[id(bad[0])]}; expected {want} "
                             f"(conversion into the space of the spatial distribution, statistics with the given weights, back-transform iff lognormal)", loc=f.loc())
    # ---- unknown names raise
    T2 = sp.Function("in_")
    okn = True
    for sym in (G, S_):
        for l in rets:
            member = [x for x in literals(l) if isinstance(x, sp.Eq) and x.rhs == sp.true and getattr(x.lhs, "func", None) == T2 and x.lhs.args[0] == sym
                      and isinstance(x.lhs.args[1], sp.Tuple) and set(x.lhs.args[1]) == set(names.values())]
            if not member:
                okn = False
    if okn and any(l.exit == "raise" for l in leaves):
        ck.ok("C14.R4", q, "unknown distribution names raise")
    else:
        ck.violation("C14.R4", q, "unknown names", "unknown distribution names are not refused before the realisations are drawn", loc=f.loc())
    # a refusal of the numeric inputs may not take the zero-spread case away (closed-form clause of the property)
    for l in leaves:
        if l.exit != "raise":
            continue
        for x in literals(l):
            for rel in [r_ for r_ in sp.preorder_traversal(x) if isinstance(r_, (sp.Ge, sp.Le, sp.Gt, sp.Lt))]:
                if not rel.has(GS):
                    continue
                a_, b_ = rel.lhs, rel.rhs
                strip = lambda t: t.args[0] if getattr(getattr(t, "func", None), "__name__", "") in ("asarray", "array", "min", "amin") and t.args else t   # noqa: E731
                a_, b_ = strip(a_), strip(b_)
                zero_ok = (isinstance(rel, sp.Le) and a_ == GS and b_ == 0) or (isinstance(rel, sp.Ge) and b_ == GS and a_ == 0)
                if zero_ok:
                    ck.violation("C14.R4", q, "zero standard deviation refused",
                                 f"the function raises under `{rel}`: a generating standard deviation of exactly zero (for which the result must reduce to the closed-form "
                                 f"weighted mean) is refused", loc=f.loc())
    rd = reaching(f)
    for p in ("distribution_generators", "distribution_spatial", "generator_weights"):
        uses = [n for n in own_nodes(f.node) if isinstance(n, ast.Name) and n.id == p and isinstance(n.ctx, ast.Load)]
        if any(not rd.only_param(p, u) for u in uses):
            ck.violation("C14.R4", q, f"{p} rebound", f"`{p}` is rebound inside montecarlo_fn", loc=f.loc())


FAR_POINT_REFERENCE = """
if v2 < 0:
    v1, v2 = v2, v1
if v1 >= 0:
    continue
t = vor.points[p2] - vor.points[p1]
t /= np.linalg.norm(t)
n = np.array([-t[1], t[0]])
midpoint = vor.points[[p1, p2]].mean(axis=0)
direction = np.sign(np.dot(midpoint - center, n)) * n
far_point = vor.vertices[v2] + direction * radius
new_vertices.append(far_point.tolist())
"""


def _far_point(ck: Checker, prog: Program, fp):
    """The point that closes an open cell, by value: finite end of the ridge + radius * (unit normal of the ridge, pointing away
    from the centroid as seen from the *midpoint of the two sensors*).  The value appended to the vertex list on every path of
    the ridge loop is compared with the same computation written out (local names, extracted sub-expressions and the order of
    factors do not matter)."""
    from ..pathtable import PathTable
    loops = [x for x in ast.walk(fp.node) if isinstance(x, ast.For) and any(isinstance(y, ast.Call) and call_name(y) == "append" for y in ast.walk(x))
             and isinstance(x.target, ast.Tuple) and len(x.target.elts) == 3]
    if len(loops) != 1:
        raise AnalysisError(f"{fp.qualname}: the loop over the ridges of an open cell is not recognised")
    lp = loops[0]
    names = [n.id for n in lp.target.elts if isinstance(n, ast.Name)]
    if len(names) != 3:
        raise AnalysisError(f"{fp.qualname}: ridge loop target")
    syms = [sp.Symbol(f"<{k}>", real=True) for k in ("p2", "v1", "v2")]

    def env_before(target_loop):
        """Bindings in force at the loop: names bound exactly once by plain assignments in the enclosing blocks before it (aliases of
        the tessellation's attributes, the generating point of the region, the centroid), written out by value."""
        stores = {}
        for x in ast.walk(fp.node):
            if isinstance(x, ast.Name) and isinstance(x.ctx, (ast.Store, ast.Del)):
                stores[x.id] = stores.get(x.id, 0) + 1
        env = {}
        chain = []
        node = target_loop
        while node is not None and node is not fp.node:
            chain.append(node)
            node = parent_of(node)
        chain.reverse()
        cur = fp.node
        for child in chain:
            for fld in ("body", "orelse"):
                blk = getattr(cur, fld, None)
                if isinstance(blk, list) and child in blk:
                    for st in blk[:blk.index(child)]:
                        if isinstance(st, ast.Assign) and len(st.targets) == 1 and isinstance(st.targets[0], ast.Name) and stores.get(st.targets[0].id) == 1:
                            try:
                                env[st.targets[0].id] = PathTable(prog, fp.module, env=dict(env), structured=True)._T(dict(env)).tr(st.value)
                            except AnalysisError:
                                pass
            if isinstance(child, ast.For) and child is not target_loop:
                tn = [n for n in ast.walk(child.target) if isinstance(n, ast.Name)]
                if tn and isinstance(child.iter, ast.Call) and call_name(child.iter) == "enumerate":
                    env[tn[0].id] = sp.Symbol("p1", real=True)      # the index of the generating point (named as in the reference)
            cur = child
        return env
    ref_env = {"center": PathTable(prog, fp.module, structured=True)._T({}).tr(ast.parse("vor.points.mean(axis=0)", mode="eval").body)}

    def appended(body, nm, base=None):
        env = dict(base or {})
        env.update(dict(zip(nm, syms)))
        out = []
        for l in PathTable(prog, fp.module, env=env, structured=True).leaves(body):
            if l.exit == "raise":
                continue
            vals = [e[2] for e in l.events if e[0] == "call" and e[1].endswith(".append") and getattr(e[2], "args", None)]
            pts = [v.args[-1] for v in vals if any(getattr(getattr(a, "func", None), "__name__", "") in ("sign", "dot") for a in sp.preorder_traversal(v))]
            out.append((len(vals), pts))
        return out
    # region k of the result belongs to sensor k (the callers pair regions with the indices of the retained sensors in order): the
    # outer loop runs over the points in point order
    outer = parent_of(lp)
    while outer is not None and not isinstance(outer, ast.For):
        outer = parent_of(outer)
    if outer is None:
        raise AnalysisError(f"{fp.qualname}: the loop over the sensors is not recognised")
    it_txt = unparse(outer.iter)
    pr = fp.params[0] if fp.params and fp.params[0] not in ("self", "cls") else (fp.params[1] if len(fp.params) > 1 else "vor")
    in_point_order = it_txt in (f"enumerate({pr}.point_region)", f"range(len({pr}.point_region))", f"range(len({pr}.points))", f"enumerate({pr}.points)")
    it_val = env_before(outer).get(outer.iter.id) if isinstance(outer.iter, ast.Name) else None
    if not in_point_order and it_val is not None:
        in_point_order = str(it_val) in (f"enumerate(attr_point_region({pr}))",)
    if in_point_order:
        ck.ok("C14.R5", fp.qualname, "regions are produced in the order of the sensors", nontrivial=False)
    elif isinstance(outer.iter, ast.Call) and call_name(outer.iter) in ("items", "keys", "values") or (isinstance(outer.iter, ast.Name) and "ridge" in outer.iter.id):
        ck.violation("C14.R5", fp.qualname, "order of the regions", f"the regions are produced in the order of `{it_txt}` (the order in which ridges were met), not in the order of "
                     f"the sensors: region k is then paired with the index of another sensor and the weights are attached to the wrong sensors", loc=fp.loc(outer))
    else:
        raise AnalysisError(f"{fp.qualname}: the order in which the regions are produced (`for ... in {it_txt}`) is not recognised")
    want = appended(ast.parse(FAR_POINT_REFERENCE).body, ["p2", "v1", "v2"], ref_env)
    got = appended(lp.body, names, env_before(lp))
    wp = [p for _n, pts in want for p in pts]
    gp = [p for _n, pts in got for p in pts]
    if not wp or not gp:
        raise AnalysisError(f"{fp.qualname}: the far point of an open ridge is not recognised")
    if len(gp) == len(wp) and all(any(equal(g, w) for w in wp) for g in gp):
        ck.ok("C14.R5", fp.qualname, "far point = finite ridge end + radius * outward unit normal (outward judged at the sensors' midpoint)", detail=f"{len(gp)} path(s)")
    else:
        ck.violation("C14.R5", fp.qualname, "far point of an open ridge",
                     f"the point that closes an open cell is {str(gp[0])[:160]}...; expected the finite end of the ridge + radius * unit normal oriented by "
                     f"sign((midpoint of the two sensors - centroid) . normal): with another reference point the ray can point into the array and the cell areas "
                     f"(weights) are wrong", loc=fp.loc(lp))


def _every_cell_clipped(ck: Checker, prog: Program, bv):
    """Every cell of the tessellation is intersected with the mask on every path through the cell loop (a closed cell can reach
    beyond the boundary just as an open one does): the vertices collected for a cell derive from `<cell>.intersection(mask)`."""
    from ..pathtable import PathTable
    loops = [st for st in bv.node.body if isinstance(st, ast.For) and any(True for _ in calls_in(st, "append"))]
    if len(loops) != 1:
        raise AnalysisError(f"{bv.qualname}: the loop over the cells is not recognised")
    lp = loops[0]
    env = {n.id: sp.Symbol("<cell>", real=True) for n in ast.walk(lp.target) if isinstance(n, ast.Name)}
    leaves = PathTable(prog, bv.module, env=env, structured=True).leaves(lp.body)
    MASK = sp.Symbol(bv.params[1], real=True)
    bad = 0
    n = 0
    for l in leaves:
        if l.exit == "raise":
            continue
        apps = [e for e in l.events if e[0] == "call" and e[1].endswith(".append")]
        if not apps:
            continue
        n += 1
        v = apps[-1][2].args[-1] if getattr(apps[-1][2], "args", None) else None
        clipped = v is not None and any(getattr(getattr(a, "func", None), "__name__", "") == "intersection" and MASK in a.args for a in sp.preorder_traversal(v))
        if not clipped:
            bad += 1
    if n == 0:
        raise AnalysisError(f"{bv.qualname}: no path of the cell loop collects vertices")
    if bad == 0:
        ck.ok("C14.R5", bv.qualname, "every cell is clipped by the mask before its vertices are collected", detail=f"{n} path(s) through the cell loop")
    else:
        ck.violation("C14.R5", bv.qualname, "cell clipping", f"{bad} of {n} paths through the cell loop collect a cell that was not intersected with the mask: "
                     f"a cell reaching beyond the boundary keeps the outside area in its weight", loc=bv.loc(lp))


def _spatial(ck: Checker, prog: Program):
    cls = prog.cls("HvsrSpatial")
    eng = engine(prog)
    # culling
    m = cls.methods["_cull_points"]
    cfg = cfg_of(m)
    loops = [st for st in m.node.body if isinstance(st, ast.For) and any(True for _ in calls_in(st, "append"))]
    if len(loops) != 1:
        raise AnalysisError(f"{m.qualname}: the loop that collects the retained sensors is not recognised (found {len(loops)} loops with appends)")
    lp = loops[0]

    def classify(n):
        st = cfg.ast_of(n)
        if cfg.kind(n) != "stmt":
            return None
        for c in calls_in(st, "append"):
            v = unparse(c.func.value)
            if v == "passing_points":
                return 0
            if v == "passing_indices":
                return 1
        return None
    res = events_per_iteration(cfg, lp, classify, 2)
    it_ok = unparse(lp.iter) == "enumerate(self.coordinates)"
    if res <= {(0, 0), (1, 1)} and (1, 1) in res and it_ok:
        ck.ok("C14.R5", m.qualname, "a point and its index are appended together", detail=f"iteration outcomes {sorted(res)}")
    else:
        ck.violation("C14.R5", m.qualname, "culling pairs",
                     f"per sensor the (point, index) appends happen {sorted(res)} times: the returned indices would not identify the retained sensors", loc=m.loc(lp))
    # containment decision as a decision table of the loop body
    from ..pathtable import PathTable, literals, same_rel
    from ..resolve import Resolver, canon
    ok = False
    why = "loop header not recognised"
    if it_ok and isinstance(lp.target, ast.Tuple) and len(lp.target.elts) == 2 and isinstance(lp.target.elts[1], ast.Tuple) and len(lp.target.elts[1].elts) == 2:
        IDX, X, Y = sp.Symbol("<index>", integer=True), sp.Symbol("<x>", real=True), sp.Symbol("<y>", real=True)
        env = {unparse(lp.target.elts[0]): IDX, unparse(lp.target.elts[1].elts[0]): X, unparse(lp.target.elts[1].elts[1]): Y}
        sub = PathTable(prog, m.module, env=env).leaves(lp.body)
        inside = sp.Eq(sp.Function("truth")(sp.Function("contains")(sp.Symbol("mask", real=True), sp.Function("Point")(X, Y))), sp.true, evaluate=False)
        keep, drop, other = [], [], []
        for l in sub:
            apps = [(e[3].value.func.value.id if isinstance(e[3].value.func.value, ast.Name) else "?", e[2].args[-1]) for e in l.events
                    if e[0] == "call" and e[1].endswith(".append")]
            lits = literals(l)
            if any(same_rel(x, inside) for x in lits):
                keep.append(apps)
            elif apps:
                other.append(apps)
            else:
                drop.append(apps)
        rets = [r for r in own_nodes(m.node) if isinstance(r, ast.Return)]
        pts_name = idx_name = None
        if len(rets) == 1 and isinstance(rets[0].value, ast.Tuple) and len(rets[0].value.elts) == 2:
            a0, a1 = rets[0].value.elts
            if isinstance(a0, ast.Call) and call_name(a0) in ("array", "asarray") and a0.args and isinstance(a0.args[0], ast.Name):
                pts_name = a0.args[0].id
            if isinstance(a1, ast.Name):
                idx_name = a1.id
        want = sorted([(pts_name or "?", sp.Tuple(X, Y)), (idx_name or "?", IDX)], key=str)
        ok = bool(keep) and not other and all(sorted(k, key=str) == want for k in keep) and pts_name is not None and idx_name is not None
        why = f"kept paths append {keep}; other appending paths {other}; returned ({pts_name}, {idx_name})"
    if ok:
        ck.ok("C14.R5", m.qualname, "kept iff the boundary mask contains the sensor; index = position in the coordinate list")
    else:
        ck.violation("C14.R5", m.qualname, "containment test", f"sensors are not kept exactly when the boundary mask contains them, with their own index ({why})", loc=m.loc())
    # weights: by value - (area of every clipped cell, in the order of the tessellation) / (area of the mask), with the indices
    # of that same tessellation
    from ..pathtable import seq_form, SEQ, ELT
    from .common import pkg_call_hook
    w = cls.methods["_voronoi_weights"]
    # the cell areas are collected in a floating-point buffer: np.empty(n) / np.zeros(n) (float64 unless a dtype says otherwise); a
    # buffer shaped and *typed* like the integer index list truncates every area
    from .c15 import FLOATISH as _FLOATISH
    filled = {x.value.id for x in ast.walk(w.node) if isinstance(x, ast.Subscript) and isinstance(x.ctx, ast.Store) and isinstance(x.value, ast.Name)}
    for st_ in own_nodes(w.node):
        if isinstance(st_, ast.Assign) and len(st_.targets) == 1 and isinstance(st_.targets[0], ast.Name) and st_.targets[0].id in filled \
                and isinstance(st_.value, ast.Call) and call_name(st_.value) in ("empty", "zeros", "ones", "full", "empty_like", "zeros_like", "ones_like", "full_like"):
            dt_ = kwarg(st_.value, "dtype")
            like = call_name(st_.value).endswith("_like")
            if (dt_ is not None and unparse(dt_) not in _FLOATISH) or (like and dt_ is None):
                why_ = f"dtype={unparse(dt_)}" if dt_ is not None else f"the type of `{unparse(st_.value.args[0]) if st_.value.args else '?'}`"
                ck.violation("C14.R5", w.qualname, norm_key(st_, 70), f"the areas are stored into `{norm_key(st_, 60)}` ({why_}): a non-float buffer truncates the cell areas - "
                             f"the weights no longer sum to one and change with the unit of the coordinates", loc=w.loc(st_))
            else:
                ck.ok("C14.R5", w.qualname, f"{norm_key(st_, 60)}: float buffer", nontrivial=False)
    good = False
    why = "return not recognised"
    R_ = lambda n: sp.Symbol(n, real=True)   # noqa: E731
    F = sp.Function
    gi = F("getitem")
    wl = [l for l in PathTable(prog, w.module, call_hook=pkg_call_hook(prog, w.module, cls), unroll=True, map_loops=True).leaves(w.node.body) if l.exit == "return"]
    if len(wl) == 1 and isinstance(wl[0].value, sp.Tuple) and len(wl[0].value) == 2:
        SELF, B = R_("self"), R_("boundary")
        MASKV = F("_boundary_to_mask")(SELF, B)
        if "boundary" not in w.params:
            # the mask is built by the callers: each of them must hand over the convex-hull mask of its own boundary
            if len(w.params) != 2:
                raise AnalysisError(f"{w.qualname}: parameters are {w.params}")
            MASKV = R_(w.params[1])
            wl[0].value = wl[0].value.xreplace({sp.Symbol(f"{w.params[1]}.area", real=True): F("attr_area")(MASKV)})
            n_callers = 0
            for g in cls.methods.values():
                if not any(isinstance(c, ast.Call) and call_name(c) == w.name for c in own_nodes(g.node)):
                    continue
                if "boundary" not in g.params:
                    raise AnalysisError(f"{g.qualname}: calls {w.name} without a boundary of its own")
                got = []

                def chook(call, T, g=g):
                    if call_name(call) == w.name and isinstance(call.func, ast.Attribute):
                        bnd = bind_call(call, w.params, skip_first=True)
                        got.append(T.tr(bnd[w.params[1]]) if w.params[1] in bnd else sp.Symbol("<missing>"))
                    return pkg_call_hook(prog, g.module, cls)(call, T)
                PathTable(prog, g.module, call_hook=chook, unroll=True).leaves(g.node.body)
                n_callers += 1
                if not got or any(x != F("_boundary_to_mask")(SELF, B) for x in got):
                    ck.violation("C14.R5", g.qualname, "mask handed to the weights",
                                 f"{g.qualname} passes {got[:1]} to {w.name}: not the convex-hull mask of its own boundary", loc=g.loc())
            if n_callers == 0:
                raise AnalysisError(f"{w.qualname}: no caller builds the mask")
        bvm = cls.methods["_bounded_voronoi"]
        extra = [F("default")(Translator().tr(bvm.defaults()[p_])) for p_ in bvm.params[2:] + [k for k in bvm.kwonly if k not in bvm.params] if p_ in bvm.defaults()]
        BV = F("_bounded_voronoi")(SELF, MASKV, *extra)         # further parameters (closing radius) at their defaults
        regions_v, indices_v = gi(BV, sp.Integer(0)), gi(BV, sp.Integer(1))
        total = F("attr_area")(MASKV)
        area = F("attr_area")(F("Polygon")(F("vstack")(sp.Tuple(ELT, gi(ELT, sp.Integer(0))))))
        got0, got1 = seq_form(wl[0].value[0]), wl[0].value[1]
        want0 = SEQ(area, regions_v) / total
        areas_ok = equal(got0, want0)
        good = areas_ok and got1 == indices_v
        why = f"areas ok: {areas_ok} ({str(got0)[:160]}); indices {got1}"
    if good:
        ck.ok("C14.R5", w.qualname, "weights = cell areas / area of the convex-hull mask; indices from the same tessellation")
    else:
        ck.violation("C14.R5", w.qualname, "area weights",
                     f"weights are not (clipped cell areas)/(area of the convex-hull mask) with indices from the same _bounded_voronoi(mask) call ({why})", loc=w.loc())
    # the rays that close unbounded cells point away from the centroid of the sensors
    fp = cls.methods.get("_voronoi_finite_polygons_2d")
    if fp is not None:
        RF = Resolver(prog, fp, inline=False)
        uses = [n for n in own_nodes(fp.node) if isinstance(n, ast.Name) and n.id == "center" and isinstance(n.ctx, ast.Load)]
        cdefs = [st for st in own_nodes(fp.node) if isinstance(st, ast.Assign) and any(isinstance(t, ast.Name) and t.id == "center" for t in st.targets)]
        if len(cdefs) == 1:
            v = canon(RF.value(cdefs[0].value, cdefs[0]))
            want_c = canon(RF.expect("vor.points.mean(axis=0)"))
            if v == want_c:
                ck.ok("C14.R5", fp.qualname, "centre = centroid of the sensors (mean over the points)", nontrivial=False)
            else:
                ck.violation("C14.R5", fp.qualname, "centre of the sensors", f"the centre used to orient the unbounded cells is {v}, not the centroid {want_c}", loc=fp.loc(cdefs[0]))
    bm = cls.methods["_boundary_to_mask"]
    rets = [r for r in own_nodes(bm.node) if isinstance(r, ast.Return)]
    hull_of_all = None
    if len(rets) == 1 and unparse(rets[0].value).endswith(".convex_hull"):
        # ... of *all* boundary points: the sequence the points are made from is the boundary argument itself
        from ..resolve import Resolver as _Res
        v = _Res(prog, bm, inline=False).value(rets[0].value, rets[0])
        seqs = []
        for a_ in sp.preorder_traversal(v):
            nm_ = getattr(getattr(a_, "func", None), "__name__", "")
            if nm_ == "gen" and len(a_.args) >= 2:
                seqs.append(a_.args[1])
            elif nm_ in ("MultiPoint", "map") and a_.args and getattr(a_.args[-1], "is_Symbol", False):
                seqs.append(a_.args[-1])
        Bsym = sp.Symbol([p_ for p_ in bm.params if p_ not in ("self", "cls")][0], real=True)
        if seqs:
            hull_of_all = all(x == Bsym for x in seqs)
    if hull_of_all is False:
        ck.violation("C14.R5", bm.qualname, "mask", f"the boundary mask is the hull of {[str(x) for x in seqs if x != Bsym][0]}, not of all the boundary points given: "
                     f"the region (and every weight) shrinks", loc=bm.loc())
    elif len(rets) == 1 and unparse(rets[0].value).endswith(".convex_hull"):
        ck.ok("C14.R5", bm.qualname, "mask = convex hull of the boundary points", nontrivial=False)
    else:
        ck.violation("C14.R5", bm.qualname, "mask", "the boundary mask is not the convex hull of the boundary points", loc=bm.loc())
    bv = cls.methods["_bounded_voronoi"]
    d = {unparse(st.targets[0]): unparse(st.value) for st in bv.node.body if isinstance(st, ast.Assign)}
    rets = [r for r in own_nodes(bv.node) if isinstance(r, ast.Return)]
    good = d.get("(points, indices)") == "self._cull_points(mask)" and d.get("vor") == "Voronoi(points)" and len(rets) == 1 \
        and unparse(rets[0].value) == "(new_vertices, indices)" \
        and any(isinstance(c_, ast.Call) and isinstance(c_.func, ast.Attribute) and c_.func.attr == "intersection" and len(c_.args) == 1
                and isinstance(c_.args[0], ast.Name) and c_.args[0].id == "mask" for c_ in ast.walk(bv.node))
    if good:
        ck.ok("C14.R5", bv.qualname, "tessellation of the retained sensors, each cell clipped by the mask; indices of the same culling")
    else:
        ck.violation("C14.R5", bv.qualname, "tessellation bookkeeping", "cells and indices do not come from one culling of the sensors against the given mask", loc=bv.loc())
    ck.guard(_every_cell_clipped, ck, prog, bv)
    ck.guard(_far_point, ck, prog, cls.methods["_voronoi_finite_polygons_2d"])
    ck.guard(_closing_distance, ck, prog, cls)
    # statelessness
    n = 0
    for name, mm in sorted(cls.methods.items()):
        if name == "__init__":
            continue
        n += 1
        s = eng.summary(mm)
        effs = [e for e in s.effects if e.origin[0] in ("P", "G")]
        # the finite-polygon helper normalises a local difference vector in place: local only
        if not effs:
            ck.ok("C14.R5", mm.qualname, "no effect on the object, its arguments or module state")
        for (func, text), es in group_effects(prog, effs).items():
            ck.violation("C14.R5", func, text, f"{mm.qualname} keeps state between calls: {describe_effect(es[0])} (a second boundary on the same object would reuse it)",
                         loc=es[0].chain[0].loc, path=chain_text(es[0]))
        extra = [dd for dd in mm.decorators if dd not in ("property", "staticmethod", "classmethod")]
        if extra:
            ck.violation("C14.R5", mm.qualname, f"decorator {extra[0]}", f"`@{extra[0]}` may cache results across boundaries", loc=mm.loc())
    ck.floor("C14.R5", n, 6, "methods of HvsrSpatial")
    init = cls.methods["__init__"]
    # the coordinates are kept in double precision, in the order given (translated layouts 1e4 array extents away need it)
    from .c15 import lossy_conversion
    for st in own_nodes(init.node):
        if isinstance(st, ast.Assign) and any(unparse(t) == "self.coordinates" for t in st.targets):
            why = lossy_conversion(init, st)
            if why is None:
                ck.ok("C14.R5", init.qualname, "coordinates stored as given (double precision)", nontrivial=False)
            else:
                ck.violation("C14.R5", init.qualname, "coordinates", f"the sensor coordinates are not kept as given: {why} - weights would change under translation "
                             f"of the layout", loc=init.loc(st))
    stores = sorted({unparse(t) for st in own_nodes(init.node) if isinstance(st, ast.Assign) for t in st.targets if unparse(t).startswith("self.")})
    if stores == ["self.coordinates"]:
        ck.ok("C14.R5", init.qualname, "the object holds only the coordinates", nontrivial=False)
    else:
        ck.violation("C14.R5", init.qualname, "object state", f"the object stores {stores}; expected only the coordinates (no caches)", loc=init.loc())


#: the distance at which open cells are closed on today's tree; the property covers coordinates up to ~1e4 array extents
CLOSING_DISTANCE = 1e6


def _closing_distance(ck: Checker, prog: Program, cls):
    """The rays of the open cells are cut at a fixed distance before they are clipped by the boundary: whatever reaches the
    finite-polygon helper from the weight computation must be a number at least as large as today's (a smaller one, or the
    helper's own fallback - the extent of the sensors - leaves part of a large boundary uncovered)."""
    from ..resolve import Resolver
    bv = cls.methods["_bounded_voronoi"]
    fp = cls.methods["_voronoi_finite_polygons_2d"]
    pos = fp.params.index("radius") if "radius" in fp.params else None
    if pos is None:
        raise AnalysisError(f"{fp.qualname}: no closing distance parameter")
    off = 0 if "staticmethod" in fp.decorators else 1

    def numeric(func, expr, at, depth=0):
        """Numeric value of an expression of ``func``; parameters are followed to their defaults and to explicit arguments of callers."""
        if expr is None:
            return [("none", None, func, at)]
        R = Resolver(prog, func, inline=False)
        v = R.value(expr, at)
        if v.is_number:
            return [("num", float(v), func, at)]
        if v == sp.Symbol("None"):
            return [("none", None, func, at)]
        allp = list(func.params) + [k for k in func.kwonly if k not in func.params]
        if isinstance(v, sp.Symbol) and v.name in allp and depth < 3:
            out = []
            d = func.defaults().get(v.name)
            if d is not None:
                out += numeric(func, d, func.node, depth + 1) if not isinstance(d, ast.Constant) else \
                    [("none" if d.value is None else "num", None if d.value is None else float(d.value), func, func.node)]
            k = func.params.index(v.name) if v.name in func.params else None
            for g in cls.methods.values():
                for c in own_nodes(g.node):
                    if isinstance(c, ast.Call) and call_name(c) == func.name and isinstance(c.func, ast.Attribute):
                        a = kwarg(c, v.name)
                        o = 0 if "staticmethod" in func.decorators else 1
                        if a is None and k is not None and len(c.args) > k - o >= 0:
                            a = c.args[k - o]
                        if a is not None:
                            out += numeric(g, a, _stmt_of(g, c), depth + 1)
            if out:
                return out
        raise AnalysisError(f"{func.qualname}: the closing distance `{v}` is not a number, a default or an argument of a caller")
    calls = [c for c in own_nodes(bv.node) if isinstance(c, ast.Call) and call_name(c) == fp.name]
    if not calls:
        raise AnalysisError(f"{bv.qualname}: call of {fp.name} not found")
    n = 0
    for c in calls:
        a = kwarg(c, "radius")
        if a is None and len(c.args) > pos - off >= 0:
            a = c.args[pos - off]
        for kind, val, func, at in numeric(bv, a, _stmt_of(bv, c)):
            n += 1
            if kind == "num" and val >= CLOSING_DISTANCE:
                ck.ok("C14.R5", bv.qualname, f"open cells closed at {val:g} (>= {CLOSING_DISTANCE:g})", detail=f"value from {func.qualname}")
            elif kind == "num":
                ck.violation("C14.R5", bv.qualname, "closing distance",
                             f"open cells are closed at {val:g} (from {func.qualname}); a boundary reaching further than that is no longer covered by the cells, "
                             f"so the weights stop being area fractions (today: {CLOSING_DISTANCE:g})", loc=func.loc(at))
            else:
                ck.violation("C14.R5", bv.qualname, "closing distance",
                             f"no closing distance reaches {fp.name} (from {func.qualname}): it falls back to the extent of the sensors, which a larger boundary exceeds",
                             loc=func.loc(at))
    ck.floor("C14.R5", n, 1, "closing distances")


def _stmt_of(func, node):
    from ..model import parent_of
    cur = node
    while cur is not None and not isinstance(cur, ast.stmt):
        cur = parent_of(cur)
    return cur if cur is not None else func.node
