"""Decision table of ``processing.prepare_fft_settings`` (shared by C01 R7 and C09 R2).

Extracts every store of the FFT length ``n`` into the settings object together with its path
condition, classifies the names involved (M = maximum record length over all records, G =
nextpow2(M) > M, u = the length found in the settings before the call) and translates the
stored expressions to canonical sympy terms over (M, d, u) with G = M + d, d > 0.
"""
from __future__ import annotations

import ast
from dataclasses import dataclass
from typing import Dict, List, Optional, Tuple

import sympy as sp

from ..astutil import call_name, dotted, unparse, own_nodes, kwarg
from ..model import AnalysisError, Func, Program, norm_key

M, D, U = sp.symbols("M d u", positive=True)
G = M + D


@dataclass
class Store:
    stmt: ast.stmt
    value_node: ast.AST
    value: sp.Expr
    conds: List[Tuple[str, bool]]      # ("fs_none"|"prev_none", truth)
    kind: str                          # "dict" (settings.fft_settings = dict(n=..)) | "key"


@dataclass
class FftTable:
    func: Func
    stores: List[Store]
    m_name: str
    g_name: Optional[str]
    prev_name: Optional[str]
    prev_default: Optional[sp.Expr]
    nextpow2_ok: bool
    nextpow2_detail: str
    m_detail: str


def _is_settings_fft(node: ast.AST, sname: str) -> bool:
    return isinstance(node, ast.Attribute) and node.attr == "fft_settings" and \
        isinstance(node.value, ast.Name) and node.value.id == sname


def _check_nextpow2(prog: Program) -> Tuple[bool, str]:
    f = prog.funcs.get("processing.nextpow2")
    if f is None:
        raise AnalysisError("anchor processing.nextpow2 not found")
    n = f.params[0]
    rets = [x for x in own_nodes(f.node) if isinstance(x, ast.Return)]
    if not rets:
        return False, "no return statement"
    from ..model import parent_of
    closed = _closed_form_nextpow2(prog, f, rets)
    if closed is not None:
        return closed
    for r in rets:
        if not isinstance(r.value, ast.Name):
            return False, f"returns non-name {unparse(r.value)}"
        p = r.value.id
        # form: `while p <= n: p *= 2` followed by `return p` - leaving the loop means p > n
        blk = f.node.body
        if r in blk and blk.index(r) > 0 and isinstance(blk[blk.index(r) - 1], ast.While):
            w = blk[blk.index(r) - 1]
            t = w.test
            neg = False
            if isinstance(t, ast.UnaryOp) and isinstance(t.op, ast.Not):
                neg, t = True, t.operand        # `while not p > n`
            exits_gt = isinstance(t, ast.Compare) and len(t.ops) == 1 and isinstance(t.left, ast.Name) and isinstance(t.comparators[0], ast.Name) and (
                (not neg and t.left.id == p and t.comparators[0].id == n and isinstance(t.ops[0], ast.LtE)) or
                (not neg and t.left.id == n and t.comparators[0].id == p and isinstance(t.ops[0], ast.GtE)) or
                (neg and t.left.id == p and t.comparators[0].id == n and isinstance(t.ops[0], ast.Gt)) or
                (neg and t.left.id == n and t.comparators[0].id == p and isinstance(t.ops[0], ast.Lt)))
            if exits_gt and not w.orelse and not any(isinstance(x, (ast.Break, ast.Return)) for x in ast.walk(w)):
                continue
        # walk up: must sit in the true branch of `if p > n` / `if p >= n` / `if n < p`
        node, child = parent_of(r), r
        ok = False
        while node is not None and node is not f.node:
            if isinstance(node, ast.If) and child in node.body:
                t = node.test
                if isinstance(t, ast.Compare) and len(t.ops) == 1:
                    l, op, rr = t.left, t.ops[0], t.comparators[0]
                    if isinstance(l, ast.Name) and isinstance(rr, ast.Name):
                        if l.id == p and rr.id == n and isinstance(op, (ast.Gt, ast.GtE)):
                            ok = True
                        if l.id == n and rr.id == p and isinstance(op, (ast.Lt, ast.LtE)):
                            ok = True
            child, node = node, parent_of(node)
        if not ok:
            return False, f"`return {p}` is not guarded by `{p} > {n}`"
    return True, f"every return of nextpow2 is guarded by result > {n}"


def _closed_form_nextpow2(prog: Program, f: Func, rets) -> Optional[Tuple[bool, str]]:
    """Loop-free bodies: the returned value as a term of n.  2**ceil(log2(n)) (optionally maximised with other terms) is >= n;
    2**(floor(log2(n)) + 1) is > n; round / floor / int of the exponent can fall below n."""
    if any(isinstance(x, (ast.While, ast.For)) for x in own_nodes(f.node)):
        return None
    from ..pathtable import PathTable
    n = sp.Symbol(f.params[0], real=True)

    def hook(call, T):
        nm = call_name(call)
        if nm in ("log2", "ceil", "floor", "round", "rint", "int", "max", "maximum") and call.args:
            return sp.Function(f"np2_{nm}")(*[T.tr(a) for a in call.args])
        return None
    pt = PathTable(prog, f.module, structured=True, call_hook=hook)
    leaves = [l for l in pt.leaves(f.node.body) if l.exit == "return" and l.value is not None]
    if not leaves:
        return None

    def fn(e):
        return getattr(getattr(e, "func", None), "__name__", "")

    def lower_exp(e):
        """('ge'|'gt'|None) when 2**e is known >= / > n."""
        if fn(e) in ("np2_int",) and len(e.args) == 1 and fn(e.args[0]) == "np2_ceil":
            e = e.args[0]
        if fn(e) == "np2_ceil" and len(e.args) == 1 and fn(e.args[0]) == "np2_log2" and e.args[0].args[0] == n:
            return "ge"
        if isinstance(e, sp.Add):
            consts = [a for a in e.args if a.is_number]
            rest = [a for a in e.args if not a.is_number]
            if len(rest) == 1 and consts and sum(consts) >= 1:
                r = rest[0]
                while fn(r) == "np2_int" and len(r.args) == 1:
                    r = r.args[0]
                if fn(r) in ("np2_floor", "np2_int") and fn(r.args[0]) == "np2_log2" and r.args[0].args[0] == n:
                    return "gt"
                if fn(r) == "np2_log2" and r.args[0] == n:      # int(log2(n)) + 1 after int stripping
                    return "gt"
                if lower_exp(r):
                    return "gt"
        return None

    def bound(v):
        if fn(v) in ("np2_max", "np2_maximum"):
            bs = [bound(a) for a in v.args]
            if "gt" in bs:
                return "gt"
            if "ge" in bs:
                return "ge"
            return None
        if fn(v) == "np2_int" and len(v.args) == 1:
            return bound(v.args[0])
        if isinstance(v, sp.Pow) and v.base == 2:
            return lower_exp(v.exp)
        return None
    for l in leaves:
        b = bound(l.value)
        if b is None:
            return False, f"returns {l.value}, which is not bounded below by {f.params[0]}"
    return True, f"every return of nextpow2 is a power of two with exponent >= log2({f.params[0]})"


def _running_max_names(f: Func, records: str) -> Dict[str, str]:
    """Names that hold max over all records of <record>.<comp>.n_samples."""
    out: Dict[str, str] = {}

    def reads_len(expr: ast.AST, loopvar: str) -> bool:
        for x in ast.walk(expr):
            if isinstance(x, ast.Attribute) and x.attr == "n_samples":
                root = x.value
                while isinstance(root, ast.Attribute):
                    root = root.value
                if isinstance(root, ast.Name) and root.id == loopvar:
                    return True
            if isinstance(x, ast.Call) and call_name(x) == "len":
                for y in ast.walk(x):
                    if isinstance(y, ast.Name) and y.id == loopvar:
                        return True
        return False

    body = f.node.body
    for st in body:
        # m = max(<comprehension over records>)
        if isinstance(st, ast.Assign) and len(st.targets) == 1 and isinstance(st.targets[0], ast.Name) \
                and isinstance(st.value, ast.Call) and call_name(st.value) in ("max",) and len(st.value.args) == 1 \
                and isinstance(st.value.args[0], (ast.GeneratorExp, ast.ListComp)):
            c = st.value.args[0]
            g = c.generators[0]
            if isinstance(g.iter, ast.Name) and g.iter.id == records and isinstance(g.target, ast.Name) \
                    and not g.ifs and reads_len(c.elt, g.target.id):
                out[st.targets[0].id] = f"max over {records} ({unparse(c.elt)})"
        if isinstance(st, ast.For) and isinstance(st.iter, ast.Name) and st.iter.id == records \
                and isinstance(st.target, ast.Name):
            lv = st.target.id
            for inner in st.body:
                # if x > m: m = x
                if isinstance(inner, ast.If) and isinstance(inner.test, ast.Compare) and len(inner.test.ops) == 1 \
                        and isinstance(inner.test.ops[0], (ast.Gt, ast.GtE)) and not inner.orelse \
                        and len(inner.body) == 1 and isinstance(inner.body[0], ast.Assign):
                    a = inner.body[0]
                    x, m = inner.test.left, inner.test.comparators[0]
                    if isinstance(m, ast.Name) and isinstance(a.targets[0], ast.Name) and a.targets[0].id == m.id \
                            and ast.dump(a.value) == ast.dump(x) and reads_len(x, lv):
                        out[m.id] = f"running maximum of {unparse(x)} over {records}"
                # m = max(m, x)
                if isinstance(inner, ast.Assign) and isinstance(inner.targets[0], ast.Name) \
                        and isinstance(inner.value, ast.Call) and call_name(inner.value) in ("max", "maximum") \
                        and len(inner.value.args) == 2:
                    m = inner.targets[0].id
                    a0, a1 = inner.value.args
                    if (isinstance(a0, ast.Name) and a0.id == m and reads_len(a1, lv)) or \
                            (isinstance(a1, ast.Name) and a1.id == m and reads_len(a0, lv)):
                        out[m] = f"running maximum via max() over {records}"
    # the initial value must be a constant <= any length (0 or negative), and the name must not be
    # reassigned elsewhere
    for name in list(out):
        assigns = [s for s in own_nodes(f.node) if isinstance(s, ast.Assign)
                   and any(isinstance(t, ast.Name) and t.id == name for t in s.targets)]
        for a in assigns:
            from ..model import parent_of
            in_loop = isinstance(parent_of(a), (ast.If, ast.For))
            if not in_loop:
                if isinstance(a.value, ast.Call):
                    continue
                try:
                    v = ast.literal_eval(a.value)
                except Exception:
                    out.pop(name, None)
                    break
                if not (isinstance(v, (int, float)) and v <= 0):
                    out.pop(name, None)
                    break
    return out


def extract(prog: Program) -> FftTable:
    """Decision table of prepare_fft_settings from its path table: every store of the FFT length with the case it belongs to."""
    from ..pathtable import PathTable, literals, same_rel, negate, flatten_cases
    f = prog.func("processing.prepare_fft_settings")
    if len(f.params) < 2:
        raise AnalysisError("prepare_fft_settings: expected (records, settings)")
    records, settings = f.params[0], f.params[1]
    ok_np2, np2_detail = _check_nextpow2(prog)
    mnames = _running_max_names(f, records)
    # max(<generator over records>[, default=0]) with keywords is also a maximum over all records
    for st in f.node.body:
        if isinstance(st, ast.Assign) and len(st.targets) == 1 and isinstance(st.targets[0], ast.Name) and isinstance(st.value, ast.Call) \
                and call_name(st.value) == "max" and len(st.value.args) == 1 and isinstance(st.value.args[0], (ast.GeneratorExp, ast.ListComp)):
            c = st.value.args[0]
            g = c.generators[0]
            dflt = kwarg(st.value, "default")
            if isinstance(g.iter, ast.Name) and g.iter.id == records and not g.ifs and "n_samples" in unparse(c.elt) \
                    and (dflt is None or (isinstance(dflt, ast.Constant) and dflt.value == 0)):
                mnames.setdefault(st.targets[0].id, f"max over {records} ({unparse(c.elt)})")
    if not mnames:
        raise AnalysisError("prepare_fft_settings: the maximum record length over all records is not computed "
                            "in a recognised form (running maximum / max(generator))")
    R = lambda n: sp.Symbol(n, real=True)   # noqa: E731
    FS = sp.Function("attr_fft_settings")(R(settings))
    NONE = sp.Symbol("None")
    gi = sp.Function("getitem")
    KEY = sp.Symbol("'n'")

    def hook(call, T):
        nm = call_name(call)
        if nm == "nextpow2" and call.args:
            a = T.tr(call.args[0])
            return sp.Function("nextpow2")(a)
        if nm == "max" and isinstance(call.func, ast.Name) and len(call.args) == 1 and isinstance(call.args[0], (ast.GeneratorExp, ast.ListComp)):
            return sp.Function("max_over_records")(sp.Symbol(unparse(call.args[0].elt)))
        return None
    pt = PathTable(prog, f.module, structured=True, call_hook=hook, opaque=("nextpow2",))
    leaves = pt.leaves(f.node.body)
    stores: List[Store] = []
    prev_default = None

    def canon(v, l):
        """Map the names of the function onto (M, G, U)."""
        sub = {}
        for nm in mnames:
            val = l.env.get(nm)
            if val is not None:
                sub[val] = M
            sub[R(nm)] = M
        v = v.xreplace(sub)
        v = v.replace(lambda e: getattr(getattr(e, "func", None), "__name__", "") == "max_over_records", lambda e: M)
        v = v.replace(lambda e: getattr(getattr(e, "func", None), "__name__", "") == "nextpow2" and e.args[0] == M,
                      lambda e: G if ok_np2 else sp.Symbol("g_unchecked", positive=True))
        v = v.replace(lambda e: getattr(getattr(e, "func", None), "__name__", "") == "get" and len(e.args) >= 2 and e.args[0] == FS and e.args[1] == KEY, lambda e: U)
        v = v.xreplace({gi(FS, KEY): U})
        v = v.replace(lambda e: getattr(getattr(e, "func", None), "__name__", "") == "int" and len(e.args) == 1, lambda e: e.args[0])
        return v
    for l in leaves:
        for e in l.events:
            if e[0] != "store":
                continue
            st = e[3]
            val = None
            kind = None
            if id(st) in l.store_at and l.store_at[id(st)] == (FS, KEY):
                val, kind = e[2], "key"
            elif isinstance(st, ast.Assign) and _is_settings_fft(st.targets[0], settings):
                kind = "dict"
                v = e[2]
                if getattr(getattr(v, "func", None), "__name__", "") == "dict":
                    for a in v.args:
                        if getattr(a.func, "__name__", "") == "kv_n":
                            val = a.args[0]
                if val is None:
                    raise AnalysisError(f"prepare_fft_settings: `{norm_key(st)}` stores fft_settings without n")
            if val is None:
                continue
            for lits, v in flatten_cases(literals(l), val):
                conds: List[Tuple[str, bool]] = []
                extra = []
                for x in lits:
                    cx = canon(x, l) if hasattr(x, "xreplace") else x
                    if same_rel(cx, sp.Eq(FS, NONE, evaluate=False)):
                        conds.append(("fs_none", True))
                    elif same_rel(cx, sp.Ne(FS, NONE, evaluate=False)):
                        conds.append(("fs_none", False))
                    elif same_rel(cx, sp.Eq(U, NONE, evaluate=False)):
                        conds.append(("prev_none", True))
                    elif same_rel(cx, sp.Ne(U, NONE, evaluate=False)):
                        conds.append(("prev_none", False))
                    else:
                        extra.append(cx)
                cv = canon(v, l)
                # comparisons of the previous length with G / M taken on the path: use them when bounding the value
                for x in extra:
                    if isinstance(x, (sp.Ge, sp.Gt)) and x.lhs == U and x.rhs in (G, M):
                        cv = cv.xreplace({U: x.rhs + sp.Symbol("e", positive=True)})
                    elif isinstance(x, (sp.Ge, sp.Gt)) and x.rhs == U and x.lhs in (G, M):
                        pass
                    else:
                        raise AnalysisError(f"prepare_fft_settings: unrecognised guard `{x}`")
                bad = [a for a in cv.free_symbols if a not in (M, D, U) and a.name not in ("e", "g_unchecked")]
                if bad or cv.has(NONE):
                    raise AnalysisError(f"prepare_fft_settings: name `{bad[0] if bad else 'None'}` in a stored fft length is not classified ({cv})")
                stores.append(Store(st, st.value, cv, conds, kind))
    # default used when the key is absent
    for st in own_nodes(f.node):
        if isinstance(st, ast.Call) and call_name(st) == "get" and len(st.args) > 1 and isinstance(st.args[0], ast.Constant) and st.args[0].value == "n":
            prev_default = unparse(st.args[1])
    # de-duplicate identical rows (several paths through unrelated branches)
    uniq: List[Store] = []
    for s_ in stores:
        if not any(u.stmt is s_.stmt and u.value == s_.value and u.conds == s_.conds for u in uniq):
            uniq.append(s_)
    return FftTable(f, uniq, next(iter(mnames)), None, None, prev_default, ok_np2, np2_detail,
                    "; ".join(f"{k}: {v}" for k, v in mnames.items()))


def never_truncates(v: sp.Expr) -> bool:
    """v >= M for all u > 0, d > 0."""
    return sp.simplify(sp.Max(v, M) - v) == 0


def generic_row(tab: FftTable) -> Store:
    rows = [s for s in tab.stores if all(not truth for (_k, truth) in s.conds) and s.conds]
    if len(rows) != 1:
        raise AnalysisError(f"prepare_fft_settings: expected exactly one store for a numeric previous length, found {len(rows)}")
    return rows[0]


def idempotent_after(tab: FftTable, s: Store) -> Tuple[bool, sp.Expr]:
    """Value stored by the *next* call when the previous call stored ``s.value``."""
    r = generic_row(tab)
    nxt = r.value.subs(U, s.value)
    return sp.simplify(nxt - s.value) == 0, nxt
