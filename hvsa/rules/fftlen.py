"""Decision table of ``processing.prepare_fft_settings`` (shared by C01 R7 and C09 R2).

Extracts every store of the FFT length ``n`` into the settings object together with its path
condition, classifies the names involved (M = maximum record length over all records, G =
nextpow2(M) > M, u = the length found in the settings before the call) and translates the
stored expressions to canonical sympy terms over (M, d, u) with G = M + d, d > 0.
"""
from __future__ import annotations

import ast
from dataclasses import dataclass
from typing import Dict, List, Optional, Tuple

import sympy as sp

from ..astutil import call_name, dotted, unparse, own_nodes, kwarg
from ..model import AnalysisError, Func, Program, norm_key

M, D, U = sp.symbols("M d u", positive=True)
G = M + D


@dataclass
class Store:
    stmt: ast.stmt
    value_node: ast.AST
    value: sp.Expr
    conds: List[Tuple[str, bool]]      # ("fs_none"|"prev_none", truth)
    kind: str                          # "dict" (settings.fft_settings = dict(n=..)) | "key"


@dataclass
class FftTable:
    func: Func
    stores: List[Store]
    m_name: str
    g_name: Optional[str]
    prev_name: Optional[str]
    prev_default: Optional[sp.Expr]
    nextpow2_ok: bool
    nextpow2_detail: str
    m_detail: str


def _is_settings_fft(node: ast.AST, sname: str) -> bool:
    return isinstance(node, ast.Attribute) and node.attr == "fft_settings" and \
        isinstance(node.value, ast.Name) and node.value.id == sname


def _check_nextpow2(prog: Program) -> Tuple[bool, str]:
    f = prog.funcs.get("processing.nextpow2")
    if f is None:
        raise AnalysisError("anchor processing.nextpow2 not found")
    n = f.params[0]
    rets = [x for x in own_nodes(f.node) if isinstance(x, ast.Return)]
    if not rets:
        return False, "no return statement"
    from ..model import parent_of
    for r in rets:
        if not isinstance(r.value, ast.Name):
            return False, f"returns non-name {unparse(r.value)}"
        p = r.value.id
        # walk up: must sit in the true branch of `if p > n` / `if p >= n` / `if n < p`
        node, child = parent_of(r), r
        ok = False
        while node is not None and node is not f.node:
            if isinstance(node, ast.If) and child in node.body:
                t = node.test
                if isinstance(t, ast.Compare) and len(t.ops) == 1:
                    l, op, rr = t.left, t.ops[0], t.comparators[0]
                    if isinstance(l, ast.Name) and isinstance(rr, ast.Name):
                        if l.id == p and rr.id == n and isinstance(op, (ast.Gt, ast.GtE)):
                            ok = True
                        if l.id == n and rr.id == p and isinstance(op, (ast.Lt, ast.LtE)):
                            ok = True
            child, node = node, parent_of(node)
        if not ok:
            return False, f"`return {p}` is not guarded by `{p} > {n}`"
    return True, f"every return of nextpow2 is guarded by result > {n}"


def _running_max_names(f: Func, records: str) -> Dict[str, str]:
    """Names that hold max over all records of <record>.<comp>.n_samples."""
    out: Dict[str, str] = {}

    def reads_len(expr: ast.AST, loopvar: str) -> bool:
        for x in ast.walk(expr):
            if isinstance(x, ast.Attribute) and x.attr == "n_samples":
                root = x.value
                while isinstance(root, ast.Attribute):
                    root = root.value
                if isinstance(root, ast.Name) and root.id == loopvar:
                    return True
            if isinstance(x, ast.Call) and call_name(x) == "len":
                for y in ast.walk(x):
                    if isinstance(y, ast.Name) and y.id == loopvar:
                        return True
        return False

    body = f.node.body
    for st in body:
        # m = max(<comprehension over records>)
        if isinstance(st, ast.Assign) and len(st.targets) == 1 and isinstance(st.targets[0], ast.Name) \
                and isinstance(st.value, ast.Call) and call_name(st.value) in ("max",) and len(st.value.args) == 1 \
                and isinstance(st.value.args[0], (ast.GeneratorExp, ast.ListComp)):
            c = st.value.args[0]
            g = c.generators[0]
            if isinstance(g.iter, ast.Name) and g.iter.id == records and isinstance(g.target, ast.Name) \
                    and not g.ifs and reads_len(c.elt, g.target.id):
                out[st.targets[0].id] = f"max over {records} ({unparse(c.elt)})"
        if isinstance(st, ast.For) and isinstance(st.iter, ast.Name) and st.iter.id == records \
                and isinstance(st.target, ast.Name):
            lv = st.target.id
            for inner in st.body:
                # if x > m: m = x
                if isinstance(inner, ast.If) and isinstance(inner.test, ast.Compare) and len(inner.test.ops) == 1 \
                        and isinstance(inner.test.ops[0], (ast.Gt, ast.GtE)) and not inner.orelse \
                        and len(inner.body) == 1 and isinstance(inner.body[0], ast.Assign):
                    a = inner.body[0]
                    x, m = inner.test.left, inner.test.comparators[0]
                    if isinstance(m, ast.Name) and isinstance(a.targets[0], ast.Name) and a.targets[0].id == m.id \
                            and ast.dump(a.value) == ast.dump(x) and reads_len(x, lv):
                        out[m.id] = f"running maximum of {unparse(x)} over {records}"
                # m = max(m, x)
                if isinstance(inner, ast.Assign) and isinstance(inner.targets[0], ast.Name) \
                        and isinstance(inner.value, ast.Call) and call_name(inner.value) in ("max", "maximum") \
                        and len(inner.value.args) == 2:
                    m = inner.targets[0].id
                    a0, a1 = inner.value.args
                    if (isinstance(a0, ast.Name) and a0.id == m and reads_len(a1, lv)) or \
                            (isinstance(a1, ast.Name) and a1.id == m and reads_len(a0, lv)):
                        out[m] = f"running maximum via max() over {records}"
    # the initial value must be a constant <= any length (0 or negative), and the name must not be
    # reassigned elsewhere
    for name in list(out):
        assigns = [s for s in own_nodes(f.node) if isinstance(s, ast.Assign)
                   and any(isinstance(t, ast.Name) and t.id == name for t in s.targets)]
        for a in assigns:
            from ..model import parent_of
            in_loop = isinstance(parent_of(a), (ast.If, ast.For))
            if not in_loop:
                if isinstance(a.value, ast.Call):
                    continue
                try:
                    v = ast.literal_eval(a.value)
                except Exception:
                    out.pop(name, None)
                    break
                if not (isinstance(v, (int, float)) and v <= 0):
                    out.pop(name, None)
                    break
    return out


def extract(prog: Program) -> FftTable:
    f = prog.func("processing.prepare_fft_settings")
    if len(f.params) < 2:
        raise AnalysisError("prepare_fft_settings: expected (records, settings)")
    records, settings = f.params[0], f.params[1]
    ok_np2, np2_detail = _check_nextpow2(prog)
    mnames = _running_max_names(f, records)
    if not mnames:
        raise AnalysisError("prepare_fft_settings: the maximum record length over all records is not computed "
                            "in a recognised form (running maximum / max(generator))")
    sym: Dict[str, sp.Expr] = {n: M for n in mnames}
    g_name = prev_name = None
    prev_default = None
    for st in own_nodes(f.node):
        if isinstance(st, ast.Assign) and len(st.targets) == 1 and isinstance(st.targets[0], ast.Name):
            t, v = st.targets[0].id, st.value
            if isinstance(v, ast.Call) and call_name(v) == "nextpow2" and v.args and isinstance(v.args[0], ast.Name) \
                    and v.args[0].id in mnames:
                sym[t] = G if ok_np2 else sp.Symbol("g_unchecked", positive=True)
                g_name = t
            elif isinstance(v, ast.Call) and call_name(v) == "get" and isinstance(v.func, ast.Attribute) \
                    and _is_settings_fft(v.func.value, settings) and v.args \
                    and isinstance(v.args[0], ast.Constant) and v.args[0].value == "n":
                sym[t] = U
                prev_name = t
                if len(v.args) > 1:
                    prev_default = _tr(v.args[1], sym)
            elif isinstance(v, ast.Subscript) and _is_settings_fft(v.value, settings) \
                    and isinstance(v.slice, ast.Constant) and v.slice.value == "n":
                sym[t] = U
                prev_name = t

    stores: List[Store] = []

    def cond_kind(test: ast.AST) -> Tuple[str, bool]:
        """('fs_none'|'prev_none', value of test when the subject IS None)"""
        if isinstance(test, ast.Compare) and len(test.ops) == 1 and isinstance(test.comparators[0], ast.Constant) \
                and test.comparators[0].value is None and isinstance(test.ops[0], (ast.Is, ast.IsNot, ast.Eq, ast.NotEq)):
            pos = isinstance(test.ops[0], (ast.Is, ast.Eq))
            if _is_settings_fft(test.left, settings):
                return "fs_none", pos
            if isinstance(test.left, ast.Name) and test.left.id == prev_name:
                return "prev_none", pos
        raise AnalysisError(f"prepare_fft_settings: unrecognised guard `{unparse(test)}`")

    def walk(stmts, conds):
        for st in stmts:
            if isinstance(st, ast.If):
                k, pos = cond_kind(st.test)
                walk(st.body, conds + [(k, pos)])
                walk(st.orelse, conds + [(k, not pos)])
            elif isinstance(st, ast.Assign) and len(st.targets) == 1:
                t = st.targets[0]
                if _is_settings_fft(t, settings):
                    v = st.value
                    nval = None
                    if isinstance(v, ast.Call) and call_name(v) == "dict":
                        nval = kwarg(v, "n")
                    elif isinstance(v, ast.Dict):
                        for kk, vv in zip(v.keys, v.values):
                            if isinstance(kk, ast.Constant) and kk.value == "n":
                                nval = vv
                    if nval is None:
                        raise AnalysisError(f"prepare_fft_settings: `{norm_key(st)}` stores fft_settings without n")
                    stores.append(Store(st, nval, _tr(nval, sym), list(conds), "dict"))
                elif isinstance(t, ast.Subscript) and _is_settings_fft(t.value, settings) \
                        and isinstance(t.slice, ast.Constant) and t.slice.value == "n":
                    stores.append(Store(st, st.value, _tr(st.value, sym), list(conds), "key"))
            elif isinstance(st, (ast.For, ast.While, ast.With, ast.Try)):
                for sub in ast.walk(st):
                    if isinstance(sub, ast.Assign) and any(
                            _is_settings_fft(t, settings) or (isinstance(t, ast.Subscript) and _is_settings_fft(t.value, settings))
                            for t in sub.targets):
                        raise AnalysisError("prepare_fft_settings: store of the fft length inside a loop/with/try")
    walk(f.node.body, [])
    return FftTable(f, stores, next(iter(mnames)), g_name, prev_name, prev_default, ok_np2, np2_detail,
                    "; ".join(f"{k}: {v}" for k, v in mnames.items()))


def _tr(node: ast.AST, sym: Dict[str, sp.Expr]) -> sp.Expr:
    if isinstance(node, ast.Name):
        if node.id in sym:
            return sym[node.id]
        raise AnalysisError(f"prepare_fft_settings: name `{node.id}` in a stored fft length is not classified")
    if isinstance(node, ast.Constant) and isinstance(node.value, (int, float)) and not isinstance(node.value, bool):
        return sp.Integer(node.value) if isinstance(node.value, int) else sp.Float(node.value)
    if isinstance(node, ast.IfExp) and isinstance(node.test, ast.Compare) and len(node.test.ops) == 1:
        a, op, b = _tr(node.test.left, sym), node.test.ops[0], _tr(node.test.comparators[0], sym)
        x, y = _tr(node.body, sym), _tr(node.orelse, sym)
        if isinstance(op, (ast.Gt, ast.GtE)):
            if x == a and y == b:
                return sp.Max(a, b)
            if x == b and y == a:
                return sp.Min(a, b)
        if isinstance(op, (ast.Lt, ast.LtE)):
            if x == a and y == b:
                return sp.Min(a, b)
            if x == b and y == a:
                return sp.Max(a, b)
        raise AnalysisError(f"prepare_fft_settings: conditional `{unparse(node)}` is neither max nor min")
    if isinstance(node, ast.Call) and call_name(node) in ("max", "maximum") and len(node.args) >= 2:
        return sp.Max(*[_tr(a, sym) for a in node.args])
    if isinstance(node, ast.Call) and call_name(node) in ("min", "minimum") and len(node.args) >= 2:
        return sp.Min(*[_tr(a, sym) for a in node.args])
    if isinstance(node, ast.Call) and call_name(node) == "int" and len(node.args) == 1:
        return _tr(node.args[0], sym)
    if isinstance(node, ast.BinOp) and isinstance(node.op, (ast.Add, ast.Sub, ast.Mult)):
        a, b = _tr(node.left, sym), _tr(node.right, sym)
        return {ast.Add: a + b, ast.Sub: a - b, ast.Mult: a * b}[type(node.op)]
    raise AnalysisError(f"prepare_fft_settings: cannot translate stored fft length `{unparse(node)}`")


def never_truncates(v: sp.Expr) -> bool:
    """v >= M for all u > 0, d > 0."""
    return sp.simplify(sp.Max(v, M) - v) == 0


def generic_row(tab: FftTable) -> Store:
    rows = [s for s in tab.stores if all(not truth for (_k, truth) in s.conds) and s.conds]
    if len(rows) != 1:
        raise AnalysisError(f"prepare_fft_settings: expected exactly one store for a numeric previous length, found {len(rows)}")
    return rows[0]


def idempotent_after(tab: FftTable, s: Store) -> Tuple[bool, sp.Expr]:
    """Value stored by the *next* call when the previous call stored ``s.value``."""
    r = generic_row(tab)
    nxt = r.value.subs(U, s.value)
    return sp.simplify(nxt - s.value) == 0, nxt
