"""C11 - azimuthal statistics give every azimuth equal weight (Cheng et al. 2020)."""
from __future__ import annotations

import ast

import sympy as sp

from ..astutil import own_nodes, unparse, call_name, calls_in, kwarg
from ..expr import Translator, equal, forward_substitute
from ..model import AnalysisError, Program, norm_key, parent_of
from ..report import Checker
from . import statscommon as S
from .c05 import _cov

EXPLANATION = (
    "Formula, def-use and effect rules over HvsrAzimuthal and statistics.py. Decided: (R1) the weight vector is "
    "1/(n_azimuths * n_valid) repeated n_valid times per azimuth, n_azimuths = number of azimuths of the object, "
    "n_valid counted from the same peak mask that selects the values, azimuths visited in the order in which "
    "the values are flattened; (R2) every fn statistic and both curve statistics return the weighted estimator "
    "of the flattened accepted values with these weights, every standard deviation with denominator='cheng' "
    "(= 1 - sum w^2), the covariance with aweights=weights and logs for lognormal, the weighted mean is "
    "nansum(v*w)/nansum(w), and no return path bypasses the weights; (R3) accessors are read-only (no caching) "
    "and curve rows are selected by each azimuth's window mask. Not decided: the numerical reductions (single "
    "azimuth, equal counts) and np.cov's normalisation (assumption 2); weights come from the peak masks and "
    "curve rows from the window masks, whose agreement is C05.R4.")

RULES = {
    "C11.R1": "weights = 1/(n_azimuths*n_valid) per accepted peak, in flattening order, from the selecting mask",
    "C11.R2": "every statistic is the weighted estimator with these weights ('cheng' for std, aweights for cov); no unweighted path",
    "C11.R3": "accessors read-only; curve rows selected by the per-azimuth window mask",
}

W = "self._compute_statistical_weights()"
TABLE = {
    "peak_frequencies": ["[hvsr.peak_frequencies for hvsr in self.hvsrs]"],
    "peak_amplitudes": ["[hvsr.peak_amplitudes for hvsr in self.hvsrs]"],
    "mean_fn_frequency": [f"_nanmean_weighted(distribution=distribution, weights={W}, values=np.array(_flatten_list(self.peak_frequencies)))"],
    "mean_fn_amplitude": [f"_nanmean_weighted(distribution=distribution, weights={W}, values=np.array(_flatten_list(self.peak_amplitudes)))"],
    "std_fn_frequency": [f"_nanstd_weighted(distribution=distribution, weights={W}, values=np.array(_flatten_list(self.peak_frequencies)), denominator='cheng')"],
    "std_fn_amplitude": [f"_nanstd_weighted(distribution=distribution, weights={W}, values=np.array(_flatten_list(self.peak_amplitudes)), denominator='cheng')"],
    "nth_std_fn_frequency": ["_nth_std_factory(n=n, distribution=distribution, mean=self.mean_fn_frequency(distribution=distribution), std=self.std_fn_frequency(distribution=distribution))"],
    "nth_std_fn_amplitude": ["_nth_std_factory(n=n, distribution=distribution, mean=self.mean_fn_amplitude(distribution=distribution), std=self.std_fn_amplitude(distribution=distribution))"],
    "nth_std_curve": ["_nth_std_factory(n=n, distribution=distribution, mean=self.mean_curve(distribution=distribution), std=self.std_curve(distribution=distribution))"],
}


def run(ck: Checker, prog: Program, tier: str):
    cls = prog.cls("HvsrAzimuthal")
    ck.guard(_weights, ck, prog, cls)
    ck.guard(S.check_accessor_table, ck, prog, cls, "C11.R2", TABLE)
    ck.guard(_curves, ck, prog, cls)
    ck.guard(_cov, ck, prog, cls, "C11.R2", weighted=True)
    ck.guard(_helpers, ck, prog)
    ck.guard(S.check_accessor_purity, ck, prog, cls, "C11.R3", 15)
    # `amplitude` is the raw data accessor (list of per-azimuth arrays), not a statistic
    ck.guard(S.check_masked_reads, ck, prog, cls, "C11.R3", floor=1, exclude=("amplitude",))
    # per-azimuth statistics (mean_curve_by_azimuth, single-azimuth == traditional) are those of HvsrTraditional
    from . import c05
    trad = prog.cls("HvsrTraditional")
    with ck.borrow(c05, "C11.R2+"):
        ck.guard(S.check_accessor_table, ck, prog, trad, "C05.R3", c05.TABLE, c05.GUARDS)
        ck.guard(S.check_masked_reads, ck, prog, trad, "C05.R1", floor=4)
        # the weights count accepted peaks: every writer of the accept masks (incl. the time-domain rejections acting on each
        # azimuth) keeps the window mask and the peak mask in step
        ck.guard(S.check_mask_lockstep, ck, prog, "C05.R4")
    # which windows carry a peak, per azimuth: the per-window peak search of the members records NaN / False for absent peaks
    from . import c08
    with ck.borrow(c08, "C11.R1+"):
        ck.guard(c08._r2, ck, prog)
        ck.guard(c08._members_private, ck, prog)
        # the peak of the mean curve is searched over the range in force, as for a traditional result (single azimuth == traditional)
        ck.guard(c08._r3, ck, prog)
    from . import c03
    with ck.borrow(c03, "C11.R2+"):
        ck.guard(c03._validation, ck, prog)
    ck.guard(_members_in_lockstep, ck, prog)
    # what is reported for an azimuthal result on file are the azimuthal object's own mean / std curves
    from . import c12
    with ck.borrow(c12, "C11.R2+"):
        ck.guard(c12._r3, ck, prog, prog.func(c12.W), prog.func(c12.R))
        ck.guard(c12._r5, ck, prog.func(c12.R))     # each azimuth gets its own accept masks back (members kept in file order)
    from .common import check_identity_comparisons as _cic
    ck.guard(_cic, ck, prog, "C11.R1", "C11")


def _members_in_lockstep(ck: Checker, prog: Program):
    """The weights divide by the number of azimuths of the object: that number is the number of members.  The constructor fills
    `self.hvsrs` and `self.azimuths` pair by pair - one entry each per iteration of the same loop (or both by comprehensions over
    the same zip) - and no later statement rebinds one of them from a sequence of another length."""
    from ..pathtable import PathTable
    init = prog.func("hvsr_azimuthal.HvsrAzimuthal.__init__")
    q = init.qualname
    loops = [st for st in init.node.body if isinstance(st, ast.For)]
    fills = {}
    for lp in loops:
        for c in calls_in(lp, "append"):
            tgt = unparse(c.func.value)
            if tgt in ("self.hvsrs", "self.azimuths"):
                fills.setdefault(tgt, []).append((lp, c))
    rebinds = [st for st in own_nodes(init.node) if isinstance(st, ast.Assign) and any(unparse(t) in ("self.hvsrs", "self.azimuths") for t in st.targets)
               and not (isinstance(st.value, ast.List) and not st.value.elts)]
    if set(fills) == {"self.hvsrs", "self.azimuths"} and not rebinds:
        same_loop = len(fills["self.hvsrs"]) == 1 and len(fills["self.azimuths"]) == 1 and fills["self.hvsrs"][0][0] is fills["self.azimuths"][0][0]
        lp = fills["self.hvsrs"][0][0]
        leaves = [l for l in PathTable(prog, init.module, structured=True).leaves(lp.body) if l.exit not in ("raise",)]
        per_pass = {(sum(1 for e in l.events if e[0] == "call" and e[1] == "self.hvsrs.append"), sum(1 for e in l.events if e[0] == "call" and e[1] == "self.azimuths.append")) for l in leaves}
        if same_loop and per_pass == {(1, 1)}:
            ck.ok("C11.R1", q, "one member and one azimuth are appended per pass of the same loop", detail="len(self.azimuths) == len(self.hvsrs)")
        else:
            ck.violation("C11.R1", q, "members and azimuths in lock-step", f"members and azimuths are not appended pair by pair (per pass: {sorted(per_pass)}; same loop: {same_loop}): "
                         f"the azimuth count used for the weights can differ from the number of members", loc=init.loc(lp))
        return
    if rebinds:
        # both built at once from the same zip are fine; anything else is judged unequal in length
        srcs = {}
        for st in rebinds:
            for t in st.targets:
                if unparse(t) in ("self.hvsrs", "self.azimuths"):
                    its = [unparse(g.iter) for x in ast.walk(st.value) if isinstance(x, (ast.ListComp, ast.GeneratorExp)) for g in x.generators]
                    srcs[unparse(t)] = its
        other = "self.azimuths" if "self.hvsrs" in fills else "self.hvsrs"
        if set(srcs) == {"self.hvsrs", "self.azimuths"} and srcs["self.hvsrs"] == srcs["self.azimuths"] and srcs["self.hvsrs"]:
            ck.ok("C11.R1", q, "members and azimuths are built over the same sequence", nontrivial=False)
            return
        ck.violation("C11.R1", q, "members and azimuths in lock-step",
                     f"`{norm_key(rebinds[0], 70)}` builds one of members / azimuths apart from the pairing loop: with inputs of unequal length (zip stops at the shorter) the "
                     f"azimuth count used for the weights differs from the number of members and the weights no longer sum to one", loc=init.loc(rebinds[0]))
        return
    raise AnalysisError(f"{q}: how members and azimuths are collected is not recognised")


def _helpers(ck: Checker, prog: Program):
    """The parts of statistics.py the azimuthal statistics rely on (weighted mean, cheng, flatten)."""
    f = prog.func("statistics._flatten_list")
    loops = [st for st in f.node.body if isinstance(st, ast.For)]
    good = len(loops) == 1 and isinstance(loops[0].iter, ast.Name) and loops[0].iter.id == f.params[0] \
        and len(loops[0].body) == 1 and any(call_name(c) == "extend" and unparse(c.args[0]) == unparse(loops[0].target)
                                            for c in calls_in(loops[0]))
    rets = S.returns_of(f)
    if not good and len(rets) == 1 and not loops:
        # [entry for sub in X for entry in sub] / list(itertools.chain.from_iterable(X)) / sum(X, []): the same order
        v = rets[0].value
        if isinstance(v, ast.Call) and call_name(v) in ("list", "tuple") and len(v.args) == 1:
            v = v.args[0]
        if isinstance(v, (ast.ListComp, ast.GeneratorExp)) and len(v.generators) == 2 and not any(g.ifs for g in v.generators) \
                and isinstance(v.generators[0].iter, ast.Name) and v.generators[0].iter.id == f.params[0] \
                and unparse(v.generators[1].iter) == unparse(v.generators[0].target) and unparse(v.elt) == unparse(v.generators[1].target):
            good = True
        elif isinstance(v, ast.Call) and call_name(v) == "from_iterable" and len(v.args) == 1 and unparse(v.args[0]) == f.params[0]:
            good = True
        elif isinstance(v, ast.Call) and call_name(v) == "chain" and len(v.args) == 1 and isinstance(v.args[0], ast.Starred) and unparse(v.args[0].value) == f.params[0]:
            good = True
        elif not (isinstance(v, (ast.ListComp, ast.GeneratorExp, ast.Call))):
            pass
        else:
            raise AnalysisError(f"{f.qualname}: how the sub-lists are joined is not recognised")
    if good and len(rets) == 1:
        ck.ok("C11.R1", f.qualname, "flattening preserves order (extend per sub-list)")
    else:
        ck.violation("C11.R1", f.qualname, "order preserving flatten", "_flatten_list does not extend in iteration order", loc=f.loc())
    S.check_estimators(ck, prog, "C11.R2")
    S.check_alias_discipline(ck, prog, "C11.R2", floor=3)
    S.check_distribution_names(ck, prog, "C11.R2")


def _weights(ck: Checker, prog: Program, cls):
    m = cls.methods.get("_compute_statistical_weights")
    if m is None:
        raise AnalysisError("HvsrAzimuthal._compute_statistical_weights not found")
    fq = m.qualname
    T = Translator()
    top = [st for st in m.node.body if isinstance(st, ast.Assign)]
    forward_substitute(top, T)
    naz = None
    for nm, v in T.env.items():
        if nm.startswith("n_az"):
            naz = (nm, v)
    accepted = [sp.Function("len")(T.sym("self.azimuths")), sp.Function("len")(T.sym("self.hvsrs")), T.sym("self.n_azimuths")]
    if naz is not None and any(equal(naz[1], a) for a in accepted):
        ck.ok("C11.R1", fq, f"{naz[0]} = {naz[1]}")
    elif naz is None:
        pass        # no local holds the count: it is read off the weight formula below
    else:
        ck.violation("C11.R1", fq, "number of azimuths", f"the azimuth count used for the weights is {naz[1] if naz else None}, "
                     f"not the number of azimuths of the object (len(self.azimuths))", loc=m.loc())
    # per-azimuth (source of the iteration, weight, repetitions): loop + extend, or comprehensions + flatten
    src = W = Rp = None
    hv = None
    site = m.node
    loops = [st for st in m.node.body if isinstance(st, ast.For)]
    rets = S.returns_of(m)
    if len(loops) == 1:
        lp = loops[0]
        site = lp
        if not isinstance(lp.target, ast.Name) or any(isinstance(x, (ast.Break, ast.Continue, ast.If)) for x in ast.walk(lp)):
            ck.violation("C11.R1", fq, norm_key(lp), "weights are not produced for every azimuth in the order of self.hvsrs", loc=m.loc(lp))
            return
        hv = lp.target.id
        TL = Translator(env=dict(T.env))
        forward_substitute([st for st in lp.body if isinstance(st, (ast.Assign, ast.AugAssign))], TL)
        ext = [c for c in calls_in(lp) if call_name(c) == "extend" and isinstance(c.func.value, ast.Name)]
        if len(ext) != 1:
            raise AnalysisError(f"{fq}: expected <list>.extend([...]*n) in the loop")
        lst_name = ext[0].func.value.id
        val = TL.tr(ext[0].args[0])
        src = T.tr(lp.iter)
        ret_ok = len(rets) == 1 and isinstance(rets[0].value, ast.Call) and call_name(rets[0].value) in ("array", "asarray") \
            and rets[0].value.args and unparse(rets[0].value.args[0]) == lst_name
    elif _weights_by_value(prog, m) is not None:
        src, w_, r_, hv = _weights_by_value(prog, m)
        val = sp.Function("repeat")(sp.Tuple(w_), r_)
        TL = Translator(env=dict(T.env))
        ret_ok = True
    else:
        if len(rets) != 1:
            raise AnalysisError(f"{fq}: expected one return")
        e = rets[0].value
        if isinstance(e, ast.Call) and call_name(e) in ("array", "asarray") and e.args:
            e = e.args[0]
        if not (isinstance(e, ast.Call) and call_name(e) in ("_flatten_list", "concatenate", "hstack") and e.args):
            raise AnalysisError(f"{fq}: construction of the weights not recognised")
        e = e.args[0]
        defs = {st.targets[0].id: st.value for st in m.node.body if isinstance(st, ast.Assign) and isinstance(st.targets[0], ast.Name)}
        if isinstance(e, ast.Name) and e.id in defs:
            e = defs[e.id]
        if not (isinstance(e, ast.ListComp) and len(e.generators) == 1 and not e.generators[0].ifs and isinstance(e.generators[0].target, ast.Name)):
            raise AnalysisError(f"{fq}: construction of the weights not recognised")
        g = e.generators[0]
        it = g.iter
        if isinstance(it, ast.Name) and it.id in defs:
            it = defs[it.id]
        TL = Translator(env=dict(T.env))
        if isinstance(it, ast.ListComp) and len(it.generators) == 1 and not it.generators[0].ifs and isinstance(it.generators[0].target, ast.Name):
            hv = it.generators[0].target.id
            src = T.tr(it.generators[0].iter)
            TL.env[g.target.id] = TL.tr(it.elt)
        else:
            hv = g.target.id
            src = T.tr(it)
        val = TL.tr(e.elt)
        ret_ok = True
    if src != T.sym("self.hvsrs"):
        ck.violation("C11.R1", fq, "iteration over the azimuths", f"weights are produced by iterating over {src}, not over self.hvsrs in order", loc=m.loc(site))
    else:
        ck.ok("C11.R1", fq, "one block of weights per azimuth, in the order of self.hvsrs", nontrivial=False)
    nvalid_want = sp.Function("int")(sp.Function("sum")(TL.sym(f"{hv}.valid_peak_boolean_mask")))
    nvalid_alt = sp.Function("sum")(TL.sym(f"{hv}.valid_peak_boolean_mask"))
    good = False
    detail = str(val)
    if getattr(val, "func", None) == sp.Function("repeat") and isinstance(val.args[0], sp.Tuple) and len(val.args[0]) == 1:
        w, r = val.args[0][0], val.args[1]
        for naz_v in ([naz[1]] if naz else accepted):
            for nv in (nvalid_want, nvalid_alt):
                if equal(w, 1 / (naz_v * nv)) and equal(r, nv):
                    good = True
        detail = f"weight {w} repeated {r} times"
    if good:
        ck.ok("C11.R1", fq, "per azimuth: 1/(n_azimuths*n_valid) repeated n_valid times", detail=detail)
    else:
        ck.violation("C11.R1", fq, "per-azimuth weights",
                     f"per-azimuth weights are not 1/(n_azimuths*n_valid) repeated n_valid times with n_valid = sum(valid_peak_boolean_mask) ({detail})",
                     loc=m.loc(site))
    if ret_ok:
        ck.ok("C11.R1", fq, "the weights are returned as built", nontrivial=False)
    else:
        ck.violation("C11.R1", fq, "return", "the weight list is not returned as built", loc=m.loc())


def _weights_by_value(prog: Program, m):
    """Loop-free weight vectors, by value: np.repeat(w(e) for e in S, n(e) for e in S) or a chain / concatenation of
    repeat(w(e), n(e)) / [w(e)]*n(e) over S.  Returns (S, w, n, name used for the element) or None."""
    from ..pathtable import PathTable, seq_form, ELT
    fn = lambda e: getattr(getattr(e, "func", None), "__name__", "")   # noqa: E731
    try:
        leaves = [l for l in PathTable(prog, m.module, unroll=True).leaves(m.node.body) if l.exit == "return"]
    except AnalysisError:
        return None
    if len(leaves) != 1 or leaves[0].value is None:
        return None
    v = seq_form(leaves[0].value)
    while fn(v) in ("array", "asarray", "list", "fromiter") and v.args:
        v = v.args[0]
    hvname = "<hv>"
    H = sp.Symbol(f"{hvname}.valid_peak_boolean_mask", real=True)
    back = lambda e: e.xreplace({sp.Symbol("<e>.valid_peak_boolean_mask", real=True): H}).replace(   # noqa: E731
        lambda x: fn(x) == "attr_valid_peak_boolean_mask" and x.args[0] == ELT, lambda x: H)
    if fn(v) == "repeat" and len(v.args) == 2 and fn(v.args[0]) == "SEQ" and fn(v.args[1]) == "SEQ" and v.args[0].args[1] == v.args[1].args[1]:
        return v.args[0].args[1], back(v.args[0].args[0]), back(v.args[1].args[0]), hvname
    if fn(v) in ("from_iterable", "chain", "concatenate", "hstack", "_flatten_list") and len(v.args) >= 1:
        inner = v.args[-1] if fn(v) == "from_iterable" else v.args[0]
        if fn(inner) == "splat":
            inner = inner.args[0]
        if fn(inner) == "SEQ":
            body = inner.args[0]
            if fn(body) == "repeat" and len(body.args) == 3 and body.args[0] == sp.Symbol("itertools", real=True):
                body = sp.Function("repeat")(*body.args[1:])       # itertools.repeat(w, n)
            if fn(body) == "repeat" and len(body.args) == 2:
                w_ = body.args[0][0] if isinstance(body.args[0], sp.Tuple) and len(body.args[0]) == 1 else body.args[0]
                return inner.args[1], back(w_), back(body.args[1]), hvname
    return None


def _column_normal_form(v):
    """Two ways of gathering column j of the accepted rows of all azimuths are the same vector:
    flatten([rows(h)[:, j].tolist() for h in hvsrs])  and  concatenate([rows(h) for h in hvsrs], axis=0)[:, j]."""
    gi, comp, gen = sp.Function("getitem"), sp.Function("comp"), sp.Function("gen")
    COL = sp.Function("column_of_stack")
    NONE = sp.Symbol("None")
    ALL = sp.Function("slice")(NONE, NONE, NONE)

    def is_a(e):
        if getattr(getattr(e, "func", None), "__name__", "") not in ("_flatten_list", "concatenate", "hstack", "flat", "from_iterable") or len(e.args) != 1:
            return False
        c = e.args[0]
        if getattr(c, "func", None) != comp or len(c.args) != 2:
            return False
        elt = c.args[0]
        if getattr(getattr(elt, "func", None), "__name__", "") == "tolist":
            elt = elt.args[0]
        return getattr(elt, "func", None) == gi and getattr(elt.args[1], "func", None) == sp.Function("idx") and elt.args[1].args[0] == ALL

    def fix_a(e):
        c = e.args[0]
        elt = c.args[0]
        if getattr(getattr(elt, "func", None), "__name__", "") == "tolist":
            elt = elt.args[0]
        return COL(comp(elt.args[0], c.args[1]), elt.args[1].args[1])

    def is_b(e):
        if getattr(e, "func", None) != gi or getattr(e.args[1], "func", None) != sp.Function("idx") or e.args[1].args[0] != ALL:
            return False
        b = e.args[0]
        return getattr(getattr(b, "func", None), "__name__", "") in ("concatenate", "vstack", "row_stack") and b.args and getattr(b.args[0], "func", None) == comp \
            and (len(b.args) == 1 or b.args[1] == 0)

    def fix_b(e):
        return COL(e.args[0].args[0], e.args[1].args[1])

    fnm = lambda x: getattr(getattr(x, "func", None), "__name__", "")      # noqa: E731

    def strip_layout(e):
        # memory-layout / type-preserving wrappers do not change the values
        while fnm(e) in ("ascontiguousarray", "asarray", "array", "copy", "asfortranarray") and len(e.args) >= 1:
            e = e.args[0]
        return e

    def is_c(e):
        # row j of the transposed stack: stack(rows).T[j]
        if getattr(e, "func", None) != gi:
            return False
        b = strip_layout(e.args[0])
        if fnm(b) not in ("attr_T", "transpose") or len(b.args) != 1:
            return False
        st_ = strip_layout(b.args[0])
        return fnm(st_) in ("concatenate", "vstack", "row_stack") and st_.args and getattr(st_.args[0], "func", None) == comp and (len(st_.args) == 1 or st_.args[1] == 0) \
            and getattr(e.args[1], "func", None) != sp.Function("idx")

    def fix_c(e):
        st_ = strip_layout(strip_layout(e.args[0]).args[0])
        return COL(st_.args[0], e.args[1])
    def fuse(x):
        # [f(y) for y in [g(h) for h in S]] is [f(g(h)) for h in S]; with f the identity it is the inner list
        if fnm(x) == "comp" and len(x.args) == 2 and fnm(x.args[1]) == "gen" and len(x.args[1].args) == 2:
            var, src = x.args[1].args
            if x.args[0] == var:
                return src
            if fnm(src) == "comp" and len(src.args) == 2 and fnm(src.args[1]) == "gen" and len(src.args[1].args) == 2 and var != src.args[1].args[0] \
                    and not x.args[0].has(src.args[1].args[0]):
                return comp(x.args[0].xreplace({var: src.args[0]}), src.args[1])
        return x
    for _ in range(3):
        v2 = v.replace(lambda x: fnm(x) == "comp", fuse)
        if v2 == v:
            break
        v = v2
    v = v.replace(is_a, fix_a)
    v = v.replace(is_b, fix_b)
    v = v.replace(is_c, fix_c)
    for _ in range(3):
        v2 = v.replace(lambda x: fnm(x) == "comp", fuse)
        if v2 == v:
            break
        v = v2
    return v


def _curves(ck: Checker, prog: Program, cls):
    spec = {"mean_curve": ("_nanmean_weighted(distribution=distribution, values=np.array(_flatten_list("
                           "[hvsr.amplitude[hvsr.valid_window_boolean_mask][:, _idx].tolist() for hvsr in self.hvsrs])), "
                           f"weights={W}, mean_kwargs=dict(axis=0))"),
            "std_curve": ("_nanstd_weighted(distribution=distribution, values=np.array(_flatten_list("
                          "[hvsr.amplitude[hvsr.valid_window_boolean_mask][:, _idx].tolist() for hvsr in self.hvsrs])), "
                          f"weights={W}, std_kwargs=dict(axis=0), denominator='cheng')")}
    for name, want_src in spec.items():
        m = cls.methods.get(name)
        if m is None:
            raise AnalysisError(f"HvsrAzimuthal.{name} not found")
        fq = m.qualname
        rets = S.returns_of(m)
        loops = [st for st in m.node.body if isinstance(st, ast.For)]
        if len(rets) != 1 or parent_of(rets[0]) is not m.node or len(loops) != 1:
            ck.violation("C11.R2", fq, "single weighted path",
                         f"{name}: {len(rets)} return statement(s) / {len(loops)} loop(s): a path bypasses the per-frequency weighted estimator",
                         loc=m.loc())
            continue
        lp = loops[0]
        out = rets[0].value
        if not isinstance(out, ast.Name):
            ck.violation("C11.R2", fq, norm_key(rets[0]), "does not return the array filled by the loop", loc=m.loc(rets[0]))
            continue
        T = S.translator_for(prog, m, cls)
        forward_substitute([st for st in m.node.body if isinstance(st, (ast.Assign, ast.AugAssign))], T)
        idx = lp.target.id if isinstance(lp.target, ast.Name) else None
        # loop covers every frequency index
        it_ok = isinstance(lp.iter, ast.Call) and call_name(lp.iter) == "range" and len(lp.iter.args) == 1 \
            and unparse(lp.iter.args[0]) in (f"len({out.id})", "len(self.frequency)")
        TL = S.translator_for(prog, m, cls)
        TL.env.update(T.env)
        if idx:
            TL.env[idx] = sp.Symbol("_idx", real=True)
        forward_substitute([st for st in lp.body if isinstance(st, ast.Assign) and isinstance(st.targets[0], ast.Name)], TL)
        stores = [st for st in lp.body if isinstance(st, ast.Assign) and isinstance(st.targets[0], ast.Subscript)
                  and unparse(st.targets[0].value) == out.id]
        if len(stores) != 1 or unparse(stores[0].targets[0].slice) != idx or not it_ok \
                or any(isinstance(x, (ast.Break, ast.Continue, ast.If)) for x in ast.walk(lp)):
            ck.violation("C11.R2", fq, norm_key(lp), "the loop does not fill one value per frequency unconditionally", loc=m.loc(lp))
            continue
        got = _column_normal_form(TL.tr(stores[0].value))
        want = _column_normal_form(S.expect(prog, m, want_src, cls, env={"_idx": sp.Symbol("_idx", real=True)}))
        if equal(got, want):
            ck.ok("C11.R2", fq, norm_key(stores[0], 110), detail="weighted estimator of the flattened accepted rows, per frequency")
        else:
            ck.violation("C11.R2", fq, norm_key(stores[0], 110),
                         f"per-frequency value is {got}; expected {want}", loc=m.loc(stores[0]))
    # mean_curve_by_azimuth / peak by azimuth delegate to each azimuth in order: by value, as sequences over self.hvsrs
    from ..pathtable import PathTable, seq_form, SEQ, ELT
    HV = sp.Symbol("self.hvsrs", real=True)
    D = sp.Symbol("distribution", real=True)
    F = sp.Function

    def hook(call, T):
        if isinstance(call.func, ast.Attribute) and call.func.attr in ("mean_curve", "mean_curve_peak") and not (isinstance(call.func.value, ast.Name) and call.func.value.id == "self"):
            d = kwarg(call, "distribution") or (call.args[0] if call.args else None)
            return F(call.func.attr)(T.tr(call.func.value), T.tr(d) if d is not None else F("default")(sp.Symbol("'lognormal'")))
        return None
    for name, acc in (("mean_curve_by_azimuth", "mean_curve"), ("mean_curve_peak_by_azimuth", "mean_curve_peak")):
        m = cls.methods.get(name)
        if m is None:
            continue
        leaves = [l for l in PathTable(prog, m.module, call_hook=hook, unroll=True, map_loops=True).leaves(m.node.body) if l.exit == "return"]
        if len(leaves) != 1 or leaves[0].value is None:
            raise AnalysisError(f"{m.qualname}: expected one returning path")
        got = seq_form(leaves[0].value)
        call = F(acc)(ELT, D)
        if acc == "mean_curve":
            want = [SEQ(call, HV)]
        else:
            gi = F("getitem")
            want = [sp.Tuple(SEQ(gi(call, sp.Integer(0)), HV), SEQ(gi(call, sp.Integer(1)), HV))]
        if got in want:
            ck.ok("C11.R2", m.qualname, f"row i = hvsrs[i].{acc}(distribution)", nontrivial=False, detail=str(got)[:120])
        else:
            known = {"SEQ", acc, "getitem", "item"}
            foreign = sorted({getattr(a_.func, "__name__", "") for a_ in sp.preorder_traversal(got) if isinstance(a_, sp.core.function.AppliedUndef)} - known)
            if foreign and not any(getattr(getattr(a_, "func", None), "__name__", "") == "SEQ" for a_ in sp.preorder_traversal(got)):
                raise AnalysisError(f"{m.qualname}: the per-azimuth values are built with constructs this rule does not interpret ({foreign})")
            ck.violation("C11.R2", m.qualname, f"per-azimuth {acc}", f"{name} does not evaluate {acc}(distribution) of every azimuth in order (returns {str(got)[:160]})", loc=m.loc())
