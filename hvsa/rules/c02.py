"""C02 - smoothing operators are the published normalised kernels."""
from __future__ import annotations

import ast
from typing import Dict, List, Optional

import sympy as sp

from ..astutil import call_name, calls_in, own_nodes, unparse, kwarg, names_loaded
from ..cfg import cfg_of, events_per_iteration
from ..dataflow import reaching, loop_carried, value_sources
from ..expr import Translator, equal, forward_substitute
from ..model import AnalysisError, Program, norm_key, parent_of
from ..report import Checker

EXPLANATION = (
    "CFG pairing, slicing and formula rules over the six loop kernels and the Savitzky-Golay pair of "
    "smoothing.py. Decided per loop kernel: (R1) on every path through the inner loop the weighted-sum and the "
    "weight-sum accumulators are both updated once with the same weight, or neither; (R2) both accumulators are "
    "re-initialised for every centre frequency, the stored column is sumproduct/sumwindow when sumwindow > 0 and "
    "the literal 0 otherwise, and 0 for fc < 1e-6; (R3) the weight's backward slice does not read the spectrum, "
    "the spectrum is read only as spectrum[:, j] with j the inner index, the inner loop visits every frequency "
    "without break, and nothing but the accumulators is carried between iterations of either loop (no state "
    "between centre frequencies) - together: constant reproduced, linear, rows independent, zero on an empty "
    "window, independent of the order of the centre frequencies; (R4) kernel weight by canonicalisation of the "
    "straight-line else-branch: Konno-Ohmachi (sin x/x)^4 with x = b log10(f/fc); Parzen (sin x/x)^4 with x = "
    "(280 pi/302)(f-fc)/b; rectangular 1; triangular 1-|f-fc|(2/b) and 1-|log10(f/fc)|(2/b); weight 1 at the "
    "centre; symmetric support limits; triangular weight 0 at the support edge; (R5) Savitzky-Golay: the "
    "coefficient/normaliser expressions satisfy sum c = N and sum c i = sum c i^2 = sum c i^3 = 0 for symbolic "
    "odd m (reproduces cubics), coefficient |i| multiplies spectrum[:, k+i] + spectrum[:, k-i], the edge test "
    "implies every index read lies in [0, nfreqs), non-odd bandwidths and non-uniform grids raise; (R6) the "
    "registry binds the seven names to the functions of the same name with a common signature; (R7) njit options "
    "stay within {cache} (compiled = source, necessary part). Not decided: bitwise agreement of compiled and "
    "interpreted kernels; accuracy of sin(x)/x near 0.")

RULES = {
    "C02.R1": "paired accumulation: sumproduct += W*spectrum[:, j] and sumwindow += W together, same W",
    "C02.R2": "per-fc initialisation; column = sumproduct/sumwindow if sumwindow > 0 else 0; fc < 1e-6 -> 0",
    "C02.R3": "weights independent of the spectrum; spectrum[:, j] only; full inner loop; no carried state",
    "C02.R4": "kernel weight formula, centre weight 1, symmetric support, triangular zero at the edge",
    "C02.R5": "Savitzky-Golay moment identities, index pairing, in-bounds reads, refusals",
    "C02.R6": "registry: seven keys bound to same-named functions; common signature",
    "C02.R7": "njit options within {cache}",
}

LOOP_KERNELS = ["konno_and_ohmachi", "parzen", "linear_rectangular", "log_rectangular", "linear_triangular", "log_triangular"]


def run(ck: Checker, prog: Program, tier: str):
    for k in LOOP_KERNELS:
        ck.guard(_kernel, ck, prog, k)
    ck.guard(_sg, ck, prog)
    ck.guard(_registry, ck, prog)


def _loops(f):
    outer = [st for st in f.node.body if isinstance(st, ast.For)]
    if len(outer) != 1:
        raise AnalysisError(f"{f.qualname}: expected one loop over the centre frequencies")
    o = outer[0]
    inner = [st for st in o.body if isinstance(st, ast.For)]
    if len(inner) != 1:
        raise AnalysisError(f"{f.qualname}: expected one inner loop over the frequencies")
    return o, inner[0]


def _kernel(ck: Checker, prog: Program, name: str):
    f = prog.func(f"smoothing.{name}")
    q = f.qualname
    if f.params[:4] != ["frequencies", "spectrum", "fcs", "bandwidth"]:
        ck.violation("C02.R6", q, "signature", f"signature {f.params}", loc=f.loc())
    o, i = _loops(f)
    cfg = cfg_of(f)
    if unparse(o.iter) != "enumerate(fcs)":
        raise AnalysisError(f"{q}: outer loop is not enumerate(fcs)")
    fc_index, fc = [unparse(e) for e in o.target.elts]
    if unparse(i.iter) == "enumerate(frequencies)" and isinstance(i.target, ast.Tuple):
        f_index, fr = [unparse(e) for e in i.target.elts]
    elif isinstance(i.iter, ast.Call) and call_name(i.iter) == "range" and isinstance(i.target, ast.Name):
        f_index = i.target.id
        d = [st for st in i.body if isinstance(st, ast.Assign) and unparse(st.value) == f"frequencies[{f_index}]"]
        if not d:
            raise AnalysisError(f"{q}: inner loop variable for the frequency not found")
        fr = unparse(d[0].targets[0])
        full = [unparse(a) for a in i.iter.args] in (["len(frequencies)"], ["frequencies.size"], ["0", "len(frequencies)"], ["0", "frequencies.size"])
        if not full:
            ck.violation("C02.R3", q, norm_key(i),
                         f"the inner loop `{norm_key(i, 80)}` does not visit every frequency for every centre frequency: samples inside a window "
                         f"can be skipped (the result depends on the other centre frequencies / their order)", loc=f.loc(i))
    else:
        raise AnalysisError(f"{q}: inner loop is not over all frequencies (enumerate(frequencies) / range(len(frequencies)))")
    # ------------------------------------------------------------------ R1
    acc_p = [st for st in ast.walk(i) if isinstance(st, ast.AugAssign) and isinstance(st.op, ast.Add) and unparse(st.target) == "sumproduct"]
    acc_w = [st for st in ast.walk(i) if isinstance(st, ast.AugAssign) and isinstance(st.op, ast.Add) and unparse(st.target) == "sumwindow"]

    def classify(n):
        st = cfg.ast_of(n)
        if cfg.kind(n) != "stmt":
            return None
        if st in acc_p:
            return 0
        if st in acc_w:
            return 1
        if isinstance(st, (ast.Assign, ast.AugAssign)):
            tg = st.targets if isinstance(st, ast.Assign) else [st.target]
            if any(unparse(t) in ("sumproduct", "sumwindow") for t in tg):
                return 2
        return None
    res = events_per_iteration(cfg, i, classify, 3)
    wname = None
    same_w = False
    if len(acc_p) == 1 and len(acc_w) == 1:
        v = acc_p[0].value
        if isinstance(v, ast.BinOp) and isinstance(v.op, ast.Mult):
            sides = [v.left, v.right]
            spec = [s for s in sides if isinstance(s, ast.Subscript) and unparse(s) == f"spectrum[:, {f_index}]"]
            w = [s for s in sides if s not in spec]
            if len(spec) == 1 and len(w) == 1:
                wname = unparse(w[0])
                same_w = unparse(acc_w[0].value) == wname
    if res <= {(0, 0, 0), (1, 1, 0)} and (1, 1, 0) in res and same_w:
        ck.ok("C02.R1", q, f"sumproduct += {wname}*spectrum[:, {f_index}]; sumwindow += {wname}", detail=f"iteration outcomes {sorted(res)}")
    else:
        ck.violation("C02.R1", q, "paired accumulation",
                     f"per frequency the accumulators are updated (sumproduct, sumwindow, other) x {sorted(res)}; same weight on both: {same_w} - "
                     f"the result would not be the weight-normalised average", loc=f.loc(i))
    # ------------------------------------------------------------------ R2
    inits = {unparse(st.targets[0]): st for st in o.body if isinstance(st, ast.Assign) and unparse(st.targets[0]) in ("sumproduct", "sumwindow")}
    rows = "nrows" if "nrows" in unparse(f.node) else "nspectra"
    good = set(inits) == {"sumproduct", "sumwindow"} and unparse(inits["sumproduct"].value) == f"np.zeros({rows})" and unparse(inits["sumwindow"].value) == "0" \
        and all(st.lineno < i.lineno for st in inits.values())
    if good:
        ck.ok("C02.R2", q, "accumulators reset for every centre frequency")
    else:
        ck.violation("C02.R2", q, "accumulator initialisation", "sumproduct/sumwindow are not reset to zero for every centre frequency", loc=f.loc(o))
    fin = [st for st in o.body if isinstance(st, ast.If) and st.lineno > i.end_lineno]
    good = False
    if len(fin) == 1 and unparse(fin[0].test) == "sumwindow > 0":
        a = [unparse(x.targets[0]) + " = " + unparse(x.value) for x in fin[0].body if isinstance(x, ast.Assign)]
        e = [unparse(x.targets[0]) + " = " + unparse(x.value) for x in fin[0].orelse if isinstance(x, ast.Assign)]
        good = a == [f"smoothed_spectrum[:, {fc_index}] = sumproduct / sumwindow"] and e == [f"smoothed_spectrum[:, {fc_index}] = 0"]
    if good:
        ck.ok("C02.R2", q, f"column {fc_index} = sumproduct / sumwindow if sumwindow > 0 else 0")
    else:
        ck.violation("C02.R2", q, "normalisation", "the column stored is not sumproduct/sumwindow (0 when no sample falls in the window)", loc=f.loc(o))
    small = [st for st in o.body if isinstance(st, ast.If) and st.lineno < i.lineno]
    good = len(small) == 1 and unparse(small[0].test) == f"{fc} < 1e-06" and any(isinstance(b, ast.Continue) for b in small[0].body) \
        and any(isinstance(b, ast.Assign) and unparse(b.targets[0]) == f"smoothed_spectrum[:, {fc_index}]" and unparse(b.value) == "0" for b in small[0].body)
    if good:
        ck.ok("C02.R2", q, f"{fc} < 1e-6 -> 0", nontrivial=False)
    else:
        ck.violation("C02.R2", q, "zero centre frequency", "centre frequencies below 1e-6 are not set to 0", loc=f.loc(o))
    rets = [r for r in own_nodes(f.node) if isinstance(r, ast.Return)]
    alloc = [st for st in f.node.body if isinstance(st, ast.Assign) and unparse(st.targets[0]) == "smoothed_spectrum"]
    if len(rets) == 1 and unparse(rets[0].value) == "smoothed_spectrum" and len(alloc) == 1:
        ck.ok("C02.R2", q, "returns the filled array", nontrivial=False)
    else:
        ck.violation("C02.R2", q, "return", "does not return the filled array", loc=f.loc())
    # ------------------------------------------------------------------ R3
    spec_reads = [n for n in own_nodes(f.node) if isinstance(n, ast.Name) and n.id == "spectrum" and isinstance(n.ctx, ast.Load)]
    bad_reads = []
    for n in spec_reads:
        p = parent_of(n)
        if isinstance(p, ast.Subscript) and unparse(p) == f"spectrum[:, {f_index}]":
            continue
        if isinstance(p, ast.Attribute) and p.attr == "shape":
            continue
        bad_reads.append(p)
    if not bad_reads:
        ck.ok("C02.R3", q, f"spectrum read only as spectrum[:, {f_index}] (and its shape)")
    for p in bad_reads:
        ck.violation("C02.R3", q, norm_key(p), f"the spectrum is read as `{unparse(p)}`: rows or frequencies are mixed", loc=f.loc(p))
    if wname:
        srcs, stmts = value_sources(f, acc_w[0].value, acc_w[0])
        uses_spec = "spectrum" in srcs or any("spectrum[" in unparse(s) for s in stmts if isinstance(s, (ast.Assign, ast.AugAssign)) and unparse(s.targets[0] if isinstance(s, ast.Assign) else s.target) == wname)
        if uses_spec:
            ck.violation("C02.R3", q, "weight depends on the spectrum", "the weight is computed from the spectrum: the operator is not linear", loc=f.loc(i))
        else:
            ck.ok("C02.R3", q, "weight independent of the spectrum", detail=f"sources {sorted(srcs)}")
    if any(isinstance(x, (ast.Break, ast.Return)) for x in ast.walk(i)):
        ck.violation("C02.R3", q, "inner loop exits early", "the loop over the frequencies can stop early (break/return)", loc=f.loc(i))
    else:
        ck.ok("C02.R3", q, "inner loop visits every frequency", nontrivial=False)
    for loop, what, ign in ((o, "centre frequencies", {"smoothed_spectrum"}), (i, "frequencies", {"sumproduct", "sumwindow", "smoothed_spectrum"})):
        carried = loop_carried(f, loop, ignore=ign)
        if loop is o:
            carried = [c for c in carried if c[0] not in ("sumproduct", "sumwindow") or not any(x is c[2] for x in ast.walk(i))] if False else carried
        if not carried:
            ck.ok("C02.R3", q, f"nothing carried between {what}")
        for (nm, use, d) in carried:
            ck.violation("C02.R3", q, f"{nm} carried between {what}",
                         f"`{nm}` (set by `{norm_key(d, 60)}`) is read at line {use.lineno} in a later iteration over the {what}: "
                         f"a column would depend on the other centre frequencies / their order", loc=f.loc(use))
    # ------------------------------------------------------------------ R4
    _kernel_formula(ck, f, name, o, i, fr, fc, wname)


def _kernel_formula(ck, f, name, o, i, fr, fc, wname):
    q = f.qualname
    F, FC, B = sp.Symbol("f", positive=True), sp.Symbol("fc", positive=True), sp.Symbol("b", positive=True)
    env = {fr: F, fc: FC, "bandwidth": B}
    T = Translator(env=env)
    forward_substitute([st for st in f.node.body if isinstance(st, ast.Assign) and st.lineno < o.lineno and isinstance(st.targets[0], ast.Name)
                        and unparse(st.targets[0]) not in ("smoothed_spectrum",) and not isinstance(st.value, ast.Attribute) and "shape" not in unparse(st.value)
                        and "size" not in unparse(st.value) and "np.empty" not in unparse(st.value)], T)
    forward_substitute([st for st in i.body if isinstance(st, ast.Assign)], T)
    sel = [st for st in i.body if isinstance(st, ast.If)]
    if len(sel) != 1:
        raise AnalysisError(f"{q}: selection `if` in the inner loop not found")
    s = sel[0]
    # branches: skip / (centre) / weight
    chain = []
    cur = s
    while isinstance(cur, ast.If):
        chain.append((cur.test, cur.body))
        if len(cur.orelse) == 1 and isinstance(cur.orelse[0], ast.If):
            cur = cur.orelse[0]
        else:
            chain.append((None, cur.orelse))
            break
    if not any(isinstance(b, ast.Continue) for b in chain[0][1]):
        raise AnalysisError(f"{q}: first branch of the selection does not skip")
    skip = T.tr(chain[0][0])
    wbody = chain[-1][1]
    TW = Translator(env=dict(T.env))
    forward_substitute([st for st in wbody if isinstance(st, (ast.Assign, ast.AugAssign))], TW)
    W = TW.env.get(wname) if wname else None
    x_ko = B * sp.log(F / FC) / sp.log(10)
    a_p = sp.pi * 280 / (2 * 151)
    x_pz = a_p * (F - FC) / B
    want = {
        "konno_and_ohmachi": (sp.sin(x_ko) / x_ko) ** 4,
        "parzen": (sp.sin(x_pz) / x_pz) ** 4,
        "linear_rectangular": sp.Integer(1),
        "log_rectangular": sp.Integer(1),
        "linear_triangular": 1 - sp.Abs(F - FC) * (2 / B),
        "log_triangular": 1 - sp.Abs(sp.log(F / FC) / sp.log(10)) * (2 / B),
    }[name]
    if W is not None and equal(W, want):
        ck.ok("C02.R4", q, f"weight = {want}")
    else:
        ck.violation("C02.R4", q, "kernel weight", f"the weight is {W}; the published kernel is {want}", loc=f.loc(s))
    # centre branch
    if len(chain) == 3:
        ctest, cbody = chain[1]
        okc = unparse(ctest) == f"np.abs({fr} - {fc}) < 1e-06" and [unparse(x.value) for x in cbody if isinstance(x, ast.Assign)] in (["1.0"], ["1"])
        if okc:
            ck.ok("C02.R4", q, "weight 1 at the centre frequency", nontrivial=False)
        else:
            ck.violation("C02.R4", q, "centre weight", "the weight at f = fc is not 1", loc=f.loc(s))
    # support: collect relations of the skip test besides f < 1e-6
    rels = list(skip.args) if isinstance(skip, sp.Or) else [skip]
    sup = []
    zero_guard = False
    for r in rels:
        if isinstance(r, sp.Lt) and equal(r.lhs, F) and r.rhs == sp.Rational(1, 1000000):
            zero_guard = True
        else:
            sup.append(r)
    if zero_guard:
        ck.ok("C02.R4", q, "0 Hz bin excluded (f < 1e-6)", nontrivial=False)
    else:
        ck.violation("C02.R4", q, "0 Hz bin", "samples at f < 1e-6 are not excluded", loc=f.loc(s))
    ratio, diff = F / FC, F - FC
    sym_ok = False
    edge = None
    detail = str(sup)
    if name in ("konno_and_ohmachi", "log_rectangular", "log_triangular"):
        up = [r.rhs for r in sup if isinstance(r, sp.Gt) and equal(r.lhs, ratio)] + [r.lhs for r in sup if isinstance(r, sp.Lt) and equal(r.rhs, ratio)]
        lo = [r.rhs for r in sup if isinstance(r, sp.Lt) and equal(r.lhs, ratio)] + [r.lhs for r in sup if isinstance(r, sp.Gt) and equal(r.rhs, ratio)]
        if len(up) == 1 and len(lo) == 1 and len(sup) == 2:
            sym_ok = equal(sp.simplify(up[0] * lo[0]), sp.Integer(1))
            edge = {F: up[0] * FC}
            expect_up = {"konno_and_ohmachi": sp.Integer(10) ** (3 / B), "log_rectangular": sp.Integer(10) ** (B / 2), "log_triangular": sp.Integer(10) ** (B / 2)}[name]
            sym_ok = sym_ok and equal(up[0], expect_up)
            detail = f"{lo[0]} <= f/fc <= {up[0]}"
    elif name == "parzen":
        up = [r.rhs for r in sup if isinstance(r, sp.Gt) and equal(r.lhs, diff)]
        lo = [r.rhs for r in sup if isinstance(r, sp.Lt) and equal(r.lhs, diff)]
        if len(up) == 1 and len(lo) == 1 and len(sup) == 2:
            sym_ok = equal(up[0] + lo[0], sp.Integer(0)) and equal(up[0], sp.sqrt(6) * a_p / B)
            detail = f"{lo[0]} <= f-fc <= {up[0]}"
    else:
        ab = [r for r in sup if isinstance(r, sp.Gt) and equal(r.lhs, sp.Abs(diff))]
        if len(ab) == 1 and len(sup) == 1:
            sym_ok = equal(ab[0].rhs, B / 2)
            edge = {F: FC + B / 2}
            detail = f"|f-fc| <= {ab[0].rhs}"
    if sym_ok:
        ck.ok("C02.R4", q, f"support {detail}", detail="symmetric about the centre frequency")
    else:
        ck.violation("C02.R4", q, "support limits", f"the window support is {detail}: not the symmetric published support", loc=f.loc(s))
    if name.endswith("triangular") and W is not None and edge is not None:
        at_edge = sp.simplify(W.subs(edge))
        if at_edge == 0:
            ck.ok("C02.R4", q, "triangular weight is 0 at the support edge (non-negative inside)")
        else:
            ck.violation("C02.R4", q, "triangular edge weight", f"the weight at the support edge is {at_edge}, not 0 (negative or discontinuous weights)", loc=f.loc(s))


def _sg(ck: Checker, prog: Program):
    f = prog.func("smoothing.savitzky_and_golay")
    q = f.qualname
    m = sp.Symbol("m", positive=True, integer=True)
    T = Translator(env={"m": m})
    # coefficient expression and normaliser
    loops = [st for st in f.node.body if isinstance(st, ast.For)]
    if len(loops) != 1:
        raise AnalysisError(f"{q}: coefficient loop not found")
    lp = loops[0]
    ivar = unparse(lp.target.elts[1]) if isinstance(lp.target, ast.Tuple) else None
    isym = sp.Symbol("i", integer=True)
    T.env[ivar] = isym
    cst = [st for st in lp.body if isinstance(st, ast.Assign) and unparse(st.targets[0]).startswith("coefficients[")]
    nst = [st for st in f.node.body if isinstance(st, ast.Assign) and unparse(st.targets[0]) == "normalization_coefficient"]
    if len(cst) != 1 or len(nst) != 1:
        raise AnalysisError(f"{q}: coefficient / normalisation expressions not found")
    c = T.tr(cst[0].value)
    N = T.tr(nst[0].value)
    c = c.replace(sp.Abs, lambda a: a) if c.has(sp.Abs) and all(arg.is_nonnegative or arg == isym ** 2 for arg in [x.args[0] for x in c.atoms(sp.Abs)]) else c
    p = sp.Symbol("p", positive=True, integer=True)
    cm = c.subs(m, 2 * p + 1)
    Nm = N.subs(m, 2 * p + 1)
    ids = []
    for k, want in ((0, Nm), (1, 0), (2, 0), (3, 0)):
        ssum = sp.simplify(sp.summation(cm * isym ** k, (isym, -p, p)))
        ids.append((k, sp.simplify(ssum - want) == 0, ssum))
    if all(okk for _k, okk, _s in ids):
        ck.ok("C02.R5", q, "moment identities: sum c = N, sum c i^k = 0 (k=1,2,3) for every odd m", detail=f"c_i = {c}; N = {N}")
    else:
        bad = [(k, s) for k, okk, s in ids if not okk]
        ck.violation("C02.R5", q, "Savitzky-Golay coefficients",
                     f"the coefficients c_i = {c} with normaliser {N} do not reproduce cubic polynomials: " +
                     "; ".join(f"sum c i^{k} = {s}" for k, s in bad), loc=f.loc(cst[0]))
    # coefficients are stored for i = -(nterms-1) .. 0 in order
    it_ok = unparse(lp.iter) == "enumerate(range(-(nterms - 1), 1))" and unparse(cst[0].targets[0]) == f"coefficients[{unparse(lp.target.elts[0])}]"
    nt = [st for st in f.node.body if isinstance(st, ast.Assign) and unparse(st.targets[0]) == "nterms"]
    nt_ok = len(nt) == 1 and equal(Translator(env={"m": m}).tr(nt[0].value).subs(m, 2 * p + 1), p + 1)
    if it_ok and nt_ok:
        ck.ok("C02.R5", q, "coefficients[k] holds c_i for i = -(nterms-1)+k, nterms = (m-1)/2 + 1")
    else:
        ck.violation("C02.R5", q, "coefficient table", "the coefficient table is not filled for i = -(nterms-1)..0 with nterms = (m-1)//2 + 1", loc=f.loc(lp))
    # refusals
    tests = {unparse(st.test): st for st in f.node.body if isinstance(st, ast.If) and any(isinstance(b, ast.Raise) for b in st.body)}
    if "m % 2 != 1" in tests and any("np.min(diff) - np.max(diff)" in t for t in tests):
        ck.ok("C02.R5", q, "non-odd bandwidth and non-uniform grids raise")
    else:
        ck.violation("C02.R5", q, "refusals", f"refusals found: {sorted(tests)}", loc=f.loc())
    nf = [st for st in f.node.body if isinstance(st, ast.Assign) and unparse(st.targets[0]) == "nfcs"]
    if len(nf) == 1 and unparse(nf[0].value) == "np.round((fcs - np.min(frequencies)) / df).astype(int)":
        ck.ok("C02.R5", q, norm_key(nf[0]), detail="centre frequency -> nearest grid index")
    else:
        ck.violation("C02.R5", q, "grid index", "centre frequencies are not mapped to the nearest grid index", loc=f.loc())
    rets = [r for r in own_nodes(f.node) if isinstance(r, ast.Return)]
    if len(rets) == 1 and unparse(rets[0].value) == "_savitzky_and_golay(spectrum, nfcs, coefficients, normalization_coefficient)":
        ck.ok("C02.R5", q, norm_key(rets[0]), nontrivial=False)
    else:
        ck.violation("C02.R5", q, "helper call", "the compiled helper is not called with (spectrum, nfcs, coefficients, normalization_coefficient)", loc=f.loc())
    # ---- helper
    h = prog.func("smoothing._savitzky_and_golay")
    hq = h.qualname
    loops = [st for st in h.node.body if isinstance(st, ast.For)]
    if len(loops) != 1:
        raise AnalysisError(f"{hq}: loop not found")
    lp = loops[0]
    k = unparse(lp.target.elts[1])
    col = unparse(lp.target.elts[0])
    edge = [st for st in lp.body if isinstance(st, ast.If) and any(isinstance(b, ast.Continue) for b in st.body)]
    inner = [st for st in lp.body if isinstance(st, ast.For)]
    if len(edge) != 1 or len(inner) != 1:
        raise AnalysisError(f"{hq}: edge test / inner loop not found")
    TT = Translator()
    idx, nc, nfr = TT.sym(k), TT.sym("ncoeff"), TT.sym("nfreqs")
    skip = TT.tr(edge[0].test)
    rels = list(skip.args) if isinstance(skip, sp.Or) else [skip]
    lower = upper = None
    for r in rels:
        # idx < L  -> kept implies idx >= L ;  idx + E > nfreqs -> kept implies idx + E <= nfreqs
        if isinstance(r, sp.Lt) and equal(r.lhs, idx):
            lower = r.rhs
        elif isinstance(r, sp.Le) and equal(r.lhs, idx):
            lower = r.rhs + 1
        elif isinstance(r, (sp.Gt, sp.Ge)) and equal(r.rhs, nfr):
            upper = (r.lhs - idx) if isinstance(r, sp.Gt) else (r.lhs - idx + 1)
    # offsets read: rel_idx + 1 for rel_idx in enumerate(coefficients[:-1][::-1]) -> 1 .. ncoeff-1
    it_ok = unparse(inner[0].iter) == "enumerate(coefficients[:-1][::-1])"
    rel = unparse(inner[0].target.elts[0]) if isinstance(inner[0].target, ast.Tuple) else "?"
    cf = unparse(inner[0].target.elts[1]) if isinstance(inner[0].target, ast.Tuple) else "?"
    upd = [st for st in inner[0].body if isinstance(st, ast.AugAssign)]
    pair_ok = len(upd) == 1 and unparse(upd[0].target) == "summation" and unparse(upd[0].value) in (
        f"{cf} * (spectrum[:, {k} + ({rel} + 1)] + spectrum[:, {k} - ({rel} + 1)])",
        f"{cf} * (spectrum[:, {k} - ({rel} + 1)] + spectrum[:, {k} + ({rel} + 1)])")
    centre = [st for st in lp.body if isinstance(st, ast.Assign) and unparse(st.targets[0]) == "summation"]
    centre_ok = len(centre) == 1 and unparse(centre[0].value) == f"coefficients[-1] * spectrum[:, {k}]"
    if it_ok and pair_ok and centre_ok:
        ck.ok("C02.R5", hq, "c_0*s[k] + sum_i c_i*(s[k+i] + s[k-i])", detail="coefficient |i| pairs the two samples at distance i")
    else:
        ck.violation("C02.R5", hq, "index pairing", f"the weighted sum does not pair coefficient |i| with spectrum[:, k+i] + spectrum[:, k-i] (iter {it_ok}, pair {pair_ok}, centre {centre_ok})",
                     loc=h.loc(lp))
    max_off = nc - 1
    lo_ok = lower is not None and sp.simplify(lower - max_off).is_nonnegative
    up_ok = upper is not None and sp.simplify(upper - max_off - 1).is_nonnegative
    if lo_ok and up_ok:
        ck.ok("C02.R5", hq, norm_key(edge[0]), detail=f"kept => k >= {lower} and k + {upper} <= nfreqs: every read index lies in [0, nfreqs)")
    else:
        ck.violation("C02.R5", hq, norm_key(edge[0]),
                     f"the edge test keeps windows that read outside the spectrum: kept implies k >= {lower} and k + ({upper}) <= nfreqs, but the window "
                     f"reads k - (ncoeff-1) .. k + (ncoeff-1) (unchecked reads in compiled code return garbage from the next row)", loc=h.loc(edge[0]))
    zero = any(isinstance(b, ast.Assign) and unparse(b.targets[0]) == f"smoothed_spectrum[:, {col}]" and unparse(b.value) == "0" for b in edge[0].body)
    store = [st for st in lp.body if isinstance(st, ast.Assign) and unparse(st.targets[0]) == f"smoothed_spectrum[:, {col}]"]
    if zero and len(store) == 1 and unparse(store[0].value) == "summation / normalization_coefficient":
        ck.ok("C02.R5", hq, "incomplete windows -> 0; else summation / N")
    else:
        ck.violation("C02.R5", hq, "stored value", "the stored column is not summation/normalization_coefficient (0 for incomplete windows)", loc=h.loc(lp))


def _registry(ck: Checker, prog: Program):
    reg = prog.registry("smoothing", "SMOOTHING_OPERATORS")
    names = LOOP_KERNELS + ["savitzky_and_golay"]
    if set(reg) != set(names):
        ck.violation("C02.R6", "smoothing.SMOOTHING_OPERATORS", "keys", f"keys {sorted(reg)}; expected {sorted(names)}", loc="hvsrpy/smoothing.py")
    for k, v in reg.items():
        if isinstance(v, ast.Name) and v.id == k and f"smoothing.{k}" in prog.funcs:
            f = prog.funcs[f"smoothing.{k}"]
            if f.params[:4] == ["frequencies", "spectrum", "fcs", "bandwidth"]:
                ck.ok("C02.R6", "smoothing.SMOOTHING_OPERATORS", f"'{k}' -> {k}(frequencies, spectrum, fcs, bandwidth)")
            else:
                ck.violation("C02.R6", f.qualname, "signature", f"signature {f.params}", loc=f.loc())
        else:
            ck.violation("C02.R6", "smoothing.SMOOTHING_OPERATORS", f"'{k}'", f"'{k}' is bound to `{unparse(v)}`", loc="hvsrpy/smoothing.py")
    n = 0
    mod = prog.module("smoothing")
    for f in prog.funcs.values():
        if f.module is not mod or f.kind != "function":
            continue
        for d in f.node.decorator_list:
            if "njit" in unparse(d) or "jit" in unparse(d):
                n += 1
                opts = {k.arg for k in d.keywords} if isinstance(d, ast.Call) else set()
                if opts <= {"cache"}:
                    ck.ok("C02.R7", f.qualname, f"@{unparse(d)}")
                else:
                    ck.violation("C02.R7", f.qualname, f"@{unparse(d)}", f"njit options {sorted(opts - {'cache'})} may change the numerical meaning of the kernel", loc=f.loc())
    ck.floor("C02.R7", n, 7, "njit-compiled kernels")
