"""C02 - smoothing operators are the published normalised kernels."""
from __future__ import annotations

import ast
from typing import Dict, List, Optional

import sympy as sp

from ..astutil import call_name, calls_in, own_nodes, unparse, kwarg, names_loaded
from ..cfg import cfg_of, events_per_iteration
from ..dataflow import reaching, loop_carried, value_sources
from ..expr import Translator, equal, forward_substitute
from ..model import AnalysisError, Program, norm_key, parent_of
from ..report import Checker
from ..pathtable import PathTable, Leaf, literals, same_rel, same_literal_set, flatten_cases, assigned_names, negate
from ..resolve import Resolver, canon
from ..astutil import bind_call

EXPLANATION = (
    "CFG pairing, slicing and formula rules over the six loop kernels and the Savitzky-Golay pair of "
    "smoothing.py. Decided per loop kernel: (R1) on every path through the inner loop the weighted-sum and the "
    "weight-sum accumulators are both updated once with the same weight, or neither; (R2) both accumulators are "
    "re-initialised for every centre frequency, the stored column is sumproduct/sumwindow when sumwindow > 0 and "
    "the literal 0 otherwise, and 0 for fc < 1e-6; (R3) the weight's backward slice does not read the spectrum, "
    "the spectrum is read only as spectrum[:, j] with j the inner index, the inner loop visits every frequency "
    "without break, and nothing but the accumulators is carried between iterations of either loop (no state "
    "between centre frequencies) - together: constant reproduced, linear, rows independent, zero on an empty "
    "window, independent of the order of the centre frequencies; (R4) kernel weight by canonicalisation of the "
    "straight-line else-branch: Konno-Ohmachi (sin x/x)^4 with x = b log10(f/fc); Parzen (sin x/x)^4 with x = "
    "(280 pi/302)(f-fc)/b; rectangular 1; triangular 1-|f-fc|(2/b) and 1-|log10(f/fc)|(2/b); weight 1 at the "
    "centre; symmetric support limits; triangular weight 0 at the support edge; (R5) Savitzky-Golay: the "
    "coefficient/normaliser expressions satisfy sum c = N and sum c i = sum c i^2 = sum c i^3 = 0 for symbolic "
    "odd m (reproduces cubics), coefficient |i| multiplies spectrum[:, k+i] + spectrum[:, k-i], the edge test "
    "implies every index read lies in [0, nfreqs), non-odd bandwidths and non-uniform grids raise; (R6) the "
    "registry binds the seven names to the functions of the same name with a common signature; (R7) njit options "
    "stay within {cache} (compiled = source, necessary part). Not decided: bitwise agreement of compiled and "
    "interpreted kernels; accuracy of sin(x)/x near 0.")

RULES = {
    "C02.R1": "paired accumulation: sumproduct += W*spectrum[:, j] and sumwindow += W together, same W",
    "C02.R2": "per-fc initialisation; column = sumproduct/sumwindow if sumwindow > 0 else 0; fc < 1e-6 -> 0",
    "C02.R3": "weights independent of the spectrum; spectrum[:, j] only; full inner loop; no carried state",
    "C02.R4": "kernel weight formula, centre weight 1, symmetric support, triangular zero at the edge",
    "C02.R5": "Savitzky-Golay moment identities, index pairing, in-bounds reads, refusals",
    "C02.R6": "registry: seven keys bound to same-named functions; common signature",
    "C02.R7": "njit options within {cache}",
}

LOOP_KERNELS = ["konno_and_ohmachi", "parzen", "linear_rectangular", "log_rectangular", "linear_triangular", "log_triangular"]


def run(ck: Checker, prog: Program, tier: str):
    for k in LOOP_KERNELS:
        ck.guard(_kernel, ck, prog, k)
    ck.guard(_sg, ck, prog)
    ck.guard(_registry, ck, prog)
    ck.guard(_purity, ck, prog)
    # the operator is evaluated with the bandwidth and centre frequencies the caller configured: every processing function hands the
    # configured (operator, bandwidth, frequencies, centre frequencies) to the registry entry (call wiring of C01)
    from . import c01
    with ck.borrow(c01, "C02.R5+"):
        c01._PROG[0] = prog
        for q in c01.ROW_BODIES:
            ck.guard(c01._body, ck, prog, q)
    from .common import check_identity_comparisons as _cic
    ck.guard(_cic, ck, prog, "C02.R1", "C02")


def _purity(ck: Checker, prog: Program):
    """A smoothing operator is a function of its four arguments: it writes neither module-level state (no remembered
    coefficients / windows) nor the arrays it is given."""
    from .common import engine, group_effects, describe_effect, chain_text
    eng = engine(prog)
    reg = prog.registry("smoothing", "SMOOTHING_OPERATORS")
    n = 0
    for key, v in reg.items():
        if not isinstance(v, ast.Name):
            continue
        f = prog.func(f"smoothing.{v.id}")
        s = eng.summary(f)
        bad = [e for e in s.effects if e.origin[0] in ("G", "P")]
        n += 1
        if not bad:
            ck.ok("C02.R6", f.qualname, "no state outside the result is written", nontrivial=False)
        for (func, text), es in group_effects(prog, bad).items():
            ck.violation("C02.R6", func, text, f"{f.qualname} {describe_effect(es[0])}: the operator keeps state between calls / alters its input "
                         f"(the result of a call would depend on earlier calls)", loc=es[0].chain[0].loc, path=chain_text(es[0]))
    ck.floor("C02.R6", n, 7, "smoothing operators checked for purity")


def _single_loop(stmts, what, q):
    loops = [st for st in stmts if isinstance(st, ast.For)]
    if len(loops) != 1:
        raise AnalysisError(f"{q}: expected one loop over the {what}, found {len(loops)}")
    return loops[0]


def _header(loop: ast.For, seq: str, q: str, env: Dict[str, sp.Expr], idx_sym: sp.Expr, val_sym: sp.Expr):
    """Bind the index and the element of `for i, x in enumerate(seq)` / `for i in range(len(seq))`.
    Returns (index name, whether every element is visited)."""
    it = loop.iter
    if isinstance(it, ast.Call) and call_name(it) == "enumerate" and len(it.args) == 1 and unparse(it.args[0]) == seq \
            and isinstance(loop.target, ast.Tuple) and len(loop.target.elts) == 2 and all(isinstance(e, ast.Name) for e in loop.target.elts):
        env[loop.target.elts[0].id] = idx_sym
        env[loop.target.elts[1].id] = val_sym
        return loop.target.elts[0].id, True
    if isinstance(it, ast.Call) and call_name(it) == "range" and isinstance(loop.target, ast.Name):
        env[loop.target.id] = idx_sym
        env[f"{seq}[{loop.target.id}]"] = val_sym
        T = Translator(env=env)
        args = [T.tr(a) for a in it.args]
        n_all = {sp.Function("len")(T.sym(seq)), T.sym(f"{seq}.size"), sp.Function("getitem")(T.sym(f"{seq}.shape"), sp.Integer(0))}
        full = (len(args) == 1 and args[0] in n_all) or (len(args) == 2 and args[0] == 0 and args[1] in n_all)
        return loop.target.id, full
    raise AnalysisError(f"{q}: loop header `{norm_key(loop, 60)}` is not enumerate({seq}) / range(len({seq}))")


def _kernel(ck: Checker, prog: Program, name: str):
    f = prog.func(f"smoothing.{name}")
    q = f.qualname
    if f.params[:4] != ["frequencies", "spectrum", "fcs", "bandwidth"]:
        ck.violation("C02.R6", q, "signature", f"signature {f.params}", loc=f.loc())
    F, FC, B = sp.Symbol("f", positive=True), sp.Symbol("fc", positive=True), sp.Symbol("b", positive=True)
    CI, FI = sp.Symbol("c_index", integer=True), sp.Symbol("f_index", integer=True)
    o = _single_loop(f.node.body, "centre frequencies", q)
    i = _single_loop(o.body, "frequencies", q)
    # ---- prelude (limits, constants)
    pre = PathTable(prog, f.module, env={"bandwidth": B}).leaves(f.node.body)
    pre = [l for l in pre if id(o) in l.snaps]
    if len(pre) != 1:
        raise AnalysisError(f"{q}: the loop over the centre frequencies is reached on {len(pre)} paths")
    env = dict(pre[0].snaps[id(o)][0])
    for nm in assigned_names(o):
        env.pop(nm, None)
    fc_index, full_o = _header(o, "fcs", q, env, CI, FC)
    if not full_o:
        ck.violation("C02.R3", q, norm_key(o), f"the outer loop `{norm_key(o, 80)}` does not visit every centre frequency", loc=f.loc(o))
    # ---- accumulators: names added to inside the inner loop
    accs = sorted({st.target.id for st in ast.walk(i) if isinstance(st, ast.AugAssign) and isinstance(st.target, ast.Name)
                   and any(st.target.id == t.id for s2 in o.body if isinstance(s2, ast.Assign) for t in s2.targets if isinstance(t, ast.Name))})
    # ---- outer decision table
    outer = PathTable(prog, f.module, env=env).leaves(o.body)
    with_loop = [l for l in outer if id(i) in l.snaps]
    without = [l for l in outer if id(i) not in l.snaps]
    if not with_loop:
        raise AnalysisError(f"{q}: the loop over the frequencies is not reached")
    SPECJ = None
    # ---- inner loop
    ienv = dict(with_loop[0].snaps[id(i)][0])
    for nm in assigned_names(i):
        ienv.pop(nm, None)
    f_index, full_i = _header(i, "frequencies", q, ienv, FI, F)
    if not full_i:
        ck.violation("C02.R3", q, norm_key(i),
                     f"the inner loop `{norm_key(i, 80)}` does not visit every frequency for every centre frequency: samples inside a window "
                     f"can be skipped (the result depends on the other centre frequencies / their order)", loc=f.loc(i))
    SPECJ = Translator(env=ienv).tr(ast.parse(f"spectrum[:, {f_index}]", mode="eval").body)
    inner = PathTable(prog, f.module, accumulators=accs, env=ienv).leaves(i.body)
    # which accumulator is the weighted sum?
    prod = sorted({e[1] for l in inner for e in l.events if e[0].startswith("acc") and e[2].has(SPECJ)})
    wsum = [a for a in accs if a not in prod]
    if len(prod) != 1 or len(wsum) != 1:
        ck.violation("C02.R1", q, "paired accumulation",
                     f"accumulators found in the inner loop: weighted sums {prod}, weight sums {wsum} - the result would not be the weight-normalised average", loc=f.loc(i))
        return
    P, Wn = prod[0], wsum[0]
    # ------------------------------------------------------------------ R1
    acc_leaves = []
    bad = []
    outcomes = set()
    for l in inner:
        ep = [e for e in l.events if e[1] == P and e[0].startswith("acc")]
        ew = [e for e in l.events if e[1] == Wn and e[0].startswith("acc")]
        other = [e for e in l.events if e[0] == "store" or (e[0].startswith("acc") and e[1] not in (P, Wn))]
        outcomes.add((len(ep), len(ew), len(other)))
        if l.exit in ("break", "return", "raise"):
            ck.violation("C02.R3", q, "inner loop exits early", f"the loop over the frequencies can stop early ({l.exit})", loc=f.loc(i))
        if not ep and not ew and not other:
            continue
        if len(ep) == 1 and len(ew) == 1 and not other and ep[0][0] == "acc+" and ew[0][0] == "acc+":
            W = ew[0][2]
            if equal(ep[0][2], W * SPECJ):
                acc_leaves.append((l, W))
                continue
            bad.append(f"sumproduct += {ep[0][2]} but sumwindow += {W}")
        else:
            bad.append(f"(weighted sum, weight sum, other stores) updated x ({len(ep)}, {len(ew)}, {len(other)})")
    if not bad and acc_leaves:
        ck.ok("C02.R1", q, f"{P} += W*spectrum[:, {f_index}]; {Wn} += W with the same W on every path",
              detail=f"iteration outcomes {sorted(outcomes)} over {len(inner)} paths")
    else:
        ck.violation("C02.R1", q, "paired accumulation",
                     f"per frequency the accumulators are not updated together with one weight: {bad[:2] or 'no accumulating path'} - "
                     f"the result would not be the weight-normalised average", loc=f.loc(i))
    if not any(l.exit in ("break", "return", "raise") for l in inner):
        ck.ok("C02.R3", q, "inner loop visits every frequency", nontrivial=False)
    # ------------------------------------------------------------------ R2
    snap = with_loop[0].snaps[id(i)][0]
    init_ok = all(nm in snap and snap[nm] == 0 for nm in (P, Wn)) and all(
        any(isinstance(st, ast.Assign) and any(isinstance(t, ast.Name) and t.id == nm for t in st.targets) for st in o.body) for nm in (P, Wn))
    if init_ok:
        ck.ok("C02.R2", q, "accumulators reset for every centre frequency")
    else:
        ck.violation("C02.R2", q, "accumulator initialisation", f"{P}/{Wn} are not reset to zero for every centre frequency", loc=f.loc(o))
    Ps, Ws = sp.Symbol(P, real=True), sp.Symbol(Wn, real=True)
    cases = []
    col_name = None
    col_ok = True
    # the output array: named by the column stores; when it is allocated with zeros, a pass that stores nothing leaves 0 there
    for l in outer:
        for e in l.events:
            if e[0] == "store" and isinstance(e[3], ast.Assign) and isinstance(e[3].targets[0], ast.Subscript) and isinstance(e[3].targets[0].value, ast.Name):
                col_name = e[3].targets[0].value.id
    zero_default = col_name is not None and pre[0].snaps[id(o)][0].get(col_name) == 0
    for l in with_loop:
        n0 = l.snaps[id(i)][1]
        post = Leaf(l.conds[n0:], l.env, l.events)
        lits = literals(post)
        stores = [e for e in l.events if e[0] == "store"]
        if not stores and zero_default and l.exit in ("continue", "fall"):
            cases += [(lits, sp.Integer(0))]
            continue
        if len(stores) != 1:
            col_ok = False
            continue
        tgt = stores[0][3].targets[0]
        col_ok = col_ok and isinstance(tgt, ast.Subscript) and isinstance(tgt.value, ast.Name) \
            and Translator(env=env)._index(tgt.slice) == Translator(env=env)._index(ast.parse(f"x[:, {fc_index}]", mode="eval").body.slice)
        col_name = tgt.value.id if isinstance(tgt, ast.Subscript) and isinstance(tgt.value, ast.Name) else col_name
        cases += flatten_cases(lits, stores[0][2])
    want_cases = [([sp.Gt(Ws, 0)], Ps / Ws), ([sp.Ge(0, Ws)], sp.Integer(0))]
    vals_ok = col_ok and len(cases) == 2 and all(any(equal(v, wv) for _l, v in cases) for _wl, wv in want_cases)
    conds_ok = vals_ok and all(any(equal(v, wv) and same_literal_set(lt, wl) for lt, v in cases) for wl, wv in want_cases)
    if conds_ok:
        ck.ok("C02.R2", q, f"column {fc_index} = {P} / {Wn} if {Wn} > 0 else 0")
    elif vals_ok:
        # the two values are right; is the quotient taken where the sum of weights can be zero?
        quot = [lt for lt, v in cases if equal(v, Ps / Ws)]
        zero_allowed = [lt for lt in quot if len(lt) == 1 and (same_literal_set(lt, [sp.Ge(Ws, 0)]))]
        if zero_allowed:
            ck.violation("C02.R2", q, "normalisation guard",
                         f"the quotient {P}/{Wn} is taken when {zero_allowed[0][0]}: a window without any sample gives 0/0 (NaN) instead of 0", loc=f.loc(o))
        else:
            raise AnalysisError(f"{q}: normalisation guard not recognised: {[(str(l_), str(v)) for l_, v in cases]}")
    else:
        ck.violation("C02.R2", q, "normalisation",
                     f"the column stored is not {P}/{Wn} (0 when no sample falls in the window): {[(str(l_), str(v)) for l_, v in cases][:3]}", loc=f.loc(o))
    small = False
    for l in without:
        stores = [e for e in l.events if e[0] == "store"]
        if same_literal_set(literals(l), [sp.Gt(sp.Rational(1, 1000000), FC)]) and l.exit in ("continue", "fall") \
                and ((len(stores) == 1 and stores[0][2] == 0) or (not stores and zero_default)):
            small = True
    if small:
        ck.ok("C02.R2", q, "fc < 1e-6 -> 0", nontrivial=False)
    else:
        ck.violation("C02.R2", q, "zero centre frequency", "centre frequencies below 1e-6 are not set to 0", loc=f.loc(o))
    rets = [r for r in own_nodes(f.node) if isinstance(r, ast.Return)]
    if len(rets) == 1 and isinstance(rets[0].value, ast.Name) and rets[0].value.id == col_name and rets[0] in f.node.body:
        ck.ok("C02.R2", q, "returns the filled array", nontrivial=False)
    else:
        ck.violation("C02.R2", q, "return", "does not return the filled array", loc=f.loc())
    # ------------------------------------------------------------------ R3
    spec_reads = [n for n in own_nodes(f.node) if isinstance(n, ast.Name) and n.id == "spectrum" and isinstance(n.ctx, ast.Load)]
    bad_reads = []
    for n in spec_reads:
        p = parent_of(n)
        if isinstance(p, ast.Subscript) and unparse(p) == f"spectrum[:, {f_index}]" and any(x is p for x in ast.walk(i)):
            continue
        if isinstance(p, ast.Attribute) and p.attr == "shape":
            continue
        bad_reads.append(p)
    if not bad_reads:
        ck.ok("C02.R3", q, f"spectrum read only as spectrum[:, {f_index}] (and its shape)")
    for p in bad_reads:
        ck.violation("C02.R3", q, norm_key(p), f"the spectrum is read as `{unparse(p)}`: rows or frequencies are mixed", loc=f.loc(p))
    SPEC = sp.Symbol("spectrum", real=True)
    dep = [str(W) for _l, W in acc_leaves if W.has(SPEC) or W.has(SPECJ)] + \
          [str(c) for l, _W in acc_leaves for c, _t in l.conds if c.has(SPEC) or c.has(SPECJ)]
    if dep:
        ck.violation("C02.R3", q, "weight depends on the spectrum", f"the weight or the support is computed from the spectrum ({dep[0]}): the operator is not linear", loc=f.loc(i))
    elif acc_leaves:
        ck.ok("C02.R3", q, "weight independent of the spectrum")
    for loop, what, ign in ((o, "centre frequencies", {col_name or "smoothed_spectrum"}), (i, "frequencies", {P, Wn, col_name or "smoothed_spectrum"})):
        carried = loop_carried(f, loop, ignore=ign)
        if not carried:
            ck.ok("C02.R3", q, f"nothing carried between {what}")
        for (nm, use, d) in carried:
            ck.violation("C02.R3", q, f"{nm} carried between {what}",
                         f"`{nm}` (set by `{norm_key(d, 60)}`) is read at line {use.lineno} in a later iteration over the {what}: "
                         f"a column would depend on the other centre frequencies / their order", loc=f.loc(use))
    # ------------------------------------------------------------------ R4
    if acc_leaves:
        _kernel_formula(ck, f, name, i, acc_leaves, F, FC, B)


def _kernel_formula(ck, f, name, i, acc_leaves, F, FC, B):
    q = f.qualname
    x_ko = B * sp.log(F / FC) / sp.log(10)
    a_p = sp.pi * 280 / (2 * 151)
    x_pz = a_p * (F - FC) / B
    want = {
        "konno_and_ohmachi": (sp.sin(x_ko) / x_ko) ** 4,
        "parzen": (sp.sin(x_pz) / x_pz) ** 4,
        "linear_rectangular": sp.Integer(1),
        "log_rectangular": sp.Integer(1),
        "linear_triangular": 1 - sp.Abs(F - FC) * (2 / B),
        "log_triangular": 1 - sp.Abs(sp.log(F / FC) / sp.log(10)) * (2 / B),
    }[name]
    eps = sp.Rational(1, 1000000)
    at_centre = sp.Gt(eps, sp.Abs(F - FC))
    off_centre = sp.Ge(sp.Abs(F - FC), eps)
    general, centre = [], []
    for l, W in acc_leaves:
        lits = literals(l)
        if any(same_rel(x, at_centre) for x in lits):
            centre.append((l, W, [x for x in lits if not same_rel(x, at_centre)]))
        else:
            general.append((l, W, [x for x in lits if not same_rel(x, off_centre)]))
    Wg = [W for _l, W, _x in general]
    if general and all(equal(W, want) for W in Wg):
        ck.ok("C02.R4", q, f"weight = {want}")
    else:
        ck.violation("C02.R4", q, "kernel weight", f"the weight is {Wg[0] if Wg else None}; the published kernel is {want}", loc=f.loc(i))
    if centre:
        if all(W == 1 for _l, W, _x in centre):
            ck.ok("C02.R4", q, "weight 1 at the centre frequency", nontrivial=False)
        else:
            ck.violation("C02.R4", q, "centre weight", "the weight at f = fc is not 1", loc=f.loc(i))
    elif name in ("konno_and_ohmachi", "parzen"):
        ck.violation("C02.R4", q, "centre weight", "sin(x)/x is evaluated at f = fc (0/0): the weight at the centre is not 1", loc=f.loc(i))
    # support: the literals shared by every accumulating path
    groups = [x for _l, _W, x in general + centre]
    sup = list(groups[0])
    for g in groups[1:]:
        if not same_literal_set(sup, g):
            raise AnalysisError(f"{q}: accumulating paths have different supports: {sup} vs {g}")
    zero_guard = False
    ratio, diff = F / FC, F - FC
    X = {"konno_and_ohmachi": ratio, "log_rectangular": ratio, "log_triangular": ratio, "parzen": diff}.get(name, sp.Abs(diff))
    up = lo = None
    strict = []
    rest = []
    for r in sup:
        if not isinstance(r, (sp.Ge, sp.Gt)):
            rest.append(r)
            continue
        sym_arg = r.rhs.args[0] if isinstance(r.rhs, sp.Abs) and not isinstance(X, sp.Abs) else None
        if equal(r.lhs, F) and r.rhs == eps:
            zero_guard = True
        elif sym_arg is not None and X == diff and (equal(sym_arg, diff) or equal(sym_arg, -diff)) and up is None and lo is None:
            # |f - fc| <= H : symmetric support written once
            up, lo = r.lhs, -r.lhs
            if isinstance(r, sp.Gt):
                strict.append(r)
        elif sym_arg is not None and X == ratio and (equal(sym_arg, sp.log(ratio) / sp.log(10)) or equal(sym_arg, -sp.log(ratio) / sp.log(10))) and up is None and lo is None:
            # |log10(f/fc)| <= H
            up, lo = sp.Integer(10) ** r.lhs, sp.Integer(10) ** (-r.lhs)
            if isinstance(r, sp.Gt):
                strict.append(r)
        elif equal(r.rhs, X) and up is None:
            up = r.lhs
            if isinstance(r, sp.Gt):
                strict.append(r)
        elif equal(r.lhs, X) and lo is None:
            lo = r.rhs
            if isinstance(r, sp.Gt):
                strict.append(r)
        else:
            rest.append(r)
    if zero_guard:
        ck.ok("C02.R4", q, "0 Hz bin excluded (f < 1e-6)", nontrivial=False)
    else:
        ck.violation("C02.R4", q, "0 Hz bin", "samples at f < 1e-6 are not excluded", loc=f.loc(i))
    if rest:
        kernel_syms = {F, FC, B}
        foreign = [r for r in rest if not (isinstance(r, (sp.Ge, sp.Gt)) and r.free_symbols <= kernel_syms)]
        if foreign:
            raise AnalysisError(f"{q}: support condition(s) not recognised: {foreign}")
        # a further restriction on (f, fc, bandwidth) that is not a limit on the kernel's own argument: the support is not the published one
        ck.violation("C02.R4", q, "support limits", f"the samples entering the window are also restricted by {rest[0]}, which is not a limit on {X} "
                     f"(the window support is no longer symmetric about the centre frequency)", loc=f.loc(i))
        return
    sym_ok = False
    edge = None
    detail = f"{lo} <= {X} <= {up}"
    if name in ("konno_and_ohmachi", "log_rectangular", "log_triangular"):
        if up is not None and lo is not None:
            expect_up = {"konno_and_ohmachi": sp.Integer(10) ** (3 / B), "log_rectangular": sp.Integer(10) ** (B / 2), "log_triangular": sp.Integer(10) ** (B / 2)}[name]
            sym_ok = equal(sp.simplify(up * lo), sp.Integer(1)) and equal(up, expect_up)
            edge = {F: up * FC}
    elif name == "parzen":
        if up is not None and lo is not None:
            sym_ok = equal(up + lo, sp.Integer(0)) and equal(up, sp.sqrt(6) * a_p / B)
    else:
        if up is not None and lo is None:
            sym_ok = equal(up, B / 2)
            edge = {F: FC + B / 2}
            detail = f"|f-fc| <= {up}"
    if sym_ok and not strict:
        ck.ok("C02.R4", q, f"support {detail}", detail="closed and symmetric about the centre frequency")
    elif sym_ok:
        ck.violation("C02.R4", q, "support limits", f"samples exactly on the window edge are excluded ({strict[0]}): not the published closed support", loc=f.loc(i))
    else:
        ck.violation("C02.R4", q, "support limits", f"the window support is {detail}: not the symmetric published support", loc=f.loc(i))
    if name.endswith("triangular") and general and edge is not None:
        at_edge = sp.simplify(general[0][1].subs(edge))
        if at_edge == 0:
            ck.ok("C02.R4", q, "triangular weight is 0 at the support edge (non-negative inside)")
        else:
            ck.violation("C02.R4", q, "triangular edge weight", f"the weight at the support edge is {at_edge}, not 0 (negative or discontinuous weights)", loc=f.loc(i))


def _sg(ck: Checker, prog: Program):
    f = prog.func("smoothing.savitzky_and_golay")
    q = f.qualname
    h = prog.func("smoothing._savitzky_and_golay")
    m = sp.Symbol("m", positive=True, integer=True)
    isym = sp.Symbol("i", integer=True)
    p = sp.Symbol("p", positive=True, integer=True)
    rets = [r for r in own_nodes(f.node) if isinstance(r, ast.Return)]
    if len(rets) == 1 and isinstance(rets[0].value, ast.Name):
        # result = helper(...); ...; return result - the name must reach the return untouched
        nm = rets[0].value.id
        defs = [st for st in own_nodes(f.node) if isinstance(st, ast.Assign) and len(st.targets) == 1 and isinstance(st.targets[0], ast.Name) and st.targets[0].id == nm]
        if len(defs) == 1 and isinstance(defs[0].value, ast.Call):
            touched = [st for st in f.node.body if st is not defs[0] and st is not rets[0]
                       and any(isinstance(x, ast.Name) and x.id == nm for x in ast.walk(st))]
            for st in touched:
                ck.violation("C02.R5", q, norm_key(st),
                             f"the smoothed spectrum is post-processed before it is returned (`{norm_key(st, 80)}`): no longer the least-squares polynomial value "
                             f"(linearity and polynomial reproduction are lost)", loc=f.loc(st))
            rets = [ast.copy_location(ast.Return(value=defs[0].value), defs[0])]
    if len(rets) != 1 or not isinstance(rets[0].value, ast.Call):
        raise AnalysisError(f"{q}: single `return helper(...)` not found")
    ret, call = rets[0], rets[0].value
    r = prog.resolve_name(f.module, call.func.id) if isinstance(call.func, ast.Name) else None
    if not r or r[0] != "func" or r[1] is not h or len(h.params) != 4:
        ck.violation("C02.R5", q, "helper call", f"the compiled helper _savitzky_and_golay is not what is returned (`{norm_key(ret, 80)}`)", loc=f.loc(ret))
        return
    bound = bind_call(call, h.params)
    if set(bound) != set(h.params):
        ck.violation("C02.R5", q, "helper call", f"the compiled helper is not called with all of {h.params}", loc=f.loc(ret))
        return
    res = Resolver(prog, f, inline=True)
    BW = Translator().sym("bandwidth")
    to_m = {sp.Function("int")(BW): m, BW: m}

    def val(node, at):
        return canon(res.value(node, at)).xreplace(to_m)
    # ---- where the coefficient table comes from
    carg = bound[h.params[2]]
    if not isinstance(carg, ast.Name):
        raise AnalysisError(f"{q}: coefficient argument `{unparse(carg)}` is not a local")
    defs = res.rd.defs_at(carg.id, ret)
    dstmts = [res.rd.cfg.ast_of(d) for d in defs if d != -1]
    elt = lo = hi = at = None
    ivar = None
    for d in dstmts:
        if not isinstance(d, ast.Assign):
            continue
        comps = [n for n in ast.walk(d.value) if isinstance(n, (ast.ListComp, ast.GeneratorExp))]
        if len(comps) == 1 and len(comps[0].generators) == 1 and not comps[0].generators[0].ifs:
            g = comps[0].generators[0]
            outer_ok = d.value is comps[0] or (isinstance(d.value, ast.Call) and call_name(d.value) in ("array", "asarray", "fromiter") and d.value.args and d.value.args[0] is comps[0])
            if outer_ok and isinstance(g.target, ast.Name) and isinstance(g.iter, ast.Call) and call_name(g.iter) == "range":
                elt, ivar, at, rng = comps[0].elt, g.target.id, d, g.iter
    if elt is None:
        for lp in [st for st in f.node.body if isinstance(st, ast.For)]:
            st = [x for x in lp.body if isinstance(x, ast.Assign) and isinstance(x.targets[0], ast.Subscript) and unparse(x.targets[0].value) == carg.id]
            if len(st) != 1:
                continue
            it = lp.iter
            if isinstance(it, ast.Call) and call_name(it) == "enumerate" and isinstance(it.args[0], ast.Call) and call_name(it.args[0]) == "range" \
                    and isinstance(lp.target, ast.Tuple) and unparse(st[0].targets[0].slice) == unparse(lp.target.elts[0]):
                elt, ivar, at, rng = st[0].value, unparse(lp.target.elts[1]), st[0], it.args[0]
    if elt is None:
        # vectorised: C[:] = E(offsets) / C = E(offsets) with offsets = np.arange(A, B)
        cands = [st for st in f.node.body if isinstance(st, ast.Assign) and len(st.targets) == 1 and (
            (isinstance(st.targets[0], ast.Name) and st.targets[0].id == carg.id) or
            (isinstance(st.targets[0], ast.Subscript) and unparse(st.targets[0].value) == carg.id and unparse(st.targets[0].slice) in (":", "...")))]
        for st in cands:
            for nm in {x.id for x in ast.walk(st.value) if isinstance(x, ast.Name)}:
                d = [y for y in f.node.body if isinstance(y, ast.Assign) and len(y.targets) == 1 and isinstance(y.targets[0], ast.Name) and y.targets[0].id == nm
                     and isinstance(y.value, ast.Call) and call_name(y.value) == "arange" and len(y.value.args) == 2]
                if len(d) == 1:
                    res.keep.add(nm)
                    elt, ivar, at, rng = st.value, nm, st, d[0].value
    if elt is None:
        raise AnalysisError(f"{q}: construction of the coefficient table `{carg.id}` not recognised")
    rargs = [val(a, at) for a in rng.args]
    if len(rargs) == 1:
        rargs = [sp.Integer(0)] + rargs
    if len(rargs) != 2:
        raise AnalysisError(f"{q}: coefficient range with a step")
    lo, hi = rargs
    IV = Translator().sym(ivar)
    c = val(elt, at).xreplace({IV: isym})
    N = val(bound[h.params[3]], ret)
    if c.has(sp.Abs) and all(a.args[0].is_nonnegative or a.args[0] == isym ** 2 for a in c.atoms(sp.Abs)):
        c = c.replace(sp.Abs, lambda a: a)
    cm = c.subs(m, 2 * p + 1)
    Nm = N.subs(m, 2 * p + 1)
    ids = []
    for k, want in ((0, Nm), (1, 0), (2, 0), (3, 0)):
        ssum = sp.simplify(sp.summation(cm * isym ** k, (isym, -p, p)))
        ids.append((k, sp.simplify(ssum - want) == 0, ssum))
    if all(okk for _k, okk, _s in ids):
        ck.ok("C02.R5", q, "moment identities: sum c = N, sum c i^k = 0 (k=1,2,3) for every odd m", detail=f"c_i = {c}; N = {N}")
    else:
        bad = [(k, s_) for k, okk, s_ in ids if not okk]
        ck.violation("C02.R5", q, "Savitzky-Golay coefficients",
                     f"the coefficients c_i = {c} with normaliser {N} do not reproduce cubic polynomials: " +
                     "; ".join(f"sum c i^{k} = {s_}" for k, s_ in bad), loc=f.loc(at))
    lo_m, hi_m = sp.simplify(lo.subs(m, 2 * p + 1)), sp.simplify(hi.subs(m, 2 * p + 1))
    if sp.simplify(lo_m + p) == 0 and hi_m == 1:
        ck.ok("C02.R5", q, "coefficient table holds c_i for i = -(m-1)/2 .. 0 in ascending order", detail=f"range({lo}, {hi})")
    else:
        ck.violation("C02.R5", q, "coefficient table", f"the coefficient table is filled for i in range({lo}, {hi}), not i = -(m-1)//2 .. 0", loc=f.loc(at))
    # ---- refusals: reaching the helper implies an odd bandwidth and a uniform grid
    TE = Translator()
    odd = TE.tr(ast.parse("int(bandwidth) % 2 != 1", mode="eval").body)
    uni = TE.tr(ast.parse("np.abs(np.min(np.diff(frequencies)) - np.max(np.diff(frequencies))) > 1e-06", mode="eval").body)
    leaves = PathTable(prog, f.module).leaves(f.node.body)
    succ = [l for l in leaves if l.exit == "return"]
    need = {"non-odd bandwidth": negate(odd), "non-uniform grid": negate(uni)}
    missing = [k for k, rel in need.items() if not all(any(same_rel(x, rel) for x in literals(l)) for l in succ)]
    raising = [l for l in leaves if l.exit == "raise"]
    if succ and not missing and len(raising) >= 2:
        ck.ok("C02.R5", q, "non-odd bandwidth and non-uniform grids raise")
    else:
        ck.violation("C02.R5", q, "refusals", f"the helper is reached without refusing: {missing or 'no refusal found'}", loc=f.loc())
    got = val(bound[h.params[1]], ret)
    want_idx = canon(res.expect("np.round((fcs - np.min(frequencies)) / np.diff(frequencies)[0]).astype(int)"))
    if equal(got, want_idx):
        ck.ok("C02.R5", q, "centre frequency -> nearest grid index", detail=str(got))
    else:
        ck.violation("C02.R5", q, "grid index", f"centre frequencies are not mapped to the nearest grid index (index = {got})", loc=f.loc())
    if val(bound[h.params[0]], ret) == Translator().sym("spectrum"):
        ck.ok("C02.R5", q, "helper receives (spectrum, nearest indices, coefficients, normaliser)", nontrivial=False)
    else:
        ck.violation("C02.R5", q, "helper call", "the compiled helper does not receive the spectrum itself", loc=f.loc())
    # ---- helper
    h = prog.func("smoothing._savitzky_and_golay")
    hq = h.qualname
    loops = [st for st in h.node.body if isinstance(st, ast.For)]
    if len(loops) != 1:
        raise AnalysisError(f"{hq}: loop not found")
    lp = loops[0]
    k = unparse(lp.target.elts[1])
    col = unparse(lp.target.elts[0])
    edge = [st for st in lp.body if isinstance(st, ast.If) and any(isinstance(b, ast.Continue) for b in st.body)]
    inner = [st for st in lp.body if isinstance(st, ast.For)]
    if len(edge) != 1 or len(inner) != 1:
        raise AnalysisError(f"{hq}: edge test / inner loop not found")
    TT = Translator()
    # by value: the locals that hold the number of coefficients / of spectrum samples may have any name
    from ..resolve import Resolver as _Res0, canon as _canon0
    R0 = _Res0(prog, h, inline=False, keep={k})
    idx = TT.sym(k)
    nc, nfr = sp.Symbol("<ncoeff>", integer=True, positive=True), sp.Symbol("<nfreqs>", integer=True, positive=True)
    coef_p, spec_p = h.params[2], h.params[0]
    sizes = {}
    for src_, sym_ in ((f"{coef_p}.size", nc), (f"len({coef_p})", nc), (f"{coef_p}.shape[0]", nc),
                       (f"{spec_p}.shape[1]", nfr), (f"{spec_p}.shape[-1]", nfr)):
        sizes[_canon0(R0.expect(src_))] = sym_
    skip = _canon0(R0.value(edge[0].test, edge[0])).xreplace(sizes)
    rels = list(skip.args) if isinstance(skip, sp.Or) else [skip]
    lower = upper = None
    def _flip(r):
        sw = {sp.Lt: sp.Gt, sp.Gt: sp.Lt, sp.Le: sp.Ge, sp.Ge: sp.Le}
        return sw[type(r)](r.rhs, r.lhs, evaluate=False) if type(r) in sw else r
    # either spelling of a comparison: idx on the left for the lower bound, the number of samples on the right for the upper bound
    rels = [(_flip(r) if isinstance(r, (sp.Gt, sp.Ge)) and equal(r.rhs, idx) else _flip(r) if isinstance(r, (sp.Lt, sp.Le)) and equal(r.lhs, nfr) else r) for r in rels]
    for r in rels:
        # idx < L  -> kept implies idx >= L ;  idx + E > nfreqs -> kept implies idx + E <= nfreqs
        if isinstance(r, sp.Lt) and equal(r.lhs, idx):
            lower = r.rhs
        elif isinstance(r, sp.Le) and equal(r.lhs, idx):
            lower = r.rhs + 1
        elif isinstance(r, (sp.Gt, sp.Ge)) and equal(r.rhs, nfr):
            upper = (r.lhs - idx) if isinstance(r, sp.Gt) else (r.lhs - idx + 1)
    # offsets read: rel_idx + 1 for rel_idx in enumerate(coefficients[:-1][::-1]) -> 1 .. ncoeff-1
    # by value (temporaries, hoisted invariants and renamed locals are followed to what they hold)
    from ..resolve import Resolver as _Resolver, canon as _canon
    RH = _Resolver(prog, h, inline=False, keep={k})
    try:
        it_ok = _canon(RH.value(inner[0].iter, inner[0])) == _canon(RH.expect("enumerate(coefficients[:-1][::-1])"))
    except AnalysisError:
        it_ok = False
    if not (isinstance(inner[0].target, ast.Tuple) and len(inner[0].target.elts) == 2):
        raise AnalysisError(f"{h.qualname}: the loop over the coefficient pairs is not `for offset, coefficient in enumerate(...)`: pairing not decided")
    rel = unparse(inner[0].target.elts[0]) if isinstance(inner[0].target, ast.Tuple) else "?"
    cf = unparse(inner[0].target.elts[1]) if isinstance(inner[0].target, ast.Tuple) else "?"
    upd = [st for st in inner[0].body if isinstance(st, ast.AugAssign)]
    acc_name = unparse(upd[0].target) if len(upd) == 1 else None
    pair_ok = False
    if acc_name is not None and isinstance(upd[0].op, ast.Add):
        RP = _Resolver(prog, h, inline=False, keep={k, rel, cf})
        try:
            got_pair = _canon(RP.value(upd[0].value, upd[0]))
            pair_ok = equal(got_pair, _canon(RP.expect(f"{cf} * (spectrum[:, {k} + ({rel} + 1)] + spectrum[:, {k} - ({rel} + 1)])")))
        except AnalysisError:
            pair_ok = False
    centre = [st for st in lp.body if isinstance(st, ast.Assign) and acc_name is not None and unparse(st.targets[0]) == acc_name]
    centre_ok = False
    if len(centre) == 1:
        try:
            centre_ok = equal(_canon(RH.value(centre[0].value, centre[0])), _canon(RH.expect(f"coefficients[-1] * spectrum[:, {k}]")))
        except AnalysisError:
            centre_ok = False
    if it_ok and pair_ok and centre_ok:
        ck.ok("C02.R5", hq, "c_0*s[k] + sum_i c_i*(s[k+i] + s[k-i])", detail="coefficient |i| pairs the two samples at distance i")
    else:
        ck.violation("C02.R5", hq, "index pairing", f"the weighted sum does not pair coefficient |i| with spectrum[:, k+i] + spectrum[:, k-i] (iter {it_ok}, pair {pair_ok}, centre {centre_ok})",
                     loc=h.loc(lp))
    max_off = nc - 1
    lo_ok = lower is not None and sp.simplify(lower - max_off).is_nonnegative
    up_ok = upper is not None and sp.simplify(upper - max_off - 1).is_nonnegative
    if lo_ok and up_ok:
        ck.ok("C02.R5", hq, norm_key(edge[0]), detail=f"kept => k >= {lower} and k + {upper} <= nfreqs: every read index lies in [0, nfreqs)")
    else:
        ck.violation("C02.R5", hq, norm_key(edge[0]),
                     f"the edge test keeps windows that read outside the spectrum: kept implies k >= {lower} and k + ({upper}) <= nfreqs, but the window "
                     f"reads k - (ncoeff-1) .. k + (ncoeff-1) with ncoeff the number of coefficients (unchecked reads in compiled code return garbage from the next row)", loc=h.loc(edge[0]))
    hrets = [r for r in own_nodes(h.node) if isinstance(r, ast.Return)]
    out_name = hrets[0].value.id if len(hrets) == 1 and isinstance(hrets[0].value, ast.Name) else None
    tgt_txt = f"{out_name}[:, {col}]"
    zero = any(isinstance(b, ast.Assign) and unparse(b.targets[0]) == tgt_txt and unparse(b.value) in ("0", "0.0") for b in edge[0].body)
    if not zero and out_name is not None:
        # the output starts as zeros and an incomplete window stores nothing: the column stays 0
        alloc = [st for st in h.node.body if isinstance(st, ast.Assign) and len(st.targets) == 1 and isinstance(st.targets[0], ast.Name) and st.targets[0].id == out_name]
        zero = len(alloc) == 1 and isinstance(alloc[0].value, ast.Call) and call_name(alloc[0].value) == "zeros" \
            and not any(isinstance(b, ast.Assign) and unparse(b.targets[0]) == tgt_txt for b in edge[0].body)
    store = [st for st in lp.body if isinstance(st, ast.Assign) and unparse(st.targets[0]) == tgt_txt]
    val_ok = False
    if len(store) == 1 and acc_name is not None:
        RS = _Resolver(prog, h, inline=False, keep={k, acc_name})
        try:
            val_ok = equal(_canon(RS.value(store[0].value, store[0])), _canon(RS.expect(f"{acc_name} / {h.params[3]}")))
        except AnalysisError:
            val_ok = False
    if zero and len(store) == 1 and val_ok:
        ck.ok("C02.R5", hq, "incomplete windows -> 0; else summation / N")
    else:
        ck.violation("C02.R5", hq, "stored value", "the stored column is not summation/normalization_coefficient (0 for incomplete windows)", loc=h.loc(lp))


def _registry(ck: Checker, prog: Program):
    reg = prog.registry("smoothing", "SMOOTHING_OPERATORS")
    names = LOOP_KERNELS + ["savitzky_and_golay"]
    if set(reg) != set(names):
        ck.violation("C02.R6", "smoothing.SMOOTHING_OPERATORS", "keys", f"keys {sorted(reg)}; expected {sorted(names)}", loc="hvsrpy/smoothing.py")
    for k, v in reg.items():
        if isinstance(v, ast.Name) and v.id == k and f"smoothing.{k}" in prog.funcs:
            f = prog.funcs[f"smoothing.{k}"]
            if f.params[:4] == ["frequencies", "spectrum", "fcs", "bandwidth"]:
                ck.ok("C02.R6", "smoothing.SMOOTHING_OPERATORS", f"'{k}' -> {k}(frequencies, spectrum, fcs, bandwidth)")
            else:
                ck.violation("C02.R6", f.qualname, "signature", f"signature {f.params}", loc=f.loc())
        else:
            ck.violation("C02.R6", "smoothing.SMOOTHING_OPERATORS", f"'{k}'", f"'{k}' is bound to `{unparse(v)}`", loc="hvsrpy/smoothing.py")
    n = 0
    mod = prog.module("smoothing")
    for f in prog.funcs.values():
        if f.module is not mod or f.kind != "function":
            continue
        for d in f.node.decorator_list:
            if "njit" in unparse(d) or "jit" in unparse(d):
                n += 1
                opts = {k.arg for k in d.keywords} if isinstance(d, ast.Call) else set()
                if opts <= {"cache"}:
                    ck.ok("C02.R7", f.qualname, f"@{unparse(d)}")
                else:
                    ck.violation("C02.R7", f.qualname, f"@{unparse(d)}", f"njit options {sorted(opts - {'cache'})} may change the numerical meaning of the kernel", loc=f.loc())
    ck.floor("C02.R7", n, 7, "njit-compiled kernels")
