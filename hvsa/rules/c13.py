"""C13 - time-domain rejection keeps exactly the windows that satisfy the criterion."""
from __future__ import annotations

import ast
from typing import Dict, List, Optional, Tuple

import sympy as sp

from ..astutil import call_name, calls_in, own_nodes, unparse, kwarg, dotted
from ..cfg import cfg_of, events_per_iteration
from ..dataflow import reaching, loop_carried
from ..expr import Translator, forward_substitute, degree, equal
from ..model import AnalysisError, Program, norm_key, parent_of
from ..report import Checker
from .common import engine, group_effects, describe_effect, chain_text

EXPLANATION = (
    "For sta_lta_window_rejection and maximum_value_window_rejection: (R1) effect analysis - `records` is not "
    "mutated and the returned list holds the loop elements themselves (origin records[*], no copies); (R2) CFG "
    "event counting per iteration of the per-record loop - exactly one mask entry is appended, True exactly on "
    "the paths that append the record, entries are boolean literals; (R3) both masks of the attached HVSR "
    "object (every azimuth) are assigned from that same list and every path to the return evaluates the "
    "`hvsr is not None` propagation; (R4) no name read in the per-record loop carries a value from a previous "
    "iteration (decision depends on that window only; the normalised maximum is the designed exception); "
    "(R5) the decision expressions are homogeneous of degree 0 in a common amplitude factor (structural degree "
    "inference) and the per-window statistic is max|x|; (R6) the reject test is max(STA/LTA) > max_ratio or "
    "min(STA/LTA) < min_ratio (keep verdict monotone in the limits) and maximum-value keeps iff value < "
    "threshold. Not decided: sample counts per STA chunk for time steps that are not binary fractions.")

RULES = {
    "C13.R1": "records is not mutated; the returned list contains the records themselves in iteration order",
    "C13.R2": "per record exactly one mask entry; True iff the record is appended to the result; boolean literals",
    "C13.R3": "both masks, every azimuth, same list; propagation evaluated on every path to the return",
    "C13.R4": "no loop-carried state between windows",
    "C13.R5": "decision statistics are degree 0 under a common rescaling; per-window statistic is max|x|",
    "C13.R6": "reject iff max ratio > max limit or min ratio < min limit; max-value keeps iff value < threshold",
}

FUNCS = ["window_rejection.sta_lta_window_rejection", "window_rejection.maximum_value_window_rejection"]
MASKS = ("valid_window_boolean_mask", "valid_peak_boolean_mask")


def run(ck: Checker, prog: Program, tier: str):
    eng = engine(prog)
    for fq in FUNCS:
        f = prog.func(fq)
        if "records" not in f.params or "hvsr" not in f.params:
            raise AnalysisError(f"{fq}: expected parameters records and hvsr")
        ri = f.params.index("records")
        s = eng.summary(f)
        # ------------------------------------------------------------- R1
        effs = [e for e in s.effects if e.origin[0] == "P" and e.origin[1] == ri]
        if not effs:
            ck.ok("C13.R1", fq, "no effect on `records`")
        for (func, text), es in group_effects(prog, effs).items():
            ck.violation("C13.R1", func, text, f"{fq} mutates the windows it examines: {describe_effect(es[0])}",
                         loc=es[0].chain[0].loc, path=chain_text(es[0]))
        ret = s.ret
        elem_origins = set()
        fresh_lists = [o for o in ret.origins if o[0] == "F"]
        for o in fresh_lists:
            hv = s.heap.get((o, "[]"))
            if hv is not None:
                elem_origins |= set(hv[0].origins)
        want = {("P", ri, ("[]",))}
        if ret.origins and all(o[0] == "F" for o in ret.origins) and elem_origins == want:
            ck.ok("C13.R1", fq, "returned list elements have origin records[*] (same objects)")
        else:
            ck.violation("C13.R1", fq, "return value",
                         f"the returned list does not hold exactly the given window objects "
                         f"(list origins {sorted(map(str, ret.origins))}, element origins {sorted(map(str, elem_origins))})",
                         loc=f.loc())
        # ------------------------------------------------------------- R3 (find mask var) then R2
        got = ck.guard(_r3, ck, prog, f)
        mask_var, pass_var = got if got else (None, None)
        if mask_var is None:
            continue
        ck.guard(_r2, ck, f, mask_var, pass_var)
        ck.guard(_r4, ck, f, mask_var, pass_var)
    ck.guard(_r5_r6_sta, ck, prog)
    ck.guard(_r5_r6_max, ck, prog)


# --------------------------------------------------------------------------- R3
def _r3(ck: Checker, prog: Program, f) -> Tuple[Optional[str], Optional[str]]:
    """Decision table of the propagation tail: no result object -> nothing; HvsrTraditional -> both masks of the object;
    HvsrAzimuthal -> both masks of every member; anything else raises.  Every store is a fresh np.array of the one decision list."""
    from ..pathtable import PathTable, literals, same_rel, negate
    fq = f.qualname
    cfg = cfg_of(f)

    def has_mask_store(st):
        return any(isinstance(x, ast.Assign) and any(isinstance(t, ast.Attribute) and t.attr in MASKS for t in x.targets) for x in ast.walk(st))
    idx = [i for i, st in enumerate(f.node.body) if has_mask_store(st)]
    if not idx:
        ck.violation("C13.R3", fq, "mask propagation", "the decisions are never stored on the result object (no store to the accept masks)", loc=f.loc())
        return None, None
    first = f.node.body[idx[0]]
    tail = f.node.body[idx[0]:]
    path = cfg.path_avoiding(cfg.entry, cfg.exit, [cfg.node(first)])
    if path is not None:
        ck.violation("C13.R3", fq, "mask propagation reached on every path",
                     "there is a path to the return that skips the mask propagation", loc=f.loc(first), path=cfg.describe_path(path)[:14])
    else:
        ck.ok("C13.R3", fq, "every path to the return evaluates the mask propagation")
    if not reaching(f).only_param("hvsr", first):
        ck.violation("C13.R3", fq, "hvsr rebound", "`hvsr` is rebound before the propagation", loc=f.loc(first))
    R = lambda n: sp.Symbol(n, real=True)   # noqa: E731
    H, NONE = R("hvsr"), sp.Symbol("None")
    truth, isin = sp.Function("truth"), sp.Function("isinstance")
    is_none = sp.Eq(H, NONE, evaluate=False)
    is_trad = sp.Eq(truth(isin(H, R("HvsrTraditional"))), sp.true, evaluate=False)
    is_az = sp.Eq(truth(isin(H, R("HvsrAzimuthal"))), sp.true, evaluate=False)
    pt = PathTable(prog, f.module, structured=True)
    leaves = pt.leaves(tail)

    def case(l, rel):
        ls = literals(l)
        if any(same_rel(x, rel) for x in ls):
            return True
        if any(same_rel(x, negate(rel)) for x in ls):
            return False
        return None
    mask_vars = set()
    seen = {"none": False, "trad": False, "az": False, "other": False}
    attr = lambda a, o: sp.Function("attr_" + a)(o)   # noqa: E731

    def fresh_array_of(st: ast.Assign) -> Optional[str]:
        v = st.value
        if isinstance(v, ast.Call) and dotted(v.func) in ("np.array", "numpy.array", "np.copy", "numpy.copy") and v.args and isinstance(v.args[0], ast.Name):
            dt = kwarg(v, "dtype")
            if dt is not None and unparse(dt) not in ("bool", "np.bool_", "numpy.bool_"):
                ck.violation("C13.R3", fq, norm_key(st), f"mask stored with dtype {unparse(dt)}", loc=f.loc(st))
            return v.args[0].id
        return None
    for l in leaves:
        # stores on `hvsr` itself and inside loops over its members
        targets: Dict[Tuple[str, str], int] = {}
        problems = []
        for e in l.events:
            if e[0] == "store" and isinstance(e[3], ast.Assign) and isinstance(e[3].targets[0], ast.Attribute) and e[3].targets[0].attr in MASKS:
                obj = pt._T(l.env).tr(e[3].targets[0].value) if False else None
                tv = e[3].targets[0].value
                who = "hvsr" if isinstance(tv, ast.Name) and tv.id == "hvsr" else unparse(tv)
                targets[(who, e[3].targets[0].attr)] = targets.get((who, e[3].targets[0].attr), 0) + 1
                mv = fresh_array_of(e[3])
                if mv is None:
                    problems.append(f"`{norm_key(e[3], 70)}` does not store a fresh array of the decision list")
                else:
                    mask_vars.add(mv)
            elif e[0] == "loop" and has_mask_store(e[3]):
                lp = e[3]
                env0 = l.snaps[id(lp)][0]
                if not isinstance(lp, ast.For) or not isinstance(lp.target, ast.Name) or any(isinstance(x, (ast.Break, ast.Continue, ast.If)) for x in ast.walk(lp)):
                    problems.append(f"`{norm_key(lp, 50)}` may skip members")
                    continue
                T0 = Translator(env=env0)
                T0.structured = True
                T0.attr_of_bound = True
                seq = T0.tr(lp.iter)
                who = "each of hvsr.hvsrs" if seq == attr("hvsrs", H) else ("hvsr" if seq == sp.Tuple(H) else f"each of {seq}")
                for st in lp.body:
                    if isinstance(st, ast.Assign) and isinstance(st.targets[0], ast.Attribute) and st.targets[0].attr in MASKS:
                        if not (isinstance(st.targets[0].value, ast.Name) and st.targets[0].value.id == lp.target.id):
                            problems.append(f"`{norm_key(st, 60)}` does not write the loop's member")
                        targets[(who, st.targets[0].attr)] = targets.get((who, st.targets[0].attr), 0) + 1
                        mv = fresh_array_of(st)
                        if mv is None:
                            problems.append(f"`{norm_key(st, 70)}` does not store a fresh array of the decision list")
                        else:
                            mask_vars.add(mv)
        n_, t_, a_ = case(l, is_none), case(l, is_trad), case(l, is_az)
        both = lambda who: {(who, m): 1 for m in MASKS}   # noqa: E731
        if n_ is True:
            seen["none"] = True
            if targets:
                ck.violation("C13.R3", fq, "propagation without a result object", f"masks are written although no result object was given: {sorted(targets)}", loc=f.loc(first))
        elif t_ is True:
            seen["trad"] = True
            if targets == both("hvsr") and not problems:
                ck.ok("C13.R3", fq, "propagation for HvsrTraditional", detail="both masks assigned")
            else:
                ck.violation("C13.R3", fq, "propagation for HvsrTraditional", f"masks assigned {sorted(targets.items())}; {'; '.join(problems)}", loc=f.loc(first))
        elif a_ is True:
            seen["az"] = True
            if targets == both("each of hvsr.hvsrs") and not problems:
                ck.ok("C13.R3", fq, "propagation for HvsrAzimuthal", detail="both masks assigned for every azimuth")
            else:
                ck.violation("C13.R3", fq, "propagation for HvsrAzimuthal", f"masks assigned {sorted(targets.items())}; {'; '.join(problems)}", loc=f.loc(first))
        else:
            seen["other"] = True
            if l.exit != "raise":
                if n_ is None and t_ is None and a_ is None:
                    raise AnalysisError(f"{fq}: a path of the mask propagation does not test the type of `hvsr` ({l.cond()})")
                ck.violation("C13.R3", fq, "else branch", "unsupported HVSR types are not refused", loc=f.loc(first))
    for k, need in (("trad", "HvsrTraditional"), ("az", "HvsrAzimuthal")):
        if not seen[k]:
            ck.violation("C13.R3", fq, f"propagation for {need}", f"no branch for {need}", loc=f.loc(first))
    if len(mask_vars) != 1:
        ck.violation("C13.R3", fq, "single decision list", f"the masks are assigned from different values: {sorted(mask_vars)}", loc=f.loc(first))
        return None, None
    mask_var = next(iter(mask_vars))
    rets = [r for r in own_nodes(f.node) if isinstance(r, ast.Return)]
    pass_var = None
    for r in rets:
        if isinstance(r.value, ast.Name):
            pass_var = r.value.id
    if pass_var is None:
        raise AnalysisError(f"{fq}: the function does not return a named list")
    return mask_var, pass_var


# --------------------------------------------------------------------------- R2
def _record_loop(f, pass_var: str):
    """The loop over records in which the result list is appended."""
    for st in own_nodes(f.node):
        if isinstance(st, ast.For):
            for c in calls_in(st, "append"):
                if isinstance(c.func.value, ast.Name) and c.func.value.id == pass_var:
                    # outermost enclosing for at function level
                    top = st
                    p = parent_of(st)
                    while p is not None and p is not f.node:
                        if isinstance(p, ast.For):
                            top = p
                        p = parent_of(p)
                    return top
    return None


def _r2(ck: Checker, f, mask_var: str, pass_var: str):
    fq = f.qualname
    cfg = cfg_of(f)
    loop = _record_loop(f, pass_var)
    if loop is None:
        fb = _comprehension_form(f, mask_var, pass_var)
        if fb is None:
            raise AnalysisError(f"{fq}: construction of `{mask_var}` / `{pass_var}` not recognised (neither an append loop nor aligned comprehensions)")
        problems = fb["problems"]
        if not problems:
            ck.ok("C13.R2", fq, f"{mask_var} = [<decision> for each per-record value]; {pass_var} = [record for record, keep in zip(records, {mask_var}) if keep]",
                  detail="one boolean per record, in order; kept records are exactly those whose entry is True")
        else:
            ck.violation("C13.R2", fq, "per-record decisions", "; ".join(problems), loc=f.loc())
        return
    # loop must iterate over records (possibly zipped) in order
    it = loop.iter
    names = {n.id for n in ast.walk(it) if isinstance(n, ast.Name)}
    if "records" not in names or any(call_name(c) in ("reversed", "sorted") for c in calls_in(it)) \
            or any(isinstance(x, ast.Slice) for x in ast.walk(it)):
        ck.violation("C13.R2", fq, norm_key(loop), "the per-record loop does not visit `records` in their given order", loc=f.loc(loop))
    rec_var = None
    tgt = loop.target
    if isinstance(tgt, ast.Name):
        rec_var = tgt.id
    elif isinstance(tgt, ast.Tuple):
        # zip(records, x) / enumerate(records)
        if isinstance(it, ast.Call) and call_name(it) == "zip":
            for a, t in zip(it.args, tgt.elts):
                if isinstance(a, ast.Name) and a.id == "records" and isinstance(t, ast.Name):
                    rec_var = t.id
        elif isinstance(it, ast.Call) and call_name(it) == "enumerate" and len(tgt.elts) == 2 and isinstance(tgt.elts[1], ast.Name):
            rec_var = tgt.elts[1].id
    EV_TRUE, EV_FALSE, EV_PASS, EV_OTHER = 0, 1, 2, 3

    def classify(n: int) -> Optional[int]:
        a = cfg.ast_of(n)
        if a is None or cfg.kind(n) != "stmt":
            return None
        for c in calls_in(a):
            if isinstance(c.func, ast.Attribute) and isinstance(c.func.value, ast.Name):
                if c.func.value.id == mask_var:
                    if c.func.attr == "append" and len(c.args) == 1 and isinstance(c.args[0], ast.Constant) \
                            and c.args[0].value is True:
                        return EV_TRUE
                    if c.func.attr == "append" and len(c.args) == 1 and isinstance(c.args[0], ast.Constant) \
                            and c.args[0].value is False:
                        return EV_FALSE
                    return EV_OTHER
                if c.func.value.id == pass_var:
                    if c.func.attr == "append" and len(c.args) == 1 and isinstance(c.args[0], ast.Name) \
                            and c.args[0].id == rec_var:
                        return EV_PASS
                    return EV_OTHER
        if isinstance(a, (ast.Assign, ast.AugAssign)):
            tg = a.targets if isinstance(a, ast.Assign) else [a.target]
            for t in tg:
                for x in ast.walk(t):
                    if isinstance(x, ast.Name) and x.id in (mask_var, pass_var):
                        return EV_OTHER
        return None
    res = events_per_iteration(cfg, loop, classify, 4)
    allowed = {(1, 0, 1, 0), (0, 1, 0, 0)}
    bad = res - allowed
    if not res:
        ck.violation("C13.R2", fq, norm_key(loop), "no complete iteration path found", loc=f.loc(loop))
    elif bad:
        expl = []
        for b in sorted(bad):
            expl.append(f"(mask True x{b[0]}, mask False x{b[1]}, record kept x{b[2]}, other writes x{b[3]})")
        ck.violation("C13.R2", fq, norm_key(loop),
                     "an iteration of the per-record loop can end with " + "; ".join(expl) +
                     " - expected exactly (True & kept) or (False & not kept)", loc=f.loc(loop))
    else:
        ck.ok("C13.R2", fq, norm_key(loop), detail=f"iteration outcomes {sorted(res)}")
    # the lists start empty and are not touched elsewhere
    for var in (mask_var, pass_var):
        inits = [st for st in own_nodes(f.node) if isinstance(st, ast.Assign) and any(isinstance(t, ast.Name) and t.id == var for t in st.targets)]
        if len(inits) != 1 or not (isinstance(inits[0].value, ast.List) and not inits[0].value.elts) or parent_of(inits[0]) is not f.node:
            ck.violation("C13.R2", fq, f"{var} initialisation", f"`{var}` is not initialised exactly once as an empty list before the loop", loc=f.loc())
        else:
            ck.ok("C13.R2", fq, f"{var} = []", nontrivial=False)
        for st in own_nodes(f.node):
            if isinstance(st, ast.stmt) and cfg.kind(cfg.node(st)) == "stmt" if cfg.node(st) is not None else False:
                inside = False
                p = st
                while p is not None:
                    if p is loop:
                        inside = True
                    p = parent_of(p)
                if not inside and st not in inits:
                    for c in calls_in(st):
                        if isinstance(c.func, ast.Attribute) and isinstance(c.func.value, ast.Name) and c.func.value.id == var \
                                and c.func.attr in ("append", "pop", "insert", "remove", "extend", "clear", "reverse", "sort"):
                            ck.violation("C13.R2", fq, norm_key(st), f"`{var}` is modified outside the per-record loop", loc=f.loc(st))


def _mask_pass_names(f):
    """(decision list name, returned list name) from the mask stores and the return statement."""
    mv = set()
    for st in ast.walk(f.node):
        if isinstance(st, ast.Assign) and any(isinstance(t, ast.Attribute) and t.attr in MASKS for t in st.targets):
            v = st.value
            if isinstance(v, ast.Call) and v.args and isinstance(v.args[0], ast.Name):
                mv.add(v.args[0].id)
    rets = [r for r in own_nodes(f.node) if isinstance(r, ast.Return) and isinstance(r.value, ast.Name)]
    if len(mv) != 1 or not rets:
        return None
    return next(iter(mv)), rets[-1].value.id


def _comprehension_form(f, mask_var: str, pass_var: str):
    """mask = [D(v) for v in S]; passing = [r for r, ok in zip(records, mask) if ok]; S holds one value per record, in order."""
    defs = {}
    for st in f.node.body:
        if isinstance(st, ast.Assign) and len(st.targets) == 1 and isinstance(st.targets[0], ast.Name):
            defs.setdefault(st.targets[0].id, []).append(st)
    md, pd = defs.get(mask_var, []), defs.get(pass_var, [])
    if len(md) != 1 or len(pd) != 1 or not isinstance(md[0].value, ast.ListComp) or not isinstance(pd[0].value, ast.ListComp):
        return None
    mc, pc = md[0].value, pd[0].value
    problems = []
    if len(mc.generators) != 1 or mc.generators[0].ifs or not isinstance(mc.generators[0].target, ast.Name):
        return None
    v = mc.generators[0].target.id
    S = mc.generators[0].iter
    elt = mc.elt
    dec = None
    if isinstance(elt, ast.IfExp) and isinstance(elt.body, ast.Constant) and isinstance(elt.orelse, ast.Constant) \
            and elt.body.value is True and elt.orelse.value is False:
        dec = elt.test
    elif isinstance(elt, ast.Compare):
        dec = elt
    elif isinstance(elt, ast.Call) and call_name(elt) in ("bool", "bool_") and len(elt.args) == 1:
        dec = elt.args[0]
    if dec is None:
        problems.append(f"a mask entry is `{unparse(elt)}`, not a boolean decision")
    # alignment of S with records
    aligned = False
    if isinstance(S, ast.Name) and S.id == "records":
        aligned = True
    elif isinstance(S, ast.Name):
        for lp in [st for st in f.node.body if isinstance(st, ast.For)]:
            if unparse(lp.iter) == "enumerate(records)" and isinstance(lp.target, ast.Tuple) and len(lp.target.elts) == 2:
                ix = unparse(lp.target.elts[0])
                stores = [x for x in ast.walk(lp) if isinstance(x, ast.Assign) and isinstance(x.targets[0], ast.Subscript)
                          and unparse(x.targets[0].value) == S.id and unparse(x.targets[0].slice) == ix]
                if len(stores) == 1 and not any(isinstance(x, (ast.Break, ast.Continue)) for x in ast.walk(lp) if _loop_of(x) is lp):
                    aligned = True
    if not aligned:
        problems.append(f"the decisions are taken over `{unparse(S)}`, which is not known to hold one value per record in order")
    g = pc.generators[0] if len(pc.generators) == 1 else None
    okp = g is not None and isinstance(g.iter, ast.Call) and call_name(g.iter) == "zip" and [unparse(a) for a in g.iter.args] == ["records", mask_var] \
        and isinstance(g.target, ast.Tuple) and len(g.target.elts) == 2 and len(g.ifs) == 1 \
        and unparse(g.ifs[0]) == unparse(g.target.elts[1]) and unparse(pc.elt) == unparse(g.target.elts[0])
    if not okp:
        problems.append(f"`{pass_var}` is not [record for record, keep in zip(records, {mask_var}) if keep]")
    if md[0].lineno > pd[0].lineno:
        problems.append("the kept records are selected before the decisions are made")
    return {"problems": problems, "decision": dec, "value_var": v, "values": S, "site": md[0]}


def _loop_of(node):
    p = parent_of(node)
    while p is not None and not isinstance(p, (ast.For, ast.While)):
        p = parent_of(p)
    return p


# --------------------------------------------------------------------------- R4
def _r4(ck: Checker, f, mask_var: str, pass_var: str):
    fq = f.qualname
    loops = [st for st in f.node.body if isinstance(st, ast.For)]
    n = 0
    for loop in loops:
        names = {x.id for x in ast.walk(loop.iter) if isinstance(x, ast.Name)}
        if "records" not in names:
            continue
        n += 1
        carried = loop_carried(f, loop, ignore={mask_var, pass_var})
        if not carried:
            ck.ok("C13.R4", fq, norm_key(loop), detail="no loop-carried definitions")
        for (nm, use, d) in carried:
            ck.violation("C13.R4", fq, f"{nm} <- {norm_key(d, 80)}",
                         f"`{nm}` read at line {use.lineno} may still hold the value assigned for a previous window "
                         f"(`{norm_key(d, 60)}`): the decision for a window would depend on other windows", loc=f.loc(use))
    ck.floor("C13.R4", n, 1, f"per-record loops in {fq}")


# --------------------------------------------------------------------------- R5/R6
def _canon_rel(r):
    """Canonicalise a relation to Gt/Ge(lhs, rhs)."""
    if isinstance(r, sp.Lt):
        return sp.Gt(r.rhs, r.lhs, evaluate=False)
    if isinstance(r, sp.Le):
        return sp.Ge(r.rhs, r.lhs, evaluate=False)
    return r


def _r5_r6_sta(ck: Checker, prog: Program):
    f = prog.func("window_rejection.sta_lta_window_rejection")
    fq = f.qualname
    # innermost loop over components
    inner = None
    for st in own_nodes(f.node):
        if isinstance(st, ast.For) and isinstance(st.iter, ast.Name) and st.iter.id == "components":
            inner = st
    if inner is None:
        raise AnalysisError(f"{fq}: loop over `components` not found")
    # the deciding if: the one containing append(False)
    decide = None
    for st in inner.body:
        if isinstance(st, ast.If) and any(call_name(c) == "append" for c in calls_in(st)):
            decide = st
    if decide is None:
        raise AnalysisError(f"{fq}: deciding `if` with mask append not found in the component loop")
    amp = sp.Symbol("A", positive=True)

    def hook(name):
        if name == "timeseries.amplitude":
            return amp
        return None
    T = Translator(symbol_hook=hook, positive={"sta_seconds", "lta_seconds", "max_sta_lta_ratio", "min_sta_lta_ratio",
                                               "timeseries.dt_in_seconds", "timeseries.n_samples", "n_samples"})
    straight = [s for s in inner.body if s is not decide and isinstance(s, (ast.Assign, ast.AugAssign))]
    forward_substitute([s for s in inner.body if isinstance(s, (ast.Assign, ast.AugAssign)) and s.lineno < decide.lineno], T)
    cond = T.tr(decide.test)
    # does the true branch reject?
    true_rejects = any(call_name(c) == "append" and c.args and isinstance(c.args[0], ast.Constant) and c.args[0].value is False
                       for b in decide.body for c in calls_in(b))
    d = degree(cond, {amp: 1})
    key = norm_key(decide, 120)
    if d is None:
        ck.violation("C13.R5", fq, key,
                     "the STA/LTA decision is not invariant under a common rescaling of the amplitudes "
                     f"(canonical condition: {cond})", loc=f.loc(decide))
    else:
        ck.ok("C13.R5", fq, key, detail=f"degree 0 in the amplitude; condition {cond}")
    # R6 shape
    sta = T.env.get("sta_values")
    lta = T.env.get("lta")
    if sta is None or lta is None:
        raise AnalysisError(f"{fq}: sta_values / lta not found as straight-line definitions")
    dsta, dlta = degree(sta, {amp: 1}), degree(lta, {amp: 1})
    if dsta != 1 or dlta != 1:
        ck.violation("C13.R5", fq, "sta_values, lta",
                     f"STA has degree {dsta} and LTA degree {dlta} in the amplitude (both must be 1: averages of |x|)", loc=f.loc(inner))
    else:
        ck.ok("C13.R5", fq, "sta_values, lta degree 1", detail=f"sta={sta}; lta={lta}")
    # both are means of absolute values
    for nm, v in (("sta_values", sta), ("lta", lta)):
        if not (v.is_Function and v.func.__name__ == "mean" and v.args and v.args[0].has(sp.Abs)):
            ck.violation("C13.R5", fq, nm, f"`{nm}` is not a mean of absolute amplitudes: {v}", loc=f.loc(inner))
    # the STA blocks tile the window from its first sample: K = floor(n_samples / P) blocks of P samples
    resh = [a for a in sp.preorder_traversal(sta) if getattr(getattr(a, "func", None), "__name__", "") == "reshape"]
    tiled = False
    detail = ""
    if len(resh) == 1 and len(resh[0].args) >= 2 and isinstance(resh[0].args[1], sp.Tuple) and len(resh[0].args[1]) == 2:
        K, P = resh[0].args[1]
        src = resh[0].args[0]
        if isinstance(src, sp.Abs):
            src = src.args[0]
        Ns = [T.sym("timeseries.n_samples"), T.env.get("n_samples", T.sym("n_samples"))]
        okK = any(equal(K, sp.Function("int")(sp.floor(N / P))) or equal(K, sp.floor(N / P)) for N in Ns)
        gi, sl, NONE = sp.Function("getitem"), sp.Function("slice"), sp.Symbol("None")
        okS = getattr(src, "func", None) == gi and src.args[0] == amp and getattr(src.args[1], "func", None) == sl \
            and src.args[1].args[0] == NONE and equal(src.args[1].args[1], K * P) and src.args[1].args[2] == NONE
        tiled = okK and okS
        detail = f"{K} blocks of {P} samples from {src}"
    if tiled:
        ck.ok("C13.R6", fq, "STA blocks: floor(n_samples/P) blocks of P samples from the start of the window", detail=detail)
    else:
        ck.violation("C13.R6", fq, "STA blocks", f"the short-term averages do not cover floor(n_samples/P) whole blocks of the window from its first sample ({detail})",
                     loc=f.loc(inner))
    ratio = sta / lta
    MAXR, MINR = T.sym("max_sta_lta_ratio"), T.sym("min_sta_lta_ratio")
    rels = []
    if isinstance(cond, sp.Or):
        rels = [_canon_rel(a) for a in cond.args]
    elif isinstance(cond, (sp.Gt, sp.Ge, sp.Lt, sp.Le)):
        rels = [_canon_rel(cond)]
    want_hi = want_lo = False
    for r in rels:
        if isinstance(r, (sp.Gt, sp.Ge)):
            l, rr = r.lhs, r.rhs
            if equal(rr, MAXR) and l.is_Function and l.func.__name__ in ("max", "amax", "nanmax") and equal(l.args[0], ratio):
                want_hi = True
            if equal(l, MINR) and rr.is_Function and rr.func.__name__ in ("min", "amin", "nanmin") and equal(rr.args[0], ratio):
                want_lo = True
    if want_hi and want_lo and true_rejects and len(rels) == 2 and isinstance(cond, sp.Or):
        ck.ok("C13.R6", fq, key, detail="reject iff max(STA/LTA) > max_sta_lta_ratio or min(STA/LTA) < min_sta_lta_ratio")
    else:
        ck.violation("C13.R6", fq, key,
                     f"the rejection test is not `max(STA/LTA) > max_sta_lta_ratio or min(STA/LTA) < min_sta_lta_ratio` "
                     f"(found {cond}; true branch rejects: {true_rejects})", loc=f.loc(decide))
    # LTA is a prefix of the same window's samples, STA chunks tile the window from its start
    rd = reaching(f)
    for nm in ("max_sta_lta_ratio", "min_sta_lta_ratio", "components"):
        if not rd.only_param(nm, decide):
            ck.violation("C13.R6", fq, f"{nm} rebound", f"parameter `{nm}` is rebound before the decision", loc=f.loc(decide))
    # the examined series is the component of the current record
    ts_def = [s for s in inner.body if isinstance(s, ast.Assign) and isinstance(s.targets[0], ast.Name) and s.targets[0].id == "timeseries"]
    good = False
    if ts_def:
        v = ts_def[0].value
        good = isinstance(v, ast.Call) and call_name(v) == "getattr" and len(v.args) == 2 and isinstance(v.args[0], ast.Name) \
            and isinstance(v.args[1], ast.Name) and isinstance(inner.target, ast.Name) and v.args[1].id == inner.target.id
        outer = parent_of(inner)
        while outer is not None and not isinstance(outer, ast.For):
            outer = parent_of(outer)
        good = good and outer is not None and isinstance(outer.target, ast.Name) and v.args[0].id == outer.target.id
    if good:
        ck.ok("C13.R6", fq, "timeseries = getattr(record, component)", nontrivial=False)
    else:
        ck.violation("C13.R6", fq, "examined series", "the examined series is not getattr(<current record>, <current component>)", loc=f.loc(inner))


def _r5_r6_max(ck: Checker, prog: Program):
    f = prog.func("window_rejection.maximum_value_window_rejection")
    fq = f.qualname
    amp = sp.Symbol("A", positive=True)

    def hook(name):
        if name == "timeseries.amplitude":
            return amp
        return None
    T = Translator(symbol_hook=hook)
    # per component maximum
    cm = [st for st in own_nodes(f.node) if isinstance(st, ast.Assign) and isinstance(st.targets[0], ast.Name)
          and any(isinstance(x, ast.Attribute) and x.attr == "amplitude" for x in ast.walk(st.value))]
    ck.floor("C13.R5", len(cm), 1, f"statements reading the amplitude in {fq}")
    for st in cm:
        v = T.tr(st.value)
        want = sp.Function("max")(sp.Abs(amp))
        # the per-component statistic may sit inside a comprehension over the components
        if getattr(getattr(v, "func", None), "__name__", "") == "comp" and len(v.args) == 2 and str(v.args[1].args[1]) == "components":
            v = v.args[0]
        v = v.replace(lambda e: getattr(getattr(e, "func", None), "__name__", "") == "attr_amplitude", lambda e: amp)
        if equal(v, want) or (v.is_Function and v.func.__name__ in ("max", "amax") and equal(v.args[0], sp.Abs(amp))):
            ck.ok("C13.R5", fq, norm_key(st), detail="component statistic = max|x|")
        else:
            ck.violation("C13.R5", fq, norm_key(st), f"component statistic is {v}, not the largest absolute sample max|x|", loc=f.loc(st))
    # running maximum over components: if c > m: m = c
    run_ok = False
    for st in own_nodes(f.node):
        if isinstance(st, ast.If) and isinstance(st.test, ast.Compare) and isinstance(st.test.ops[0], (ast.Gt, ast.GtE)) \
                and len(st.body) == 1 and isinstance(st.body[0], ast.Assign) and not st.orelse:
            a = st.body[0]
            if isinstance(st.test.left, ast.Name) and isinstance(st.test.comparators[0], ast.Name) and isinstance(a.targets[0], ast.Name) \
                    and a.targets[0].id == st.test.comparators[0].id and isinstance(a.value, ast.Name) and a.value.id == st.test.left.id:
                run_ok = True
    if any(call_name(c) == "max" and len(c.args) == 2 for c in calls_in(f.node)):
        run_ok = True
    for c in calls_in(f.node):
        # max([0, *per-component values]) / max(0, *values)
        if call_name(c) == "max" and isinstance(c.func, ast.Name):
            elems = c.args[0].elts if len(c.args) == 1 and isinstance(c.args[0], (ast.List, ast.Tuple)) else c.args
            if any(isinstance(e, ast.Starred) for e in elems) and any(isinstance(e, ast.Constant) and e.value == 0 for e in elems):
                run_ok = True
    if run_ok:
        ck.ok("C13.R5", fq, "maximum over the examined components", nontrivial=False)
    else:
        ck.violation("C13.R5", fq, "maximum over the examined components", "the per-window value is not the maximum over the examined components", loc=f.loc())
    # normalisation: guarded by `normalized`, divides by the overall maximum
    norm = [st for st in f.node.body if isinstance(st, ast.If) and isinstance(st.test, ast.Name) and st.test.id == "normalized"]
    if len(norm) != 1:
        ck.violation("C13.R5", fq, "normalisation", "normalisation is not guarded by `if normalized:` exactly once", loc=f.loc())
    else:
        b = norm[0].body
        good = len(b) == 1 and isinstance(b[0], ast.AugAssign) and isinstance(b[0].op, ast.Div) and isinstance(b[0].target, ast.Name)
        if good:
            tv = T.tr(b[0].value)
            tgt = T.sym(b[0].target.id)
            good = (tv.is_Function and tv.func.__name__ in ("max", "amax") and
                    (equal(tv.args[0], tgt) or equal(tv.args[0], sp.Abs(tgt))))
        if good and not norm[0].orelse:
            ck.ok("C13.R5", fq, norm_key(b[0]), detail="values divided by their overall maximum (degree 0)")
        else:
            ck.violation("C13.R5", fq, "normalisation", "the normalised values are not value / max(all values)", loc=f.loc(norm[0]))
    # decision
    got = _mask_pass_names(f)
    loop = _record_loop(f, got[1]) if got else None
    if loop is None:
        fb = _comprehension_form(f, *got) if got else None
        if fb is None or fb["decision"] is None:
            raise AnalysisError(f"{fq}: decision not found")
        cond = _canon_rel(T.tr(fb["decision"]))
        thr, val = T.sym("maximum_value_threshold"), T.sym(fb["value_var"])
        if isinstance(cond, sp.Gt) and equal(cond.lhs, thr) and equal(cond.rhs, val) and reaching(f).only_param("maximum_value_threshold", fb["site"]):
            ck.ok("C13.R6", fq, norm_key(fb["site"], 110), detail="keep iff value < maximum_value_threshold")
        else:
            ck.violation("C13.R6", fq, norm_key(fb["site"], 110), f"decision is {cond}; expected keep iff value < threshold", loc=f.loc(fb["site"]))
        return
    dec = [st for st in loop.body if isinstance(st, ast.If)]
    if len(dec) != 1:
        raise AnalysisError(f"{fq}: decision `if` not found")
    d = dec[0]
    cond = _canon_rel(T.tr(d.test))
    true_keeps = any(call_name(c) == "append" and c.args and isinstance(c.args[0], ast.Constant) and c.args[0].value is True
                     for b in d.body for c in calls_in(b))
    thr = T.sym("maximum_value_threshold")
    # value variable comes from the zip over the (normalised) values
    val = None
    if isinstance(loop.iter, ast.Call) and call_name(loop.iter) == "zip" and isinstance(loop.target, ast.Tuple):
        for a, t in zip(loop.iter.args, loop.target.elts):
            if isinstance(a, ast.Name) and a.id != "records" and isinstance(t, ast.Name):
                val = T.sym(t.id)
    good = False
    if val is not None:
        if true_keeps and isinstance(cond, sp.Gt) and equal(cond.lhs, thr) and equal(cond.rhs, val):
            good = True
        if (not true_keeps) and isinstance(cond, sp.Ge) and equal(cond.lhs, val) and equal(cond.rhs, thr):
            good = True
    if good and reaching(f).only_param("maximum_value_threshold", d):
        ck.ok("C13.R6", fq, norm_key(d), detail="keep iff value < maximum_value_threshold")
    else:
        ck.violation("C13.R6", fq, norm_key(d), f"decision is {cond} (true branch keeps: {true_keeps}); expected keep iff value < threshold",
                     loc=f.loc(d))
