"""C13 - time-domain rejection keeps exactly the windows that satisfy the criterion."""
from __future__ import annotations

import ast
from typing import Dict, List, Optional, Tuple

import sympy as sp

from ..astutil import call_name, calls_in, own_nodes, unparse, kwarg, dotted
from ..cfg import cfg_of, events_per_iteration
from ..dataflow import reaching, loop_carried
from ..expr import Translator, forward_substitute, degree, equal
from ..model import AnalysisError, Program, norm_key, parent_of
from ..report import Checker
from .common import engine, group_effects, describe_effect, chain_text

EXPLANATION = (
    "For sta_lta_window_rejection and maximum_value_window_rejection: (R1) effect analysis - `records` is not "
    "mutated and the returned list holds the loop elements themselves (origin records[*], no copies); (R2) CFG "
    "event counting per iteration of the per-record loop - exactly one mask entry is appended, True exactly on "
    "the paths that append the record, entries are boolean literals; (R3) both masks of the attached HVSR "
    "object (every azimuth) are assigned from that same list and every path to the return evaluates the "
    "`hvsr is not None` propagation; (R4) no name read in the per-record loop carries a value from a previous "
    "iteration (decision depends on that window only; the normalised maximum is the designed exception); "
    "(R5) the decision expressions are homogeneous of degree 0 in a common amplitude factor (structural degree "
    "inference) and the per-window statistic is max|x|; (R6) the reject test is max(STA/LTA) > max_ratio or "
    "min(STA/LTA) < min_ratio (keep verdict monotone in the limits) and maximum-value keeps iff value < "
    "threshold. Not decided: sample counts per STA chunk for time steps that are not binary fractions.")

RULES = {
    "C13.R1": "records is not mutated; the returned list contains the records themselves in iteration order",
    "C13.R2": "per record exactly one mask entry; True iff the record is appended to the result; boolean literals",
    "C13.R3": "both masks, every azimuth, same list; propagation evaluated on every path to the return",
    "C13.R4": "no loop-carried state between windows",
    "C13.R5": "decision statistics are degree 0 under a common rescaling; per-window statistic is max|x|",
    "C13.R6": "reject iff max ratio > max limit or min ratio < min limit; max-value keeps iff value < threshold",
}

FUNCS = ["window_rejection.sta_lta_window_rejection", "window_rejection.maximum_value_window_rejection"]
MASKS = ("valid_window_boolean_mask", "valid_peak_boolean_mask")


def run(ck: Checker, prog: Program, tier: str):
    eng = engine(prog)
    for fq in FUNCS:
        f = prog.func(fq)
        if "records" not in f.params or "hvsr" not in f.params:
            raise AnalysisError(f"{fq}: expected parameters records and hvsr")
        ri = f.params.index("records")
        s = eng.summary(f)
        # ------------------------------------------------------------- R1
        effs = [e for e in s.effects if e.origin[0] == "P" and e.origin[1] == ri]
        if not effs:
            ck.ok("C13.R1", fq, "no effect on `records`")
        for (func, text), es in group_effects(prog, effs).items():
            ck.violation("C13.R1", func, text, f"{fq} mutates the windows it examines: {describe_effect(es[0])}",
                         loc=es[0].chain[0].loc, path=chain_text(es[0]))
        ret = s.ret
        elem_origins = set()
        fresh_lists = [o for o in ret.origins if o[0] == "F"]
        for o in fresh_lists:
            hv = s.heap.get((o, "[]"))
            if hv is not None:
                elem_origins |= set(hv[0].origins)
        want = {("P", ri, ("[]",))}
        if ret.origins and all(o[0] == "F" for o in ret.origins) and elem_origins == want:
            ck.ok("C13.R1", fq, "returned list elements have origin records[*] (same objects)")
        else:
            ck.violation("C13.R1", fq, "return value",
                         f"the returned list does not hold exactly the given window objects "
                         f"(list origins {sorted(map(str, ret.origins))}, element origins {sorted(map(str, elem_origins))})",
                         loc=f.loc())
        # ------------------------------------------------------------- R3 (find mask var) then R2
        got = ck.guard(_r3, ck, prog, f)
        mask_var, pass_var = got if got else (None, None)
        if mask_var is None:
            continue
        ck.guard(_r2, ck, f, mask_var, pass_var)
        ck.guard(_r4, ck, f, mask_var, pass_var)
    ck.guard(_r5_r6_sta, ck, prog)
    ck.guard(_r5_r6_max, ck, prog)


# --------------------------------------------------------------------------- R3
def _r3(ck: Checker, prog: Program, f) -> Tuple[Optional[str], Optional[str]]:
    fq = f.qualname
    cfg = cfg_of(f)
    # the propagation block
    prop = None
    for st in f.node.body:
        if isinstance(st, ast.If) and isinstance(st.test, ast.Compare) and isinstance(st.test.left, ast.Name) \
                and st.test.left.id == "hvsr" and isinstance(st.test.ops[0], (ast.IsNot, ast.NotEq)) \
                and isinstance(st.test.comparators[0], ast.Constant) and st.test.comparators[0].value is None:
            prop = st
    if prop is None:
        raise AnalysisError(f"{fq}: `if hvsr is not None:` propagation block not found at function level")
    # every path to the normal exit evaluates the test
    pn = cfg.node(prop)
    path = cfg.path_avoiding(cfg.entry, cfg.exit, [pn])
    if path is not None:
        ck.violation("C13.R3", fq, "mask propagation reached on every path",
                     "there is a path to the return that skips the `hvsr is not None` mask propagation",
                     loc=f.loc(prop), path=cfg.describe_path(path)[:14])
    else:
        ck.ok("C13.R3", fq, "every path to the return evaluates `hvsr is not None`")
    if not reaching(f).only_param("hvsr", prop):
        ck.violation("C13.R3", fq, "hvsr rebound", "`hvsr` is rebound before the propagation", loc=f.loc(prop))
    # stores in the block
    stores: Dict[str, List[ast.Assign]] = {m: [] for m in MASKS}
    for st in ast.walk(prop):
        if isinstance(st, ast.Assign):
            for t in st.targets:
                if isinstance(t, ast.Attribute) and t.attr in MASKS:
                    stores[t.attr].append(st)
    mask_vars = set()
    for m, sts in stores.items():
        for st in sts:
            v = st.value
            inner = None
            if isinstance(v, ast.Call) and dotted(v.func) in ("np.array", "numpy.array", "np.asarray", "np.copy") and v.args \
                    and isinstance(v.args[0], ast.Name):
                inner = v.args[0].id
                dt = kwarg(v, "dtype")
                if dt is not None and unparse(dt) not in ("bool", "np.bool_", "numpy.bool_"):
                    ck.violation("C13.R3", fq, norm_key(st), f"mask stored with dtype {unparse(dt)}", loc=f.loc(st))
            elif isinstance(v, ast.Name):
                inner = v.id
            if inner is None:
                ck.violation("C13.R3", fq, norm_key(st), "mask is not assigned from the per-window decision list", loc=f.loc(st))
            else:
                mask_vars.add(inner)
    # branch structure: traditional (direct on hvsr) and azimuthal (loop over hvsr.hvsrs), else raise
    ladder = [n for n in prop.body if isinstance(n, ast.If)]
    if len(ladder) != 1:
        raise AnalysisError(f"{fq}: propagation block is not a single isinstance ladder")
    lad = ladder[0]
    branches = []
    cur = lad
    while isinstance(cur, ast.If):
        branches.append((cur.test, cur.body))
        if len(cur.orelse) == 1 and isinstance(cur.orelse[0], ast.If):
            cur = cur.orelse[0]
        else:
            branches.append((None, cur.orelse))
            break
    seen_classes = []
    for test, body in branches:
        if test is None:
            if not any(isinstance(b, ast.Raise) for b in body):
                ck.violation("C13.R3", fq, "else branch", "unsupported HVSR types are not refused", loc=f.loc(lad))
            continue
        cname = None
        if isinstance(test, ast.Call) and call_name(test) == "isinstance" and len(test.args) == 2 \
                and isinstance(test.args[1], ast.Name):
            cname = test.args[1].id
        seen_classes.append(cname)
        found = {m: 0 for m in MASKS}
        targets_ok = True
        for b in ast.walk(ast.Module(body=body, type_ignores=[])):
            if isinstance(b, ast.Assign):
                for t in b.targets:
                    if isinstance(t, ast.Attribute) and t.attr in MASKS:
                        found[t.attr] += 1
                        if cname == "HvsrAzimuthal":
                            loop = parent_of(b)
                            ok = isinstance(loop, ast.For) and isinstance(loop.iter, ast.Attribute) and loop.iter.attr == "hvsrs" \
                                and isinstance(loop.iter.value, ast.Name) and loop.iter.value.id == "hvsr" \
                                and isinstance(t.value, ast.Name) and isinstance(loop.target, ast.Name) and t.value.id == loop.target.id \
                                and not any(isinstance(x, (ast.Break, ast.Continue)) for x in ast.walk(loop))
                            targets_ok &= ok
                        else:
                            targets_ok &= isinstance(t.value, ast.Name) and t.value.id == "hvsr"
        key = f"propagation for {cname}"
        if all(v == 1 for v in found.values()) and targets_ok:
            ck.ok("C13.R3", fq, key, detail="both masks assigned" + (" for every azimuth" if cname == "HvsrAzimuthal" else ""))
        else:
            ck.violation("C13.R3", fq, key, f"masks assigned {found}, on the right object(s): {targets_ok}", loc=f.loc(lad))
    for need in ("HvsrTraditional", "HvsrAzimuthal"):
        if need not in seen_classes:
            ck.violation("C13.R3", fq, f"propagation for {need}", f"no branch for {need}", loc=f.loc(lad))
    if len(mask_vars) != 1:
        ck.violation("C13.R3", fq, "single decision list",
                     f"the masks are assigned from different values: {sorted(mask_vars)}", loc=f.loc(prop))
        return None, None
    mask_var = next(iter(mask_vars))
    # the returned list
    rets = [r for r in own_nodes(f.node) if isinstance(r, ast.Return)]
    pass_var = None
    for r in rets:
        if isinstance(r.value, ast.Name):
            pass_var = r.value.id
    if pass_var is None:
        raise AnalysisError(f"{fq}: the function does not return a named list")
    return mask_var, pass_var


# --------------------------------------------------------------------------- R2
def _record_loop(f, pass_var: str):
    """The loop over records in which the result list is appended."""
    for st in own_nodes(f.node):
        if isinstance(st, ast.For):
            for c in calls_in(st, "append"):
                if isinstance(c.func.value, ast.Name) and c.func.value.id == pass_var:
                    # outermost enclosing for at function level
                    top = st
                    p = parent_of(st)
                    while p is not None and p is not f.node:
                        if isinstance(p, ast.For):
                            top = p
                        p = parent_of(p)
                    return top
    return None


def _r2(ck: Checker, f, mask_var: str, pass_var: str):
    fq = f.qualname
    cfg = cfg_of(f)
    loop = _record_loop(f, pass_var)
    if loop is None:
        ck.violation("C13.R2", fq, "per-record loop", f"no loop appends to the returned list `{pass_var}`", loc=f.loc())
        return
    # loop must iterate over records (possibly zipped) in order
    it = loop.iter
    names = {n.id for n in ast.walk(it) if isinstance(n, ast.Name)}
    if "records" not in names or any(call_name(c) in ("reversed", "sorted") for c in calls_in(it)) \
            or any(isinstance(x, ast.Slice) for x in ast.walk(it)):
        ck.violation("C13.R2", fq, norm_key(loop), "the per-record loop does not visit `records` in their given order", loc=f.loc(loop))
    rec_var = None
    tgt = loop.target
    if isinstance(tgt, ast.Name):
        rec_var = tgt.id
    elif isinstance(tgt, ast.Tuple):
        # zip(records, x) / enumerate(records)
        if isinstance(it, ast.Call) and call_name(it) == "zip":
            for a, t in zip(it.args, tgt.elts):
                if isinstance(a, ast.Name) and a.id == "records" and isinstance(t, ast.Name):
                    rec_var = t.id
        elif isinstance(it, ast.Call) and call_name(it) == "enumerate" and len(tgt.elts) == 2 and isinstance(tgt.elts[1], ast.Name):
            rec_var = tgt.elts[1].id
    EV_TRUE, EV_FALSE, EV_PASS, EV_OTHER = 0, 1, 2, 3

    def classify(n: int) -> Optional[int]:
        a = cfg.ast_of(n)
        if a is None or cfg.kind(n) != "stmt":
            return None
        for c in calls_in(a):
            if isinstance(c.func, ast.Attribute) and isinstance(c.func.value, ast.Name):
                if c.func.value.id == mask_var:
                    if c.func.attr == "append" and len(c.args) == 1 and isinstance(c.args[0], ast.Constant) \
                            and c.args[0].value is True:
                        return EV_TRUE
                    if c.func.attr == "append" and len(c.args) == 1 and isinstance(c.args[0], ast.Constant) \
                            and c.args[0].value is False:
                        return EV_FALSE
                    return EV_OTHER
                if c.func.value.id == pass_var:
                    if c.func.attr == "append" and len(c.args) == 1 and isinstance(c.args[0], ast.Name) \
                            and c.args[0].id == rec_var:
                        return EV_PASS
                    return EV_OTHER
        if isinstance(a, (ast.Assign, ast.AugAssign)):
            tg = a.targets if isinstance(a, ast.Assign) else [a.target]
            for t in tg:
                for x in ast.walk(t):
                    if isinstance(x, ast.Name) and x.id in (mask_var, pass_var):
                        return EV_OTHER
        return None
    res = events_per_iteration(cfg, loop, classify, 4)
    allowed = {(1, 0, 1, 0), (0, 1, 0, 0)}
    bad = res - allowed
    if not res:
        ck.violation("C13.R2", fq, norm_key(loop), "no complete iteration path found", loc=f.loc(loop))
    elif bad:
        expl = []
        for b in sorted(bad):
            expl.append(f"(mask True x{b[0]}, mask False x{b[1]}, record kept x{b[2]}, other writes x{b[3]})")
        ck.violation("C13.R2", fq, norm_key(loop),
                     "an iteration of the per-record loop can end with " + "; ".join(expl) +
                     " - expected exactly (True & kept) or (False & not kept)", loc=f.loc(loop))
    else:
        ck.ok("C13.R2", fq, norm_key(loop), detail=f"iteration outcomes {sorted(res)}")
    # the lists start empty and are not touched elsewhere
    for var in (mask_var, pass_var):
        inits = [st for st in own_nodes(f.node) if isinstance(st, ast.Assign) and any(isinstance(t, ast.Name) and t.id == var for t in st.targets)]
        if len(inits) != 1 or not (isinstance(inits[0].value, ast.List) and not inits[0].value.elts) or parent_of(inits[0]) is not f.node:
            ck.violation("C13.R2", fq, f"{var} initialisation", f"`{var}` is not initialised exactly once as an empty list before the loop", loc=f.loc())
        else:
            ck.ok("C13.R2", fq, f"{var} = []", nontrivial=False)
        for st in own_nodes(f.node):
            if isinstance(st, ast.stmt) and cfg.kind(cfg.node(st)) == "stmt" if cfg.node(st) is not None else False:
                inside = False
                p = st
                while p is not None:
                    if p is loop:
                        inside = True
                    p = parent_of(p)
                if not inside and st not in inits:
                    for c in calls_in(st):
                        if isinstance(c.func, ast.Attribute) and isinstance(c.func.value, ast.Name) and c.func.value.id == var \
                                and c.func.attr in ("append", "pop", "insert", "remove", "extend", "clear", "reverse", "sort"):
                            ck.violation("C13.R2", fq, norm_key(st), f"`{var}` is modified outside the per-record loop", loc=f.loc(st))


# --------------------------------------------------------------------------- R4
def _r4(ck: Checker, f, mask_var: str, pass_var: str):
    fq = f.qualname
    loops = [st for st in f.node.body if isinstance(st, ast.For)]
    n = 0
    for loop in loops:
        names = {x.id for x in ast.walk(loop.iter) if isinstance(x, ast.Name)}
        if "records" not in names:
            continue
        n += 1
        carried = loop_carried(f, loop, ignore={mask_var, pass_var})
        if not carried:
            ck.ok("C13.R4", fq, norm_key(loop), detail="no loop-carried definitions")
        for (nm, use, d) in carried:
            ck.violation("C13.R4", fq, f"{nm} <- {norm_key(d, 80)}",
                         f"`{nm}` read at line {use.lineno} may still hold the value assigned for a previous window "
                         f"(`{norm_key(d, 60)}`): the decision for a window would depend on other windows", loc=f.loc(use))
    ck.floor("C13.R4", n, 1, f"per-record loops in {fq}")


# --------------------------------------------------------------------------- R5/R6
def _canon_rel(r):
    """Canonicalise a relation to Gt/Ge(lhs, rhs)."""
    if isinstance(r, sp.Lt):
        return sp.Gt(r.rhs, r.lhs, evaluate=False)
    if isinstance(r, sp.Le):
        return sp.Ge(r.rhs, r.lhs, evaluate=False)
    return r


def _r5_r6_sta(ck: Checker, prog: Program):
    f = prog.func("window_rejection.sta_lta_window_rejection")
    fq = f.qualname
    # innermost loop over components
    inner = None
    for st in own_nodes(f.node):
        if isinstance(st, ast.For) and isinstance(st.iter, ast.Name) and st.iter.id == "components":
            inner = st
    if inner is None:
        raise AnalysisError(f"{fq}: loop over `components` not found")
    # the deciding if: the one containing append(False)
    decide = None
    for st in inner.body:
        if isinstance(st, ast.If) and any(call_name(c) == "append" for c in calls_in(st)):
            decide = st
    if decide is None:
        raise AnalysisError(f"{fq}: deciding `if` with mask append not found in the component loop")
    amp = sp.Symbol("A", positive=True)

    def hook(name):
        if name == "timeseries.amplitude":
            return amp
        return None
    T = Translator(symbol_hook=hook, positive={"sta_seconds", "lta_seconds", "max_sta_lta_ratio", "min_sta_lta_ratio",
                                               "timeseries.dt_in_seconds", "timeseries.n_samples", "n_samples"})
    straight = [s for s in inner.body if s is not decide and isinstance(s, (ast.Assign, ast.AugAssign))]
    forward_substitute([s for s in inner.body if isinstance(s, (ast.Assign, ast.AugAssign)) and s.lineno < decide.lineno], T)
    cond = T.tr(decide.test)
    # does the true branch reject?
    true_rejects = any(call_name(c) == "append" and c.args and isinstance(c.args[0], ast.Constant) and c.args[0].value is False
                       for b in decide.body for c in calls_in(b))
    d = degree(cond, {amp: 1})
    key = norm_key(decide, 120)
    if d is None:
        ck.violation("C13.R5", fq, key,
                     "the STA/LTA decision is not invariant under a common rescaling of the amplitudes "
                     f"(canonical condition: {cond})", loc=f.loc(decide))
    else:
        ck.ok("C13.R5", fq, key, detail=f"degree 0 in the amplitude; condition {cond}")
    # R6 shape
    sta = T.env.get("sta_values")
    lta = T.env.get("lta")
    if sta is None or lta is None:
        raise AnalysisError(f"{fq}: sta_values / lta not found as straight-line definitions")
    dsta, dlta = degree(sta, {amp: 1}), degree(lta, {amp: 1})
    if dsta != 1 or dlta != 1:
        ck.violation("C13.R5", fq, "sta_values, lta",
                     f"STA has degree {dsta} and LTA degree {dlta} in the amplitude (both must be 1: averages of |x|)", loc=f.loc(inner))
    else:
        ck.ok("C13.R5", fq, "sta_values, lta degree 1", detail=f"sta={sta}; lta={lta}")
    # both are means of absolute values
    for nm, v in (("sta_values", sta), ("lta", lta)):
        if not (v.is_Function and v.func.__name__ == "mean" and v.args and v.args[0].has(sp.Abs)):
            ck.violation("C13.R5", fq, nm, f"`{nm}` is not a mean of absolute amplitudes: {v}", loc=f.loc(inner))
    ratio = sta / lta
    MAXR, MINR = T.sym("max_sta_lta_ratio"), T.sym("min_sta_lta_ratio")
    rels = []
    if isinstance(cond, sp.Or):
        rels = [_canon_rel(a) for a in cond.args]
    elif isinstance(cond, (sp.Gt, sp.Ge, sp.Lt, sp.Le)):
        rels = [_canon_rel(cond)]
    want_hi = want_lo = False
    for r in rels:
        if isinstance(r, (sp.Gt, sp.Ge)):
            l, rr = r.lhs, r.rhs
            if equal(rr, MAXR) and l.is_Function and l.func.__name__ in ("max", "amax", "nanmax") and equal(l.args[0], ratio):
                want_hi = True
            if equal(l, MINR) and rr.is_Function and rr.func.__name__ in ("min", "amin", "nanmin") and equal(rr.args[0], ratio):
                want_lo = True
    if want_hi and want_lo and true_rejects and len(rels) == 2 and isinstance(cond, sp.Or):
        ck.ok("C13.R6", fq, key, detail="reject iff max(STA/LTA) > max_sta_lta_ratio or min(STA/LTA) < min_sta_lta_ratio")
    else:
        ck.violation("C13.R6", fq, key,
                     f"the rejection test is not `max(STA/LTA) > max_sta_lta_ratio or min(STA/LTA) < min_sta_lta_ratio` "
                     f"(found {cond}; true branch rejects: {true_rejects})", loc=f.loc(decide))
    # LTA is a prefix of the same window's samples, STA chunks tile the window from its start
    rd = reaching(f)
    for nm in ("max_sta_lta_ratio", "min_sta_lta_ratio", "components"):
        if not rd.only_param(nm, decide):
            ck.violation("C13.R6", fq, f"{nm} rebound", f"parameter `{nm}` is rebound before the decision", loc=f.loc(decide))
    # the examined series is the component of the current record
    ts_def = [s for s in inner.body if isinstance(s, ast.Assign) and isinstance(s.targets[0], ast.Name) and s.targets[0].id == "timeseries"]
    good = False
    if ts_def:
        v = ts_def[0].value
        good = isinstance(v, ast.Call) and call_name(v) == "getattr" and len(v.args) == 2 and isinstance(v.args[0], ast.Name) \
            and isinstance(v.args[1], ast.Name) and isinstance(inner.target, ast.Name) and v.args[1].id == inner.target.id
        outer = parent_of(inner)
        while outer is not None and not isinstance(outer, ast.For):
            outer = parent_of(outer)
        good = good and outer is not None and isinstance(outer.target, ast.Name) and v.args[0].id == outer.target.id
    if good:
        ck.ok("C13.R6", fq, "timeseries = getattr(record, component)", nontrivial=False)
    else:
        ck.violation("C13.R6", fq, "examined series", "the examined series is not getattr(<current record>, <current component>)", loc=f.loc(inner))


def _r5_r6_max(ck: Checker, prog: Program):
    f = prog.func("window_rejection.maximum_value_window_rejection")
    fq = f.qualname
    amp = sp.Symbol("A", positive=True)

    def hook(name):
        if name == "timeseries.amplitude":
            return amp
        return None
    T = Translator(symbol_hook=hook)
    # per component maximum
    cm = [st for st in own_nodes(f.node) if isinstance(st, ast.Assign) and isinstance(st.targets[0], ast.Name)
          and any(isinstance(x, ast.Attribute) and x.attr == "amplitude" for x in ast.walk(st.value))]
    ck.floor("C13.R5", len(cm), 1, f"statements reading the amplitude in {fq}")
    for st in cm:
        v = T.tr(st.value)
        want = sp.Function("max")(sp.Abs(amp))
        if equal(v, want) or (v.is_Function and v.func.__name__ in ("max", "amax") and equal(v.args[0], sp.Abs(amp))):
            ck.ok("C13.R5", fq, norm_key(st), detail="component statistic = max|x|")
        else:
            ck.violation("C13.R5", fq, norm_key(st), f"component statistic is {v}, not the largest absolute sample max|x|", loc=f.loc(st))
    # running maximum over components: if c > m: m = c
    run_ok = False
    for st in own_nodes(f.node):
        if isinstance(st, ast.If) and isinstance(st.test, ast.Compare) and isinstance(st.test.ops[0], (ast.Gt, ast.GtE)) \
                and len(st.body) == 1 and isinstance(st.body[0], ast.Assign) and not st.orelse:
            a = st.body[0]
            if isinstance(st.test.left, ast.Name) and isinstance(st.test.comparators[0], ast.Name) and isinstance(a.targets[0], ast.Name) \
                    and a.targets[0].id == st.test.comparators[0].id and isinstance(a.value, ast.Name) and a.value.id == st.test.left.id:
                run_ok = True
    if any(call_name(c) == "max" and len(c.args) == 2 for c in calls_in(f.node)):
        run_ok = True
    if run_ok:
        ck.ok("C13.R5", fq, "maximum over the examined components", nontrivial=False)
    else:
        ck.violation("C13.R5", fq, "maximum over the examined components", "the per-window value is not the maximum over the examined components", loc=f.loc())
    # normalisation: guarded by `normalized`, divides by the overall maximum
    norm = [st for st in f.node.body if isinstance(st, ast.If) and isinstance(st.test, ast.Name) and st.test.id == "normalized"]
    if len(norm) != 1:
        ck.violation("C13.R5", fq, "normalisation", "normalisation is not guarded by `if normalized:` exactly once", loc=f.loc())
    else:
        b = norm[0].body
        good = len(b) == 1 and isinstance(b[0], ast.AugAssign) and isinstance(b[0].op, ast.Div) and isinstance(b[0].target, ast.Name)
        if good:
            tv = T.tr(b[0].value)
            tgt = T.sym(b[0].target.id)
            good = (tv.is_Function and tv.func.__name__ in ("max", "amax") and
                    (equal(tv.args[0], tgt) or equal(tv.args[0], sp.Abs(tgt))))
        if good and not norm[0].orelse:
            ck.ok("C13.R5", fq, norm_key(b[0]), detail="values divided by their overall maximum (degree 0)")
        else:
            ck.violation("C13.R5", fq, "normalisation", "the normalised values are not value / max(all values)", loc=f.loc(norm[0]))
    # decision
    loop = _record_loop(f, "passing_records")
    if loop is None:
        raise AnalysisError(f"{fq}: decision loop not found")
    dec = [st for st in loop.body if isinstance(st, ast.If)]
    if len(dec) != 1:
        raise AnalysisError(f"{fq}: decision `if` not found")
    d = dec[0]
    cond = _canon_rel(T.tr(d.test))
    true_keeps = any(call_name(c) == "append" and c.args and isinstance(c.args[0], ast.Constant) and c.args[0].value is True
                     for b in d.body for c in calls_in(b))
    thr = T.sym("maximum_value_threshold")
    # value variable comes from the zip over the (normalised) values
    val = None
    if isinstance(loop.iter, ast.Call) and call_name(loop.iter) == "zip" and isinstance(loop.target, ast.Tuple):
        for a, t in zip(loop.iter.args, loop.target.elts):
            if isinstance(a, ast.Name) and a.id != "records" and isinstance(t, ast.Name):
                val = T.sym(t.id)
    good = False
    if val is not None:
        if true_keeps and isinstance(cond, sp.Gt) and equal(cond.lhs, thr) and equal(cond.rhs, val):
            good = True
        if (not true_keeps) and isinstance(cond, sp.Ge) and equal(cond.lhs, val) and equal(cond.rhs, thr):
            good = True
    if good and reaching(f).only_param("maximum_value_threshold", d):
        ck.ok("C13.R6", fq, norm_key(d), detail="keep iff value < maximum_value_threshold")
    else:
        ck.violation("C13.R6", fq, norm_key(d), f"decision is {cond} (true branch keeps: {true_keeps}); expected keep iff value < threshold",
                     loc=f.loc(d))
