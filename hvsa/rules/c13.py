"""C13 - time-domain rejection keeps exactly the windows that satisfy the criterion."""
from __future__ import annotations

import ast
from typing import Dict, List, Optional, Tuple

import sympy as sp

from ..astutil import call_name, calls_in, own_nodes, unparse, kwarg, dotted
from ..cfg import cfg_of, events_per_iteration
from ..dataflow import reaching, loop_carried
from ..expr import Translator, forward_substitute, degree, equal
from ..model import AnalysisError, Program, norm_key, parent_of
from ..report import Checker
from .common import engine, group_effects, describe_effect, chain_text

EXPLANATION = (
    "For sta_lta_window_rejection and maximum_value_window_rejection: (R1) effect analysis - `records` is not "
    "mutated and the returned list holds the loop elements themselves (origin records[*], no copies); (R2) CFG "
    "event counting per iteration of the per-record loop - exactly one mask entry is appended, True exactly on "
    "the paths that append the record, entries are boolean literals; (R3) both masks of the attached HVSR "
    "object (every azimuth) are assigned from that same list and every path to the return evaluates the "
    "`hvsr is not None` propagation; (R4) no name read in the per-record loop carries a value from a previous "
    "iteration (decision depends on that window only; the normalised maximum is the designed exception); "
    "(R5) the decision expressions are homogeneous of degree 0 in a common amplitude factor (structural degree "
    "inference) and the per-window statistic is max|x|; (R6) the reject test is max(STA/LTA) > max_ratio or "
    "min(STA/LTA) < min_ratio (keep verdict monotone in the limits) and maximum-value keeps iff value < "
    "threshold. Not decided: sample counts per STA chunk for time steps that are not binary fractions.")

RULES = {
    "C13.R1": "records is not mutated; the returned list contains the records themselves in iteration order",
    "C13.R2": "per record exactly one mask entry; True iff the record is appended to the result; boolean literals",
    "C13.R3": "both masks, every azimuth, same list; propagation evaluated on every path to the return",
    "C13.R4": "no loop-carried state between windows",
    "C13.R5": "decision statistics are degree 0 under a common rescaling; per-window statistic is max|x|",
    "C13.R6": "reject iff max ratio > max limit or min ratio < min limit; max-value keeps iff value < threshold",
}

FUNCS = ["window_rejection.sta_lta_window_rejection", "window_rejection.maximum_value_window_rejection"]
MASKS = ("valid_window_boolean_mask", "valid_peak_boolean_mask")


def run(ck: Checker, prog: Program, tier: str):
    eng = engine(prog)
    for fq in FUNCS:
        f = prog.func(fq)
        if "records" not in f.params or "hvsr" not in f.params:
            raise AnalysisError(f"{fq}: expected parameters records and hvsr")
        ri = f.params.index("records")
        s = eng.summary(f)
        # ------------------------------------------------------------- R1
        effs = [e for e in s.effects if e.origin[0] == "P" and e.origin[1] == ri]
        if not effs:
            ck.ok("C13.R1", fq, "no effect on `records`")
        for (func, text), es in group_effects(prog, effs).items():
            ck.violation("C13.R1", func, text, f"{fq} mutates the windows it examines: {describe_effect(es[0])}",
                         loc=es[0].chain[0].loc, path=chain_text(es[0]))
        ret = s.ret
        elem_origins = set()
        fresh_lists = [o for o in ret.origins if o[0] == "F"]
        for o in fresh_lists:
            hv = s.heap.get((o, "[]"))
            if hv is not None:
                elem_origins |= set(hv[0].origins)
        want = {("P", ri, ("[]",))}
        if ret.origins and all(o[0] == "F" for o in ret.origins) and elem_origins == want:
            ck.ok("C13.R1", fq, "returned list elements have origin records[*] (same objects)")
        else:
            ck.violation("C13.R1", fq, "return value",
                         f"the returned list does not hold exactly the given window objects "
                         f"(list origins {sorted(map(str, ret.origins))}, element origins {sorted(map(str, elem_origins))})",
                         loc=f.loc())
        # ------------------------------------------------------------- R3 (find mask var) then R2
        got = ck.guard(_r3, ck, prog, f)
        mask_var, pass_var = got if got else (None, None)
        if mask_var is None:
            continue
        ck.guard(_r2, ck, f, mask_var, pass_var, prog)
        ck.guard(_r4, ck, f, mask_var, pass_var)
    ck.guard(_r5_r6_sta, ck, prog)
    ck.guard(_r5_r6_max, ck, prog)
    # the per-window statistics are compared with the thresholds in double precision: no buffer of reduced precision / integer type
    from .c15 import FLOATISH
    n_dt = 0
    for fq in FUNCS:
        f = prog.func(fq)
        for c in calls_in(f.node):
            dt = kwarg(c, "dtype")
            if dt is None and call_name(c) == "astype" and c.args:
                dt = c.args[0]
            if dt is None:
                continue
            n_dt += 1
            txt = unparse(dt)
            if txt in FLOATISH or txt in ("bool", "np.bool_", "numpy.bool_"):
                ck.ok("C13.R5", fq, f"{norm_key(c, 60)}: {txt}", nontrivial=False)
            else:
                ck.violation("C13.R5", fq, norm_key(c, 80), f"`{norm_key(c, 70)}` holds the per-window values as {txt}: a value just below the threshold is rounded onto it "
                             f"(or truncated) and the window is rejected / kept wrongly", loc=f.loc(c))
    # "ends with accept masks equal to that selection": assigning a mask stores that mask
    from . import statscommon as _S
    ck.guard(_S.check_mask_properties, ck, prog, "C13.R3")
    from .common import check_identity_comparisons as _cic
    ck.guard(_cic, ck, prog, "C13.R1", "C13")


# --------------------------------------------------------------------------- R3
def _r3(ck: Checker, prog: Program, f) -> Tuple[Optional[str], Optional[str]]:
    """Decision table of the propagation tail: no result object -> nothing; HvsrTraditional -> both masks of the object;
    HvsrAzimuthal -> both masks of every member; anything else raises.  Every store is a fresh np.array of the one decision list."""
    from ..pathtable import PathTable, literals, same_rel, negate
    fq = f.qualname
    cfg = cfg_of(f)

    def has_mask_store(st):
        return any(isinstance(x, ast.Assign) and any(isinstance(t, ast.Attribute) and t.attr in MASKS for t in x.targets) for x in ast.walk(st))
    idx = [i for i, st in enumerate(f.node.body) if has_mask_store(st)]
    if not idx:
        ck.violation("C13.R3", fq, "mask propagation", "the decisions are never stored on the result object (no store to the accept masks)", loc=f.loc())
        return None, None
    first = f.node.body[idx[0]]
    tail = f.node.body[idx[0]:]
    path = cfg.path_avoiding(cfg.entry, cfg.exit, [cfg.node(first)])
    if path is not None:
        ck.violation("C13.R3", fq, "mask propagation reached on every path",
                     "there is a path to the return that skips the mask propagation", loc=f.loc(first), path=cfg.describe_path(path)[:14])
    else:
        ck.ok("C13.R3", fq, "every path to the return evaluates the mask propagation")
    if not reaching(f).only_param("hvsr", first):
        ck.violation("C13.R3", fq, "hvsr rebound", "`hvsr` is rebound before the propagation", loc=f.loc(first))
    R = lambda n: sp.Symbol(n, real=True)   # noqa: E731
    H, NONE = R("hvsr"), sp.Symbol("None")
    truth, isin = sp.Function("truth"), sp.Function("isinstance")
    is_none = sp.Eq(H, NONE, evaluate=False)
    is_trad = sp.Eq(truth(isin(H, R("HvsrTraditional"))), sp.true, evaluate=False)
    is_az = sp.Eq(truth(isin(H, R("HvsrAzimuthal"))), sp.true, evaluate=False)
    pt = PathTable(prog, f.module, structured=True)
    leaves = pt.leaves(tail)

    def case(l, rel):
        ls = literals(l)
        if any(same_rel(x, rel) for x in ls):
            return True
        if any(same_rel(x, negate(rel)) for x in ls):
            return False
        return None
    mask_vars = set()
    seen = {"none": False, "trad": False, "az": False, "other": False}
    attr = lambda a, o: sp.Function("attr_" + a)(o)   # noqa: E731

    def fresh_array_of(st: ast.Assign) -> Optional[str]:
        v = st.value
        if isinstance(v, ast.Call) and isinstance(v.func, ast.Attribute) and v.func.attr == "copy" and not v.args and isinstance(v.func.value, ast.Name):
            # <array>.copy() of a local that is np.array(<decision list>), bound once: a fresh array of the list
            defs_ = [d for d in own_nodes(f.node) if isinstance(d, ast.Assign) and len(d.targets) == 1 and isinstance(d.targets[0], ast.Name) and d.targets[0].id == v.func.value.id]
            if len(defs_) == 1:
                v = defs_[0].value
        if isinstance(v, ast.Call) and dotted(v.func) in ("np.array", "numpy.array", "np.copy", "numpy.copy") and v.args and isinstance(v.args[0], ast.Name):
            dt = kwarg(v, "dtype")
            if dt is not None and unparse(dt) not in ("bool", "np.bool_", "numpy.bool_"):
                ck.violation("C13.R3", fq, norm_key(st), f"mask stored with dtype {unparse(dt)}", loc=f.loc(st))
            return v.args[0].id
        return None
    for l in leaves:
        # stores on `hvsr` itself and inside loops over its members
        targets: Dict[Tuple[str, str], int] = {}
        problems = []
        for e in l.events:
            if e[0] == "store" and isinstance(e[3], ast.Assign) and isinstance(e[3].targets[0], ast.Attribute) and e[3].targets[0].attr in MASKS:
                obj = pt._T(l.env).tr(e[3].targets[0].value) if False else None
                tv = e[3].targets[0].value
                who = "hvsr" if isinstance(tv, ast.Name) and tv.id == "hvsr" else unparse(tv)
                targets[(who, e[3].targets[0].attr)] = targets.get((who, e[3].targets[0].attr), 0) + 1
                mv = fresh_array_of(e[3])
                if mv is None:
                    problems.append(f"`{norm_key(e[3], 70)}` does not store a fresh array of the decision list")
                else:
                    mask_vars.add(mv)
            elif e[0] == "loop" and has_mask_store(e[3]):
                lp = e[3]
                env0 = l.snaps[id(lp)][0]
                if not isinstance(lp, ast.For) or not isinstance(lp.target, ast.Name) or any(isinstance(x, (ast.Break, ast.Continue, ast.If)) for x in ast.walk(lp)):
                    problems.append(f"`{norm_key(lp, 50)}` may skip members")
                    continue
                T0 = Translator(env=env0)
                T0.structured = True
                T0.attr_of_bound = True
                seq = T0.tr(lp.iter)
                who = "each of hvsr.hvsrs" if seq == attr("hvsrs", H) else ("hvsr" if seq == sp.Tuple(H) else f"each of {seq}")
                for st in lp.body:
                    if isinstance(st, ast.Assign) and isinstance(st.targets[0], ast.Attribute) and st.targets[0].attr in MASKS:
                        if not (isinstance(st.targets[0].value, ast.Name) and st.targets[0].value.id == lp.target.id):
                            problems.append(f"`{norm_key(st, 60)}` does not write the loop's member")
                        targets[(who, st.targets[0].attr)] = targets.get((who, st.targets[0].attr), 0) + 1
                        mv = fresh_array_of(st)
                        if mv is None:
                            problems.append(f"`{norm_key(st, 70)}` does not store a fresh array of the decision list")
                        else:
                            mask_vars.add(mv)
        n_, t_, a_ = case(l, is_none), case(l, is_trad), case(l, is_az)
        both = lambda who: {(who, m): 1 for m in MASKS}   # noqa: E731
        if n_ is True:
            seen["none"] = True
            if targets:
                ck.violation("C13.R3", fq, "propagation without a result object", f"masks are written although no result object was given: {sorted(targets)}", loc=f.loc(first))
        elif t_ is True:
            seen["trad"] = True
            if targets == both("hvsr") and not problems:
                ck.ok("C13.R3", fq, "propagation for HvsrTraditional", detail="both masks assigned")
            else:
                ck.violation("C13.R3", fq, "propagation for HvsrTraditional", f"masks assigned {sorted(targets.items())}; {'; '.join(problems)}", loc=f.loc(first))
        elif a_ is True:
            seen["az"] = True
            if targets == both("each of hvsr.hvsrs") and not problems:
                ck.ok("C13.R3", fq, "propagation for HvsrAzimuthal", detail="both masks assigned for every azimuth")
            else:
                ck.violation("C13.R3", fq, "propagation for HvsrAzimuthal", f"masks assigned {sorted(targets.items())}; {'; '.join(problems)}", loc=f.loc(first))
        else:
            seen["other"] = True
            if l.exit != "raise":
                if n_ is None and t_ is None and a_ is None:
                    # the path is taken for a given result object whenever a condition on the data holds (`hvsr is None or <data test>`): the
                    # object is then left with the masks of an earlier selection
                    data_only = []
                    for x in literals(l):
                        if isinstance(x, sp.Not) and isinstance(x.args[0], sp.And):
                            x = sp.Or(*[negate(a) for a in x.args[0].args], evaluate=False)
                        if isinstance(x, sp.Or) and any(same_rel(a, is_none) for a in x.args):
                            rest = [a for a in x.args if not same_rel(a, is_none)]
                            if rest and not any(H in a.free_symbols for a in rest):
                                data_only.append(sp.Or(*rest) if len(rest) > 1 else rest[0])
                    lits_ = literals(l)
                    if not data_only and not targets and lits_ and not any(H in getattr(x, "free_symbols", set()) for x in lits_):
                        data_only = [lits_[-1]]         # a condition on the data alone decides that nothing is written
                    if data_only and not targets:
                        ck.violation("C13.R3", fq, "propagation skipped for a given result object",
                                     f"when {data_only[0]} the function returns without writing the masks of the result object it was given: the object keeps "
                                     f"the masks of an earlier selection", loc=f.loc(first))
                        continue
                    raise AnalysisError(f"{fq}: a path of the mask propagation does not test the type of `hvsr` ({l.cond()})")
                ck.violation("C13.R3", fq, "else branch", "unsupported HVSR types are not refused", loc=f.loc(first))
    for k, need in (("trad", "HvsrTraditional"), ("az", "HvsrAzimuthal")):
        if not seen[k]:
            ck.violation("C13.R3", fq, f"propagation for {need}", f"no branch for {need}", loc=f.loc(first))
    if len(mask_vars) != 1:
        ck.violation("C13.R3", fq, "single decision list", f"the masks are assigned from different values: {sorted(mask_vars)}", loc=f.loc(first))
        return None, None
    mask_var = next(iter(mask_vars))
    rets = [r for r in own_nodes(f.node) if isinstance(r, ast.Return)]
    pass_var = None
    for r in rets:
        if isinstance(r.value, ast.Name):
            pass_var = r.value.id
    if pass_var is None:
        raise AnalysisError(f"{fq}: the function does not return a named list")
    return mask_var, pass_var


# --------------------------------------------------------------------------- R2
def _record_loop(f, pass_var: str):
    """The loop over records in which the result list is appended."""
    for st in own_nodes(f.node):
        if isinstance(st, ast.For):
            for c in calls_in(st, "append"):
                if isinstance(c.func.value, ast.Name) and c.func.value.id == pass_var:
                    # outermost enclosing for at function level
                    top = st
                    p = parent_of(st)
                    while p is not None and p is not f.node:
                        if isinstance(p, ast.For):
                            top = p
                        p = parent_of(p)
                    return top
    return None


def _loop_verdicts(f, mask_var: str, pass_var: str):
    """One pass of the per-record loop as a decision table.  Returns (loop, REC, rows) with one row per complete pass:
    dict(leaf, verdict (True/False/None = not a decided boolean), n_mask, n_pass, pass_ok, other, exit)."""
    from ..pathtable import PathTable, literals, same_rel, negate
    loop = _record_loop(f, pass_var)
    if loop is None:
        return None
    top = [l for l in PathTable(None, f.module, unroll=True).leaves(f.node.body) if id(loop) in l.snaps]
    if not top:
        raise AnalysisError(f"{f.qualname}: the per-record loop is not reached")
    env = dict(top[0].snaps[id(loop)][0])
    MASK, PASS, REC = sp.Symbol(mask_var, real=True), sp.Symbol(pass_var, real=True), sp.Symbol("<record>", real=True)
    env[mask_var], env[pass_var] = MASK, PASS
    rec_var = _rec_var(loop)
    if rec_var is None:
        raise AnalysisError(f"{f.qualname}: the record variable of the per-record loop was not identified")
    env[rec_var] = REC
    for nm in [n.id for n in ast.walk(loop.target) if isinstance(n, ast.Name) and n.id != rec_var]:
        env[nm] = sp.Symbol(f"<{nm}>", real=True)
    leaves = PathTable(None, f.module, env=env, unroll=True, search_loops=True).leaves(loop.body)
    rows = []
    for l in leaves:
        if l.exit == "raise":
            continue
        lits = literals(l)
        mask_vals, n_pass, pass_ok, other = [], 0, True, 0
        for e in l.events:
            v = e[2]
            fn = getattr(getattr(v, "func", None), "__name__", "")
            if e[0] == "call" and fn == "append" and v.args[0] == MASK:
                mask_vals.append(v.args[1])
            elif e[0] == "call" and fn == "append" and v.args[0] == PASS:
                n_pass += 1
                pass_ok = pass_ok and v.args[1] == REC
            elif e[0] == "call" and hasattr(v, "args") and v.args and v.args[0] in (MASK, PASS):
                other += 1
            elif e[0] == "store" and e[1].split("[")[0].split(".")[0] in (mask_var, pass_var):
                other += 1
        if l.env.get(mask_var) != MASK or l.env.get(pass_var) != PASS:
            other += 1
        verdict = None
        conds, cond_nodes = list(l.conds), list(l.cond_nodes)
        expanded = None
        if len(mask_vals) == 1:
            V = mask_vals[0]
            truthV = sp.Eq(sp.Function("truth")(V), sp.true, evaluate=False)
            if V in (sp.true, sp.false):
                verdict = bool(V)
            elif isinstance(V, (sp.core.relational.Relational, sp.And, sp.Or, sp.Not)):
                if any(same_rel(x, V) for x in lits):
                    verdict = True
                elif any(same_rel(x, negate(V)) for x in lits):
                    verdict = False
            elif any(same_rel(x, truthV) for x in lits):
                verdict = True
            elif any(same_rel(x, negate(truthV)) for x in lits):
                verdict = False
            # a verdict computed by a nested function of this routine: its own table says when it is True / False
            g = f.module and getattr(getattr(V, "func", None), "__name__", "")
            nested = [h for h in ast.walk(f.node) if isinstance(h, ast.FunctionDef) and h is not f.node and h.name == g] if g else []
            if verdict is not None and len(nested) == 1 and list(V.args) == [REC] and len(nested[0].args.args) == 1:
                h = nested[0]
                genv = dict(env)
                genv[h.args.args[0].arg] = REC
                gl = PathTable(None, f.module, env=genv, unroll=True, search_loops=True).leaves([b for b in h.body if not (isinstance(b, ast.Expr) and isinstance(b.value, ast.Constant))])
                expanded = []
                for x in gl:
                    if x.exit == "raise":
                        continue
                    if x.exit != "return" or x.value not in (sp.true, sp.false):
                        expanded = None
                        break
                    if bool(x.value) == verdict:
                        expanded.append(x)
        base = dict(leaf=l, verdict=verdict, n_mask=len(mask_vals), n_pass=n_pass, pass_ok=pass_ok, other=other, exit=l.exit, lits=lits)
        if expanded:
            for x in expanded:
                rows.append(dict(base, conds=conds + list(x.conds), cond_nodes=cond_nodes + list(x.cond_nodes)))
        else:
            rows.append(dict(base, conds=conds, cond_nodes=cond_nodes))
    return loop, REC, rows


def _rec_var(loop: ast.For) -> Optional[str]:
    tgt, it = loop.target, loop.iter
    if isinstance(tgt, ast.Name):
        return tgt.id
    if isinstance(tgt, ast.Tuple):
        if isinstance(it, ast.Call) and call_name(it) == "zip":
            for a, t in zip(it.args, tgt.elts):
                if isinstance(a, ast.Name) and a.id == "records" and isinstance(t, ast.Name):
                    return t.id
        elif isinstance(it, ast.Call) and call_name(it) == "enumerate" and len(tgt.elts) == 2 and isinstance(tgt.elts[1], ast.Name):
            return tgt.elts[1].id
    return None


def _r2(ck: Checker, f, mask_var: str, pass_var: str, prog: Optional[Program] = None):
    """Primary: decision table of one pass of the per-record loop (flags, for/else, early `continue` are all the same table).
    Fallback when a verdict is not a decided boolean on some path: CFG event counting of literal appends."""
    fq = f.qualname
    try:
        got = _loop_verdicts(f, mask_var, pass_var)
    except AnalysisError:
        got = "fallback"
    if got is None or got == "fallback" or any(r["verdict"] is None and r["n_mask"] == 1 for r in got[2]):
        return _r2_cfg(ck, f, mask_var, pass_var, prog)
    loop, REC, rows = got
    it = loop.iter
    names = {n.id for n in ast.walk(it) if isinstance(n, ast.Name)}
    if "records" not in names or any(call_name(c) in ("reversed", "sorted") for c in calls_in(it)) \
            or any(isinstance(x, ast.Slice) for x in ast.walk(it)):
        ck.violation("C13.R2", fq, norm_key(loop), "the per-record loop does not visit `records` in their given order", loc=f.loc(loop))
    bad = []
    for r in rows:
        if r["exit"] not in ("fall", "continue"):
            bad.append(f"a pass of the loop ends the loop early ({r['exit']})")
        elif r["n_mask"] != 1:
            bad.append(f"a pass of the loop appends {r['n_mask']} mask entries")
        elif r["other"]:
            bad.append("a pass of the loop writes the lists other than by one append each")
        elif r["verdict"] and not (r["n_pass"] == 1 and r["pass_ok"]):
            bad.append(f"verdict True but the record is appended x{r['n_pass']}" + ("" if r["pass_ok"] else " (not the record itself)"))
        elif not r["verdict"] and r["n_pass"] != 0:
            bad.append(f"verdict False but the record is kept")
    if not rows:
        ck.violation("C13.R2", fq, norm_key(loop), "no complete iteration path found", loc=f.loc(loop))
    elif bad:
        ck.violation("C13.R2", fq, norm_key(loop), "an iteration of the per-record loop can end with " + "; ".join(sorted(set(bad))[:3]) +
                     " - expected exactly (True & kept) or (False & not kept)", loc=f.loc(loop))
    else:
        ck.ok("C13.R2", fq, norm_key(loop), detail=f"{len(rows)} passes: one boolean per record; kept exactly when True")
    _list_hygiene(ck, f, loop, mask_var, pass_var)


def _r2_cfg(ck: Checker, f, mask_var: str, pass_var: str, prog: Optional[Program] = None):
    fq = f.qualname
    cfg = cfg_of(f)
    loop = _record_loop(f, pass_var)
    if loop is None:
        fb = _comprehension_form(f, mask_var, pass_var, prog)
        if fb is None:
            raise AnalysisError(f"{fq}: construction of `{mask_var}` / `{pass_var}` not recognised (neither an append loop nor an element-wise decision over per-record values)")
        problems = fb["problems"]
        if not problems:
            ck.ok("C13.R2", fq, f"{mask_var} = [<decision> for each per-record value]; {pass_var} = [record for record, keep in zip(records, {mask_var}) if keep]",
                  detail="one boolean per record, in order; kept records are exactly those whose entry is True")
        else:
            ck.violation("C13.R2", fq, "per-record decisions", "; ".join(problems), loc=f.loc())
        return
    # loop must iterate over records (possibly zipped) in order
    it = loop.iter
    names = {n.id for n in ast.walk(it) if isinstance(n, ast.Name)}
    if "records" not in names or any(call_name(c) in ("reversed", "sorted") for c in calls_in(it)) \
            or any(isinstance(x, ast.Slice) for x in ast.walk(it)):
        ck.violation("C13.R2", fq, norm_key(loop), "the per-record loop does not visit `records` in their given order", loc=f.loc(loop))
    rec_var = None
    tgt = loop.target
    if isinstance(tgt, ast.Name):
        rec_var = tgt.id
    elif isinstance(tgt, ast.Tuple):
        # zip(records, x) / enumerate(records)
        if isinstance(it, ast.Call) and call_name(it) == "zip":
            for a, t in zip(it.args, tgt.elts):
                if isinstance(a, ast.Name) and a.id == "records" and isinstance(t, ast.Name):
                    rec_var = t.id
        elif isinstance(it, ast.Call) and call_name(it) == "enumerate" and len(tgt.elts) == 2 and isinstance(tgt.elts[1], ast.Name):
            rec_var = tgt.elts[1].id
    EV_TRUE, EV_FALSE, EV_PASS, EV_OTHER = 0, 1, 2, 3

    def classify(n: int) -> Optional[int]:
        a = cfg.ast_of(n)
        if a is None or cfg.kind(n) != "stmt":
            return None
        for c in calls_in(a):
            if isinstance(c.func, ast.Attribute) and isinstance(c.func.value, ast.Name):
                if c.func.value.id == mask_var:
                    if c.func.attr == "append" and len(c.args) == 1 and isinstance(c.args[0], ast.Constant) \
                            and c.args[0].value is True:
                        return EV_TRUE
                    if c.func.attr == "append" and len(c.args) == 1 and isinstance(c.args[0], ast.Constant) \
                            and c.args[0].value is False:
                        return EV_FALSE
                    return EV_OTHER
                if c.func.value.id == pass_var:
                    if c.func.attr == "append" and len(c.args) == 1 and isinstance(c.args[0], ast.Name) \
                            and c.args[0].id == rec_var:
                        return EV_PASS
                    return EV_OTHER
        if isinstance(a, (ast.Assign, ast.AugAssign)):
            tg = a.targets if isinstance(a, ast.Assign) else [a.target]
            for t in tg:
                for x in ast.walk(t):
                    if isinstance(x, ast.Name) and x.id in (mask_var, pass_var):
                        return EV_OTHER
        return None
    res = events_per_iteration(cfg, loop, classify, 4)
    allowed = {(1, 0, 1, 0), (0, 1, 0, 0)}
    bad = res - allowed
    if not res:
        ck.violation("C13.R2", fq, norm_key(loop), "no complete iteration path found", loc=f.loc(loop))
    elif bad:
        expl = []
        for b in sorted(bad):
            expl.append(f"(mask True x{b[0]}, mask False x{b[1]}, record kept x{b[2]}, other writes x{b[3]})")
        ck.violation("C13.R2", fq, norm_key(loop),
                     "an iteration of the per-record loop can end with " + "; ".join(expl) +
                     " - expected exactly (True & kept) or (False & not kept)", loc=f.loc(loop))
    else:
        ck.ok("C13.R2", fq, norm_key(loop), detail=f"iteration outcomes {sorted(res)}")
    _list_hygiene(ck, f, loop, mask_var, pass_var)


def _list_hygiene(ck: Checker, f, loop, mask_var: str, pass_var: str):
    fq = f.qualname
    cfg = cfg_of(f)
    # the lists start empty and are not touched elsewhere
    for var in (mask_var, pass_var):
        inits = [st for st in own_nodes(f.node) if isinstance(st, ast.Assign) and any(isinstance(t, ast.Name) and t.id == var for t in st.targets)]
        if len(inits) != 1 or not (isinstance(inits[0].value, ast.List) and not inits[0].value.elts) or parent_of(inits[0]) is not f.node:
            ck.violation("C13.R2", fq, f"{var} initialisation", f"`{var}` is not initialised exactly once as an empty list before the loop", loc=f.loc())
        else:
            ck.ok("C13.R2", fq, f"{var} = []", nontrivial=False)
        for st in own_nodes(f.node):
            if isinstance(st, ast.stmt) and cfg.kind(cfg.node(st)) == "stmt" if cfg.node(st) is not None else False:
                inside = False
                p = st
                while p is not None:
                    if p is loop:
                        inside = True
                    p = parent_of(p)
                if not inside and st not in inits:
                    for c in calls_in(st):
                        if isinstance(c.func, ast.Attribute) and isinstance(c.func.value, ast.Name) and c.func.value.id == var \
                                and c.func.attr in ("append", "pop", "insert", "remove", "extend", "clear", "reverse", "sort"):
                            ck.violation("C13.R2", fq, norm_key(st), f"`{var}` is modified outside the per-record loop", loc=f.loc(st))


def _mask_pass_names(f):
    """(decision list name, returned list name) from the mask stores and the return statement."""
    mv = set()
    for st in ast.walk(f.node):
        if isinstance(st, ast.Assign) and any(isinstance(t, ast.Attribute) and t.attr in MASKS for t in st.targets):
            v = st.value
            if isinstance(v, ast.Call) and isinstance(v.func, ast.Attribute) and v.func.attr == "copy" and not v.args and isinstance(v.func.value, ast.Name):
                defs_ = [d for d in own_nodes(f.node) if isinstance(d, ast.Assign) and len(d.targets) == 1 and isinstance(d.targets[0], ast.Name) and d.targets[0].id == v.func.value.id]
                if len(defs_) == 1:
                    v = defs_[0].value          # <array>.copy() of np.array(<decision list>)
            if isinstance(v, ast.Call) and v.args and isinstance(v.args[0], ast.Name):
                mv.add(v.args[0].id)
    rets = [r for r in own_nodes(f.node) if isinstance(r, ast.Return) and isinstance(r.value, ast.Name)]
    if len(mv) != 1 or not rets:
        return None
    return next(iter(mv)), rets[-1].value.id


def _comprehension_form(f, mask_var: str, pass_var: str, prog: Optional[Program] = None):
    """Loop-free construction, by value: the decision list is D applied to every element of a sequence S that holds one value
    per record (a comprehension, or a vectorised comparison turned into a list), and the kept records are those whose entry is
    True (selected through the decision list itself, or by re-evaluating D on the same S)."""
    from ..resolve import Resolver
    rets = [r for r in own_nodes(f.node) if isinstance(r, ast.Return)]
    if not rets:
        return None
    RR = Resolver(prog, f, inline=False)
    load = lambda nm: ast.Name(id=nm, ctx=ast.Load())   # noqa: E731
    try:
        mv, pv = RR.value(load(mask_var), rets[-1]), RR.value(load(pass_var), rets[-1])
    except AnalysisError:
        return None
    fn = lambda e: getattr(getattr(e, "func", None), "__name__", "")   # noqa: E731
    X = sp.Symbol("<value>", real=True)
    rel_types = (sp.Gt, sp.Ge, sp.Lt, sp.Le)
    params = {sp.Symbol(p_, real=True) for p_ in f.params}
    D = S = None
    problems = []
    if fn(mv) in ("list", "tuple") and len(mv.args) == 1:
        mv_in = mv.args[0]
    else:
        mv_in = mv
    if fn(mv_in) == "comp" and len(mv_in.args) == 2 and fn(mv_in.args[1]) == "gen" and len(mv_in.args[1].args) == 2:
        var, S = mv_in.args[1].args
        elt = mv_in.args[0]
        if isinstance(elt, sp.Piecewise) and len(elt.args) == 2 and elt.args[0][0] == sp.true and elt.args[1][0] == sp.false:
            elt = elt.args[0][1]
        if fn(elt) in ("bool", "bool_", "truth") and len(elt.args) == 1:
            elt = elt.args[0]
        if isinstance(elt, rel_types):
            D = type(elt)(elt.lhs.xreplace({var: X}), elt.rhs.xreplace({var: X}), evaluate=False)
        else:
            problems.append(f"a mask entry is `{elt}`, not a boolean decision")
    elif fn(mv_in) == "tolist" and len(mv_in.args) == 1 and isinstance(mv_in.args[0], rel_types):
        rel = mv_in.args[0]
        sides = [x for x in (rel.lhs, rel.rhs) if not (x.free_symbols <= params)]
        if len(sides) != 1:
            return None
        S = sides[0]
        D = type(rel)(X if rel.lhs == S else rel.lhs, X if rel.rhs == S else rel.rhs, evaluate=False)
    else:
        return None
    # the kept records
    okp = False
    if fn(pv) in ("list", "tuple") and len(pv.args) == 1:
        pv = pv.args[0]         # list(<generator>) holds the generator's values in order
    if fn(pv) == "comp" and len(pv.args) == 2 and fn(pv.args[1]) == "gen" and len(pv.args[1].args) == 3:
        var, seq, cnd = pv.args[1].args
        item = sp.Function("item")
        first, second = item(var, sp.Integer(0)), item(var, sp.Integer(1))
        if pv.args[0] == first and fn(seq) == "zip" and len(seq.args) == 2 and seq.args[0] == sp.Symbol("records", real=True):
            if fn(cnd) == "truth":
                cnd = cnd.args[0]
            if seq.args[1] == mv and cnd in (second, sp.Eq(second, sp.true, evaluate=False)):
                okp = True
            elif D is not None and seq.args[1] == S and isinstance(cnd, rel_types) and \
                    type(cnd)(cnd.lhs.xreplace({second: X}), cnd.rhs.xreplace({second: X}), evaluate=False) == D:
                okp = True
    if not okp:
        problems.append(f"`{pass_var}` ({pv}) is not the records whose decision is True, in order")
    # S holds one value per record, in order
    aligned = False
    REC = sp.Symbol("records", real=True)
    if S == REC:
        aligned = True
    elif fn(S) in ("comp",) and len(S.args) == 2 and fn(S.args[1]) == "gen" and len(S.args[1].args) == 2 and S.args[1].args[1] == REC:
        aligned = True
    elif getattr(S, "is_Symbol", False):
        for lp in [st for st in f.node.body if isinstance(st, ast.For)]:
            if unparse(lp.iter) == "enumerate(records)" and isinstance(lp.target, ast.Tuple) and len(lp.target.elts) == 2:
                ix = unparse(lp.target.elts[0])
                stores = [x for x in ast.walk(lp) if isinstance(x, ast.Assign) and isinstance(x.targets[0], ast.Subscript)
                          and unparse(x.targets[0].value) == S.name and unparse(x.targets[0].slice) == ix]
                if len(stores) == 1 and not any(isinstance(x, (ast.Break, ast.Continue)) for x in ast.walk(lp) if _loop_of(x) is lp):
                    aligned = True
    if not aligned and getattr(S, "is_Symbol", False) and not any(
            isinstance(x, (ast.Break, ast.Continue)) for lp in f.node.body if isinstance(lp, ast.For) for x in ast.walk(lp)):
        raise AnalysisError(f"{f.qualname}: how `{S}` is filled (one value per record, in order) is not recognised")
    if not aligned:
        problems.append(f"the decisions are taken over `{S}`, which is not known to hold one value per record in order")
    site = None
    for st in f.node.body:
        if isinstance(st, ast.Assign) and any(isinstance(t, ast.Name) and t.id == mask_var for t in st.targets):
            site = st
    return {"problems": problems, "decision": D, "value": X, "values": S, "site": site if site is not None else rets[-1]}


def _loop_of(node):
    p = parent_of(node)
    while p is not None and not isinstance(p, (ast.For, ast.While)):
        p = parent_of(p)
    return p


# --------------------------------------------------------------------------- R4
def _r4(ck: Checker, f, mask_var: str, pass_var: str):
    fq = f.qualname
    loops = [st for st in f.node.body if isinstance(st, ast.For)]
    n = 0
    for loop in loops:
        names = {x.id for x in ast.walk(loop.iter) if isinstance(x, ast.Name)}
        if "records" not in names:
            continue
        n += 1
        carried = loop_carried(f, loop, ignore={mask_var, pass_var})
        if not carried:
            ck.ok("C13.R4", fq, norm_key(loop), detail="no loop-carried definitions")
        for (nm, use, d) in carried:
            ck.violation("C13.R4", fq, f"{nm} <- {norm_key(d, 80)}",
                         f"`{nm}` read at line {use.lineno} may still hold the value assigned for a previous window "
                         f"(`{norm_key(d, 60)}`): the decision for a window would depend on other windows", loc=f.loc(use))
    ck.floor("C13.R4", n, 1, f"per-record loops in {fq}")


# --------------------------------------------------------------------------- R5/R6
def _canon_rel(r):
    """Canonicalise a relation to Gt/Ge(lhs, rhs)."""
    if isinstance(r, sp.Lt):
        return sp.Gt(r.rhs, r.lhs, evaluate=False)
    if isinstance(r, sp.Le):
        return sp.Ge(r.rhs, r.lhs, evaluate=False)
    return r


def _r5_r6_sta(ck: Checker, prog: Program):
    f = prog.func("window_rejection.sta_lta_window_rejection")
    fq = f.qualname
    names = _mask_pass_names(f)
    if names is None:
        raise AnalysisError(f"{fq}: decision list / returned list not identified")
    got = _loop_verdicts(f, *names)
    if got is None:
        raise AnalysisError(f"{fq}: per-record loop not found")
    loop, REC, rows = got
    rej = [r for r in rows if r["verdict"] is False]
    keep = [r for r in rows if r["verdict"] is True]
    if not rej or not keep or any(r["verdict"] is None for r in rows):
        raise AnalysisError(f"{fq}: the verdicts of the per-record loop are not decided booleans on every path")
    # the rejecting pass: the component loop was left because of one component; its conditions after the loop tag, refusals aside
    amp = sp.Symbol("A", positive=True)
    fn = lambda e: getattr(getattr(e, "func", None), "__name__", "")   # noqa: E731
    conds_all = []
    guards = []
    inner = None
    for r in rej:
        rconds, rnodes = r["conds"], r["cond_nodes"]
        tag_at = [i for i, (c_, _t) in enumerate(rconds) if "breaks(" in str(c_)]
        if not tag_at:
            raise AnalysisError(f"{fq}: a rejecting pass does not leave a search over the components")
        inner = rnodes[tag_at[-1]]
        parts = []
        for (c_, t_), node in list(zip(rconds, rnodes))[tag_at[-1] + 1:]:
            if isinstance(node, ast.If) and any(isinstance(x, ast.Raise) for x in ast.walk(node)):
                guards.append((c_, t_, node))        # refusal of a window shorter than the averaging length
                continue
            parts.append(c_ if t_ else sp.Not(c_))
        conds_all.append(sp.And(*parts) if len(parts) != 1 else parts[0])
    if len(set(map(str, conds_all))) != 1:
        raise AnalysisError(f"{fq}: several different rejection conditions: {conds_all}")
    cond = conds_all[0]
    decide = inner
    # name the quantities of the examined series
    owners = {a_.args[0] for a_ in sp.preorder_traversal(cond) if fn(a_) == "attr_amplitude"}
    pos = {nm: sp.Symbol(nm, positive=True) for nm in ("sta_seconds", "lta_seconds", "max_sta_lta_ratio", "min_sta_lta_ratio")}
    DT, NS = sp.Symbol("timeseries.dt_in_seconds", positive=True), sp.Symbol("timeseries.n_samples", positive=True)

    def named(e):
        from ..pathtable import rewrite
        table = {"attr_amplitude": amp, "attr_dt_in_seconds": DT, "attr_n_samples": NS}
        # only the quantities of the series under examination get these names: a length or time step taken from another
        # window stays what it is (and the tiling / guard rules below then do not match)
        e = rewrite(e, lambda x: fn(x) in table and x.args and x.args[0] in owners, lambda x: table[fn(x)])
        ren = {sp.Symbol(k, real=True): v for k, v in pos.items()}
        return rewrite(e, lambda x: x in ren, lambda x: ren[x])
    cond = named(cond)
    # slicing commutes with the element-wise absolute value: |x|[a:b] is |x[a:b]|
    from ..pathtable import rewrite as _rw
    _gi = sp.Function("getitem")
    cond = _rw(cond, lambda e: getattr(e, "func", None) == _gi and isinstance(e.args[0], sp.Abs), lambda e: sp.Abs(_gi(e.args[0].args[0], e.args[1])))
    true_rejects = True

    class _T:       # the few things the checks below ask of a translator
        env: Dict[str, sp.Expr] = {}

        @staticmethod
        def sym(nm):
            return pos.get(nm) or {"timeseries.n_samples": NS, "timeseries.dt_in_seconds": DT}.get(nm) or sp.Symbol(nm, real=True)
    T = _T
    ratios = [a_.args[0] for a_ in sp.preorder_traversal(cond) if fn(a_) in ("max", "amax", "nanmax", "min", "amin", "nanmin") and a_.args]
    sta = lta = None
    if ratios:
        num, den = ratios[0].as_numer_denom()
        sta, lta = num, den
    T.env = {"sta_values": sta, "lta": lta}
    d = degree(cond, {amp: 1})
    key = norm_key(decide, 120)
    if d is None:
        ck.violation("C13.R5", fq, key,
                     "the STA/LTA decision is not invariant under a common rescaling of the amplitudes "
                     f"(canonical condition: {cond})", loc=f.loc(decide))
    else:
        ck.ok("C13.R5", fq, key, detail=f"degree 0 in the amplitude; condition {cond}")
    # R6 shape
    sta = T.env.get("sta_values")
    lta = T.env.get("lta")
    if sta is None or lta is None:
        raise AnalysisError(f"{fq}: sta_values / lta not found as straight-line definitions")
    dsta, dlta = degree(sta, {amp: 1}), degree(lta, {amp: 1})
    if dsta != 1 or dlta != 1:
        ck.violation("C13.R5", fq, "sta_values, lta",
                     f"STA has degree {dsta} and LTA degree {dlta} in the amplitude (both must be 1: averages of |x|)", loc=f.loc(inner))
    else:
        ck.ok("C13.R5", fq, "sta_values, lta degree 1", detail=f"sta={sta}; lta={lta}")
    # both are means of absolute values
    for nm, v in (("sta_values", sta), ("lta", lta)):
        if not (v.is_Function and v.func.__name__ == "mean" and v.args and v.args[0].has(sp.Abs)):
            ck.violation("C13.R5", fq, nm, f"`{nm}` is not a mean of absolute amplitudes: {v}", loc=f.loc(inner))
    # length guards: a window is refused exactly when an averaging length exceeds it (equal lengths are fine)
    gbad = []
    npts_forms = [sp.Function("int")(sp.floor(pos[nm_] / DT)) for nm_ in ("sta_seconds", "lta_seconds")] + [sp.floor(pos[nm_] / DT) for nm_ in ("sta_seconds", "lta_seconds")]
    seen_guard = set()
    for c_, t_, node in guards:
        g_ = _canon_rel(named(c_))
        if t_:
            continue            # the raising side itself is not part of a completed pass
        if isinstance(g_, sp.Gt) and g_.rhs == NS and any(equal(g_.lhs, n_) for n_ in npts_forms):
            seen_guard.add(str(g_.lhs))
        else:
            gbad.append(str(g_))
    if gbad:
        ck.violation("C13.R6", fq, "length guards", f"a window is refused under `{gbad[0]}`: the refusal must be exactly `averaging length > window length` "
                     f"(an averaging length equal to the window is allowed) and compare with the examined window's own length", loc=f.loc(decide))
    elif seen_guard:
        ck.ok("C13.R6", fq, "windows shorter than the STA / LTA length are refused (strictly shorter only)", nontrivial=False)
    # the LTA is the mean absolute amplitude of the first npts_in_lta = floor(lta_seconds / dt) samples of the window
    if lta is not None:
        gi_, sl_, NONE_ = sp.Function("getitem"), sp.Function("slice"), sp.Symbol("None")
        NL = [sp.Function("int")(sp.floor(pos["lta_seconds"] / DT)), sp.floor(pos["lta_seconds"] / DT)]
        ok_lta = False
        if fn(lta) == "mean" and lta.args and isinstance(lta.args[0], sp.Abs):
            src_ = lta.args[0].args[0]
            if getattr(src_, "func", None) == gi_ and getattr(src_.args[1], "func", None) == sl_ and src_.args[1].args[0] == NONE_ and src_.args[1].args[2] == NONE_ \
                    and any(equal(src_.args[1].args[1], n_) for n_ in NL):
                base_ = src_.args[0]
                # the window itself, or its leading part that holds the whole STA blocks
                ok_lta = base_ == amp or (getattr(base_, "func", None) == gi_ and base_.args[0] == amp and getattr(base_.args[1], "func", None) == sl_ and base_.args[1].args[0] == NONE_)
        if ok_lta:
            ck.ok("C13.R6", fq, "LTA = mean |x| over the first floor(lta_seconds/dt) samples of the window", detail=str(lta)[:160])
        else:
            ck.violation("C13.R6", fq, "long-term average", f"the long-term average is {lta}, not the mean absolute amplitude of the first floor(lta_seconds/dt) samples of the window", loc=f.loc(decide))
    # the STA blocks tile the window from its first sample: K = floor(n_samples / P) blocks of P samples
    resh = [a for a in sp.preorder_traversal(sta) if getattr(getattr(a, "func", None), "__name__", "") == "reshape"]
    tiled = False
    detail = ""
    if len(resh) == 1 and len(resh[0].args) >= 2 and isinstance(resh[0].args[1], sp.Tuple) and len(resh[0].args[1]) == 2:
        K, P = resh[0].args[1]
        src = resh[0].args[0]
        if isinstance(src, sp.Abs):
            src = src.args[0]
        Ns = [T.sym("timeseries.n_samples"), T.env.get("n_samples", T.sym("n_samples"))]
        okK = any(equal(K, sp.Function("int")(sp.floor(N / P))) or equal(K, sp.floor(N / P)) for N in Ns)
        gi, sl, NONE = sp.Function("getitem"), sp.Function("slice"), sp.Symbol("None")
        okS = getattr(src, "func", None) == gi and src.args[0] == amp and getattr(src.args[1], "func", None) == sl \
            and src.args[1].args[0] == NONE and equal(src.args[1].args[1], K * P) and src.args[1].args[2] == NONE
        tiled = okK and okS
        detail = f"{K} blocks of {P} samples from {src}"
    if tiled:
        ck.ok("C13.R6", fq, "STA blocks: floor(n_samples/P) blocks of P samples from the start of the window", detail=detail)
    else:
        ck.violation("C13.R6", fq, "STA blocks", f"the short-term averages do not cover floor(n_samples/P) whole blocks of the window from its first sample ({detail})",
                     loc=f.loc(inner))
    ratio = sta / lta
    MAXR, MINR = T.sym("max_sta_lta_ratio"), T.sym("min_sta_lta_ratio")
    rels = []
    if isinstance(cond, sp.Or):
        rels = [_canon_rel(a) for a in cond.args]
    elif isinstance(cond, (sp.Gt, sp.Ge, sp.Lt, sp.Le)):
        rels = [_canon_rel(cond)]
    want_hi = want_lo = False
    for r in rels:
        if isinstance(r, (sp.Gt, sp.Ge)):
            l, rr = r.lhs, r.rhs
            if equal(rr, MAXR) and l.is_Function and l.func.__name__ in ("max", "amax", "nanmax") and equal(l.args[0], ratio):
                want_hi = True
            if equal(l, MINR) and rr.is_Function and rr.func.__name__ in ("min", "amin", "nanmin") and equal(rr.args[0], ratio):
                want_lo = True
    if want_hi and want_lo and true_rejects and len(rels) == 2 and isinstance(cond, sp.Or):
        ck.ok("C13.R6", fq, key, detail="reject iff max(STA/LTA) > max_sta_lta_ratio or min(STA/LTA) < min_sta_lta_ratio")
    else:
        ck.violation("C13.R6", fq, key,
                     f"the rejection test is not `max(STA/LTA) > max_sta_lta_ratio or min(STA/LTA) < min_sta_lta_ratio` "
                     f"(found {cond}; true branch rejects: {true_rejects})", loc=f.loc(decide))
    # LTA is a prefix of the same window's samples, STA chunks tile the window from its start
    rd = reaching(f)
    for nm in ("max_sta_lta_ratio", "min_sta_lta_ratio", "components"):
        if not rd.only_param(nm, decide):
            ck.violation("C13.R6", fq, f"{nm} rebound", f"parameter `{nm}` is rebound before the decision", loc=f.loc(decide))
    # the examined series is the component of the current record: every amplitude read belongs to getattr(<record>, <component of the search>)
    good = isinstance(inner, ast.For) and isinstance(inner.target, ast.Name) and isinstance(inner.iter, ast.Name) and inner.iter.id == "components" \
        and owners == {sp.Function("getattr")(REC, sp.Symbol(f"<{inner.target.id}>", real=True))}
    if good:
        ck.ok("C13.R6", fq, "timeseries = getattr(record, component)", nontrivial=False)
    else:
        ck.violation("C13.R6", fq, "examined series", "the examined series is not getattr(<current record>, <current component>)", loc=f.loc(inner))


def _r5_r6_max(ck: Checker, prog: Program):
    f = prog.func("window_rejection.maximum_value_window_rejection")
    fq = f.qualname
    amp = sp.Symbol("A", positive=True)

    def hook(name):
        if name == "timeseries.amplitude":
            return amp
        return None
    T = Translator(symbol_hook=hook)
    # per component maximum
    cm = [st for st in own_nodes(f.node) if isinstance(st, ast.Assign) and isinstance(st.targets[0], ast.Name)
          and any(isinstance(x, ast.Attribute) and x.attr == "amplitude" for x in ast.walk(st.value))]
    ck.floor("C13.R5", len(cm), 1, f"statements reading the amplitude in {fq}")
    for st in cm:
        v = T.tr(st.value)
        want = sp.Function("max")(sp.Abs(amp))
        # the per-component statistic may sit inside a comprehension over the components
        if getattr(getattr(v, "func", None), "__name__", "") == "comp" and len(v.args) == 2 and str(v.args[1].args[1]) == "components":
            v = v.args[0]
        v = v.replace(lambda e: getattr(getattr(e, "func", None), "__name__", "") == "attr_amplitude", lambda e: amp)
        if equal(v, want) or (v.is_Function and v.func.__name__ in ("max", "amax") and equal(v.args[0], sp.Abs(amp))):
            ck.ok("C13.R5", fq, norm_key(st), detail="component statistic = max|x|")
        else:
            ck.violation("C13.R5", fq, norm_key(st), f"component statistic is {v}, not the largest absolute sample max|x|", loc=f.loc(st))
    # running maximum over components: if c > m: m = c
    run_ok = False
    for st in own_nodes(f.node):
        if isinstance(st, ast.If) and isinstance(st.test, ast.Compare) and isinstance(st.test.ops[0], (ast.Gt, ast.GtE)) \
                and len(st.body) == 1 and isinstance(st.body[0], ast.Assign) and not st.orelse:
            a = st.body[0]
            if isinstance(st.test.left, ast.Name) and isinstance(st.test.comparators[0], ast.Name) and isinstance(a.targets[0], ast.Name) \
                    and a.targets[0].id == st.test.comparators[0].id and isinstance(a.value, ast.Name) and a.value.id == st.test.left.id:
                run_ok = True
    if any(call_name(c) == "max" and len(c.args) == 2 for c in calls_in(f.node)):
        run_ok = True
    for c in calls_in(f.node):
        # max([0, *per-component values]) / max(0, *values)
        if call_name(c) == "max" and isinstance(c.func, ast.Name):
            elems = c.args[0].elts if len(c.args) == 1 and isinstance(c.args[0], (ast.List, ast.Tuple)) else c.args
            if any(isinstance(e, ast.Starred) for e in elems) and any(isinstance(e, ast.Constant) and e.value == 0 for e in elems):
                run_ok = True
    forms = 0
    for st in own_nodes(f.node):
        if isinstance(st, ast.If) and isinstance(st.test, ast.Compare) and len(st.body) == 1 and isinstance(st.body[0], ast.Assign) and not st.orelse \
                and isinstance(st.test.left, ast.Name) and isinstance(st.test.comparators[0], ast.Name):
            forms += 1
    for c in calls_in(f.node):
        nm = call_name(c)
        if nm in ("min", "minimum", "fmin", "amin", "nanmin"):
            forms += 1
        if nm in ("maximum", "fmax") and len(c.args) == 2:
            run_ok = True
        if nm == "where" and len(c.args) == 3 and isinstance(c.args[0], ast.Compare) and len(c.args[0].ops) == 1:
            forms += 1
            t = c.args[0]
            a, b = unparse(t.left), unparse(t.comparators[0])
            x, y = unparse(c.args[1]), unparse(c.args[2])
            if (isinstance(t.ops[0], (ast.Gt, ast.GtE)) and (x, y) == (a, b)) or (isinstance(t.ops[0], (ast.Lt, ast.LtE)) and (x, y) == (b, a)):
                run_ok = True
    if not run_ok and not forms:
        raise AnalysisError(f"{fq}: how the values of the examined components are combined is not recognised")
    if run_ok:
        ck.ok("C13.R5", fq, "maximum over the examined components", nontrivial=False)
    else:
        ck.violation("C13.R5", fq, "maximum over the examined components", "the per-window value is not the maximum over the examined components", loc=f.loc())
    # normalisation: guarded by `normalized`, divides by the overall maximum
    norm = [st for st in f.node.body if isinstance(st, ast.If) and isinstance(st.test, ast.Name) and st.test.id == "normalized"]
    if len(norm) != 1:
        ck.violation("C13.R5", fq, "normalisation", "normalisation is not guarded by `if normalized:` exactly once", loc=f.loc())
    else:
        b = norm[0].body
        good = len(b) == 1 and isinstance(b[0], ast.AugAssign) and isinstance(b[0].op, ast.Div) and isinstance(b[0].target, ast.Name)
        if good:
            tv = T.tr(b[0].value)
            tgt = T.sym(b[0].target.id)
            good = (tv.is_Function and tv.func.__name__ in ("max", "amax") and
                    (equal(tv.args[0], tgt) or equal(tv.args[0], sp.Abs(tgt))))
        if good and not norm[0].orelse:
            ck.ok("C13.R5", fq, norm_key(b[0]), detail="values divided by their overall maximum (degree 0)")
        else:
            ck.violation("C13.R5", fq, "normalisation", "the normalised values are not value / max(all values)", loc=f.loc(norm[0]))
    # decision
    got = _mask_pass_names(f)
    loop = _record_loop(f, got[1]) if got else None
    if loop is None:
        fb = _comprehension_form(f, *got, prog=prog) if got else None
        if fb is None or fb["decision"] is None:
            raise AnalysisError(f"{fq}: decision not found")
        cond = _canon_rel(fb["decision"])
        thr, val = T.sym("maximum_value_threshold"), fb["value"]
        if isinstance(cond, sp.Gt) and equal(cond.lhs, thr) and equal(cond.rhs, val) and reaching(f).only_param("maximum_value_threshold", fb["site"]):
            ck.ok("C13.R6", fq, norm_key(fb["site"], 110), detail="keep iff value < maximum_value_threshold")
        else:
            ck.violation("C13.R6", fq, norm_key(fb["site"], 110), f"decision is {cond}; expected keep iff value < threshold", loc=f.loc(fb["site"]))
        return
    dec = [st for st in loop.body if isinstance(st, ast.If)]
    if len(dec) != 1:
        raise AnalysisError(f"{fq}: decision `if` not found")
    d = dec[0]
    cond = _canon_rel(T.tr(d.test))
    true_keeps = any(call_name(c) == "append" and c.args and isinstance(c.args[0], ast.Constant) and c.args[0].value is True
                     for b in d.body for c in calls_in(b))
    thr = T.sym("maximum_value_threshold")
    # value variable comes from the zip over the (normalised) values
    val = None
    if isinstance(loop.iter, ast.Call) and call_name(loop.iter) == "zip" and isinstance(loop.target, ast.Tuple):
        for a, t in zip(loop.iter.args, loop.target.elts):
            if isinstance(a, ast.Name) and a.id != "records" and isinstance(t, ast.Name):
                val = T.sym(t.id)
    good = False
    if val is not None:
        if true_keeps and isinstance(cond, sp.Gt) and equal(cond.lhs, thr) and equal(cond.rhs, val):
            good = True
        if (not true_keeps) and isinstance(cond, sp.Ge) and equal(cond.lhs, val) and equal(cond.rhs, thr):
            good = True
    if good and reaching(f).only_param("maximum_value_threshold", d):
        ck.ok("C13.R6", fq, norm_key(d), detail="keep iff value < maximum_value_threshold")
    else:
        ck.violation("C13.R6", fq, norm_key(d), f"decision is {cond} (true branch keeps: {true_keeps}); expected keep iff value < threshold",
                     loc=f.loc(d))
