"""Definitions that moved to another module are put back where the pinned tree has them.

The rules are anchored on ``module.function`` names of the pinned tree.  Moving a helper (or a lookup table) to another
module of the package and importing it back under its old name changes nothing a caller can observe; the pass below undoes
such a move on the syntax trees before anything else looks at them, so every later pass and every rule sees the pinned
layout.  It is purely structural: a definition is moved only when

* the pinned vocabulary says ``M.b`` is a function / constant of module ``M`` (or ``M.C.b`` a method of a class of ``M``),
* ``M`` no longer defines it but binds that name by ``from .X import a [as b]`` (module level) or by a class-level alias
  ``b = staticmethod(X.a)`` / ``b = staticmethod(a)``, and
* module ``X`` of the package defines ``a`` at module level (a ``def`` or a plain assignment).

Every module-level name of ``X`` the moved definition uses must mean the same thing in ``M`` afterwards: imports are copied,
other definitions of ``X`` are imported from ``X`` (or moved along when ``X`` is a module the pinned tree does not have);
when a name is already taken in ``M`` by something else the move is not undone and the rules report the anchor as missing
(undecided), never a violation.
"""
from __future__ import annotations

import ast
import copy
from typing import Dict, List, Optional, Set, Tuple

PKG = "hvsrpy"


def _baseline():
    from .normalize import load_baseline
    base = load_baseline()
    funcs = {q for q in base if not q.startswith(("const:", "sig:", "pos:", "cval:", "attrs:"))}
    consts = {q[6:] for q in base if q.startswith("const:")}
    modules = {q.split(".")[0] for q in funcs | consts}
    return funcs, consts, modules


def _bindings(tree: ast.Module) -> Dict[str, Tuple[str, object]]:
    """module-level name -> ("def", node) / ("class", node) / ("assign", node) / ("import", key)"""
    out: Dict[str, Tuple[str, object]] = {}
    for st in tree.body:
        if isinstance(st, ast.FunctionDef):
            out[st.name] = ("def", st)
        elif isinstance(st, ast.ClassDef):
            out[st.name] = ("class", st)
        elif isinstance(st, ast.Assign) and len(st.targets) == 1 and isinstance(st.targets[0], ast.Name):
            out[st.targets[0].id] = ("assign", st)
        elif isinstance(st, ast.AnnAssign) and isinstance(st.target, ast.Name) and st.value is not None:
            out[st.target.id] = ("assign", st)
        elif isinstance(st, ast.Import):
            for a in st.names:
                out[a.asname or a.name.split(".")[0]] = ("import", ("import", a.name, a.asname))
        elif isinstance(st, ast.ImportFrom):
            for a in st.names:
                if a.name != "*":
                    out[a.asname or a.name] = ("import", ("from", st.level, st.module or "", a.name))
    return out


def _pkg_target(st: ast.ImportFrom) -> Optional[str]:
    """the package module a ``from`` import reads from (None: not a module of this package / the package itself)"""
    src = st.module or ""
    if st.level > 0:
        return src.split(".")[-1] if src else None
    if src.startswith(PKG + "."):
        return src.split(".")[-1]
    return None


def _module_aliases(tree: ast.Module, trees) -> Dict[str, str]:
    """local name -> package module, for ``from . import X [as Y]`` / ``import hvsrpy.X as Y``"""
    out: Dict[str, str] = {}
    for st in tree.body:
        if isinstance(st, ast.ImportFrom) and (st.level > 0 and not st.module or st.level == 0 and st.module == PKG):
            for a in st.names:
                if a.name in trees:
                    out[a.asname or a.name] = a.name
        elif isinstance(st, ast.Import):
            for a in st.names:
                if a.asname and a.name.startswith(PKG + ".") and a.name.split(".")[-1] in trees:
                    out[a.asname] = a.name.split(".")[-1]
    return out


def _used_globals(node: ast.AST, names: Set[str]) -> List[str]:
    seen: List[str] = []
    for n in ast.walk(node):
        if isinstance(n, ast.Name) and n.id in names and n.id not in seen:
            seen.append(n.id)
    return seen


def _import_stmt(key) -> ast.stmt:
    if key[0] == "import":
        return ast.Import(names=[ast.alias(name=key[1], asname=key[2])])
    return ast.ImportFrom(module=key[2] or None, names=[ast.alias(name=key[3], asname=None)], level=key[1])


def relocate_moved_definitions(trees: Dict[str, ast.Module]) -> List[Tuple[str, str, str, str]]:
    """Returns the list of (from module, name, to module, name) that were put back."""
    funcs, consts, base_modules = _baseline()
    if not funcs:
        return []
    done: List[Tuple[str, str, str, str]] = []
    for m in sorted(trees):
        if m not in base_modules:
            continue
        tree = trees[m]
        mb = _bindings(tree)
        mod_alias = _module_aliases(tree, trees)
        wanted: List[Tuple[str, str, str, Optional[ast.AST]]] = []       # (X, a, name in M, class-alias value node to rewrite)
        for st in tree.body:
            if isinstance(st, ast.ImportFrom):
                x = _pkg_target(st)
                if x is None or x not in trees or x == m:
                    continue
                xb = _bindings(trees[x])
                for a in st.names:
                    b = a.asname or a.name
                    if a.name in xb and xb[a.name][0] in ("def", "assign") and (f"{m}.{b}" in funcs or f"{m}.{b}" in consts) \
                            and mb.get(b, ("", None))[0] == "import":
                        wanted.append((x, a.name, b, None))
            elif isinstance(st, ast.ClassDef):
                for cst in st.body:
                    if not (isinstance(cst, ast.Assign) and len(cst.targets) == 1 and isinstance(cst.targets[0], ast.Name)):
                        continue
                    b = cst.targets[0].id
                    if f"{m}.{st.name}.{b}" not in funcs:
                        continue
                    v = cst.value
                    holder = cst
                    if isinstance(v, ast.Call) and isinstance(v.func, ast.Name) and v.func.id in ("staticmethod", "classmethod") and len(v.args) == 1 and not v.keywords:
                        holder, v = v, v.args[0]
                    x = a = None
                    if isinstance(v, ast.Attribute) and isinstance(v.value, ast.Name) and v.value.id in mod_alias:
                        x, a = mod_alias[v.value.id], v.attr
                    elif isinstance(v, ast.Name) and mb.get(v.id, ("", None))[0] == "import" and mb[v.id][1][0] == "from":
                        key = mb[v.id][1]
                        fake = ast.ImportFrom(module=key[2] or None, names=[], level=key[1])
                        x, a = _pkg_target(fake), key[3]
                    if x is None or x not in trees or x == m:
                        continue
                    xb = _bindings(trees[x])
                    if a in xb and xb[a][0] == "def":
                        # at module level under the method's own name when that is free (calls between moved helpers then read as before)
                        wanted.append((x, a, b if b not in mb else a, (holder, v)))
        if not wanted:
            continue
        # ---- closure over what the moved definitions use of their module
        plan: Dict[Tuple[str, str], str] = {}            # (X, a) -> name in M
        add_imports: List[Tuple[str, object]] = []       # (bound name, import key) to add to M
        ok = True
        queue = [(x, a, b) for x, a, b, _ in wanted]
        while queue and ok:
            x, a, b = queue.pop(0)
            if (x, a) in plan:
                continue
            taken = mb.get(b)
            if taken is not None and not (taken[0] == "import" and taken[1][0] == "from" and taken[1][3] == a):
                ok = False
                break
            plan[(x, a)] = b
            xb = _bindings(trees[x])
            node = xb[a][1]
            for nm in _used_globals(node, set(xb) - {a}):
                kind, payload = xb[nm]
                if kind == "import":
                    here = mb.get(nm)
                    if here is None:
                        if (nm, payload) not in add_imports:
                            add_imports.append((nm, payload))
                    elif not (here[0] == "import" and here[1] == payload):
                        # `from .m import f` seen from another module is `f` of module m: the same thing when m is this module
                        same = payload[0] == "from" and _pkg_target(ast.ImportFrom(module=payload[2] or None, names=[], level=payload[1])) == m \
                            and here[0] in ("def", "assign", "class") and payload[3] == nm
                        if not same:
                            ok = False
                            break
                elif (x, nm) in plan:
                    continue
                elif x not in base_modules and kind in ("def", "assign"):
                    queue.append((x, nm, nm))
                else:
                    here = mb.get(nm)
                    key = ("from", 1, x, nm)
                    if here is None:
                        if (nm, key) not in add_imports:
                            add_imports.append((nm, key))
                    elif not (here[0] == "import" and here[1] == key):
                        ok = False
                        break
        if not ok:
            continue
        # ---- perform
        renames = {a: b for (x, a), b in plan.items() if a != b}
        moved_nodes: List[ast.stmt] = []
        for (x, a), b in plan.items():
            xt = trees[x]
            node = _bindings(xt)[a][1]
            idx = xt.body.index(node)
            back = ast.ImportFrom(module=m, names=[ast.alias(name=b, asname=a if a != b else None)], level=1)
            xt.body[idx] = ast.copy_location(back, node)
            if isinstance(node, ast.FunctionDef):
                node.name = b
            elif isinstance(node, ast.Assign):
                node.targets[0].id = b
            else:
                node.target.id = b
            moved_nodes.append(node)
            done.append((x, a, m, b))
        if renames:
            for node in moved_nodes:
                for n in ast.walk(node):
                    if isinstance(n, ast.Name) and n.id in renames:
                        n.id = renames[n.id]
        moved_names = set(plan.values())
        new_body: List[ast.stmt] = []
        placed = False
        for st in tree.body:
            if isinstance(st, ast.ImportFrom) and _pkg_target(st) in {x for (x, _a) in plan}:
                x = _pkg_target(st)
                st.names = [al for al in st.names if not ((x, al.name) in plan and plan[(x, al.name)] == (al.asname or al.name))]
                if not placed:
                    for nm, key in add_imports:
                        new_body.append(ast.copy_location(_import_stmt(key), st))
                    new_body.extend(moved_nodes)
                    placed = True
                if st.names:
                    new_body.append(st)
                continue
            if isinstance(st, ast.ClassDef) and not placed and any(w[3] is not None for w in wanted):
                for nm, key in add_imports:
                    new_body.append(ast.copy_location(_import_stmt(key), st))
                new_body.extend(moved_nodes)
                placed = True
            new_body.append(st)
        tree.body = new_body
        # class-level aliases and other uses of `Xalias.a` now name the definition of this module
        for x, a, b, alias in wanted:
            if alias is not None:
                holder, v = alias
                new = ast.copy_location(ast.Name(id=plan[(x, a)], ctx=ast.Load()), v)
                if isinstance(holder, ast.Call):
                    holder.args[0] = new
                else:
                    holder.value = new

        class _Attr(ast.NodeTransformer):
            def visit_Attribute(self, node):
                self.generic_visit(node)
                if isinstance(node.value, ast.Name) and node.value.id in mod_alias and (mod_alias[node.value.id], node.attr) in plan \
                        and isinstance(node.ctx, ast.Load):
                    return ast.copy_location(ast.Name(id=plan[(mod_alias[node.value.id], node.attr)], ctx=ast.Load()), node)
                return node
        _Attr().visit(tree)
        ast.fix_missing_locations(tree)
        for x in {x for (x, _a) in plan}:
            ast.fix_missing_locations(trees[x])
    return done


def reattach_static_aliases(trees: Dict[str, ast.Module]) -> List[Tuple[str, str, str]]:
    """A pinned static method that became a module-level function of the same module, kept on the class by the alias
    ``b = staticmethod(g)``, is a static method again: the definition replaces the alias, uses of ``g`` read ``self.b`` inside the
    methods of the class and ``C.b`` elsewhere (also in modules that import ``g`` and the class)."""
    funcs, _consts, base_modules = _baseline()
    done: List[Tuple[str, str, str]] = []
    for m in sorted(trees):
        if m not in base_modules:
            continue
        tree = trees[m]
        for cls in [st for st in tree.body if isinstance(st, ast.ClassDef)]:
            for cst in list(cls.body):
                if not (isinstance(cst, ast.Assign) and len(cst.targets) == 1 and isinstance(cst.targets[0], ast.Name)):
                    continue
                b, v = cst.targets[0].id, cst.value
                if not (isinstance(v, ast.Call) and isinstance(v.func, ast.Name) and v.func.id == "staticmethod" and len(v.args) == 1 and not v.keywords
                        and isinstance(v.args[0], ast.Name)):
                    continue
                g = v.args[0].id
                if f"{m}.{cls.name}.{b}" not in funcs or f"{m}.{g}" in funcs:
                    continue
                defs = [st for st in tree.body if isinstance(st, ast.FunctionDef) and st.name == g]
                if len(defs) != 1 or any(isinstance(x, ast.FunctionDef) and x.name == b for x in cls.body):
                    continue
                fn = defs[0]
                if fn.decorator_list and not all(isinstance(d, ast.Name) and d.id == "staticmethod" for d in fn.decorator_list):
                    continue
                tree.body.remove(fn)
                fn.name = b
                fn.decorator_list = [ast.Name(id="staticmethod", ctx=ast.Load())]
                cls.body[cls.body.index(cst)] = fn
                _rename_uses(tree, g, cls, b)
                for n, other in trees.items():
                    if n == m:
                        continue
                    ob = _bindings(other)
                    local = [nm for nm, (kind, key) in ob.items() if kind == "import" and key[0] == "from" and key[3] == g
                             and _pkg_target(ast.ImportFrom(module=key[2] or None, names=[], level=key[1])) == m]
                    has_cls = ob.get(cls.name, ("", None))[0] == "import"
                    if local and has_cls:
                        for nm in local:
                            _rename_uses(other, nm, cls, b, foreign=True)
                        for st in other.body:
                            if isinstance(st, ast.ImportFrom) and _pkg_target(st) == m:
                                st.names = [al for al in st.names if not (al.name == g)]
                        other.body = [st for st in other.body if not (isinstance(st, ast.ImportFrom) and not st.names)]
                        ast.fix_missing_locations(other)
                done.append((m, g, f"{cls.name}.{b}"))
        ast.fix_missing_locations(tree)
    return done


def _rename_uses(tree: ast.Module, g: str, cls: ast.ClassDef, b: str, foreign: bool = False):
    def rewrite(node, recv):
        class _T(ast.NodeTransformer):
            def visit_Name(self, n):
                if n.id == g and isinstance(n.ctx, ast.Load):
                    return ast.copy_location(ast.Attribute(value=ast.Name(id=recv, ctx=ast.Load()), attr=b, ctx=ast.Load()), n)
                return n
        _T().visit(node)
    for st in tree.body:
        if st is cls and not foreign:
            for x in st.body:
                if isinstance(x, ast.FunctionDef):
                    static = any(isinstance(d, ast.Name) and d.id in ("staticmethod", "classmethod") for d in x.decorator_list)
                    first = x.args.args[0].arg if x.args.args else None
                    local = {n.id for n in ast.walk(x) if isinstance(n, ast.Name) and isinstance(n.ctx, ast.Store)} | {a.arg for a in x.args.args}
                    if g in local:
                        continue
                    for sub in x.body:
                        rewrite(sub, first if (not static and first == "self") else cls.name)
                else:
                    rewrite(x, cls.name) if not isinstance(x, ast.ClassDef) else None
        elif isinstance(st, (ast.Import, ast.ImportFrom)):
            continue
        else:
            rewrite(st, cls.name)


def flatten_new_bases(trees: Dict[str, ast.Module]) -> List[Tuple[str, str, str]]:
    """A pinned class that now inherits some of its pinned methods from a *new* base class / mixin of the package has those methods
    again: the definitions are copied into the class body (those it does not define itself); nothing else about the class changes."""
    funcs, _consts, base_modules = _baseline()
    pinned_classes = {".".join(q.split(".")[:2]) for q in funcs if len(q.split(".")) == 3}
    classes: Dict[str, Tuple[str, ast.ClassDef]] = {}
    for m, tree in trees.items():
        for st in tree.body:
            if isinstance(st, ast.ClassDef):
                classes.setdefault(st.name, (m, st))
    done: List[Tuple[str, str, str]] = []
    for m in sorted(trees):
        if m not in base_modules:
            continue
        for cls in [st for st in trees[m].body if isinstance(st, ast.ClassDef) and f"{m}.{st.name}" in pinned_classes]:
            own = {x.name for x in cls.body if isinstance(x, ast.FunctionDef)}
            for b in cls.bases:
                bn = b.id if isinstance(b, ast.Name) else b.attr if isinstance(b, ast.Attribute) else None
                if bn is None or bn not in classes:
                    continue
                bm, bdef = classes[bn]
                if f"{bm}.{bn}" in pinned_classes or bdef is cls:
                    continue
                for x in bdef.body:
                    if isinstance(x, ast.FunctionDef) and x.name not in own and f"{m}.{cls.name}.{x.name}" in funcs:
                        cls.body.append(copy.deepcopy(x))
                        own.add(x.name)
                        done.append((f"{bm}.{bn}", x.name, f"{m}.{cls.name}"))
            ast.fix_missing_locations(cls)
    return done


def restore_function_names(trees: Dict[str, ast.Module]) -> List[Tuple[str, str, str]]:
    """A pinned function / method that is gone while its module / class has a *new* one with the pinned parameter list (and, when there
    are several candidates, the pinned local names) was renamed: it gets its pinned name back, together with every reference in the
    package (names, attributes, imports, `__all__` entries).  Nothing is renamed when the match is not unique."""
    from .normalize import load_baseline_sigs
    funcs, _consts, base_modules = _baseline()
    sigs = load_baseline_sigs()
    renames: Dict[str, str] = {}
    done: List[Tuple[str, str, str]] = []

    def local_names(fn) -> List[str]:
        ps = {a.arg for a in fn.args.posonlyargs + fn.args.args + fn.args.kwonlyargs}
        seen, out = set(ps), []
        for x in sorted([x for x in ast.walk(fn) if isinstance(x, ast.Name) and isinstance(x.ctx, ast.Store)], key=lambda x: (x.lineno, x.col_offset)):
            if x.id not in seen:
                seen.add(x.id)
                out.append(x.id)
        return out
    for m in sorted(trees):
        if m not in base_modules:
            continue
        scopes: List[Tuple[str, List[ast.stmt]]] = [(m, trees[m].body)]
        scopes += [(f"{m}.{st.name}", st.body) for st in trees[m].body if isinstance(st, ast.ClassDef)]
        for prefix, body in scopes:
            depth = len(prefix.split(".")) + 1
            pinned_here = {q.split(".")[-1] for q in funcs if q.startswith(prefix + ".") and len(q.split(".")) == depth and "<locals>" not in q}
            have = {x.name: x for x in body if isinstance(x, ast.FunctionDef)}
            bound = set(have) | {t.id for x in body if isinstance(x, ast.Assign) for t in x.targets if isinstance(t, ast.Name)} \
                | {(a.asname or a.name) for x in body if isinstance(x, ast.ImportFrom) for a in x.names}
            missing = sorted(pinned_here - bound)
            new = {n: f for n, f in have.items() if n not in pinned_here and not n.startswith("__")}
            for f_old in missing:
                want = sigs.get(f"{prefix}.{f_old}")
                if want is None:
                    continue
                cands = [n for n, f in new.items() if [a.arg for a in f.args.posonlyargs + f.args.args + f.args.kwonlyargs] == want and n not in renames]
                if len(cands) > 1:
                    wl = sigs.get(f"locals:{prefix}.{f_old}", [])
                    cands = [n for n in cands if local_names(new[n]) == wl]
                if len(cands) == 1:
                    renames[cands[0]] = f_old
                    done.append((prefix, cands[0], f_old))
    if not renames:
        return done
    # the new names must not mean anything else in the package
    taken = {x.name for t in trees.values() for x in ast.walk(t) if isinstance(x, (ast.FunctionDef, ast.ClassDef))}
    for g in list(renames):
        if sum(1 for t in trees.values() for x in ast.walk(t) if isinstance(x, ast.FunctionDef) and x.name == g) != 1:
            del renames[g]
    for t in trees.values():
        for x in ast.walk(t):
            if isinstance(x, ast.FunctionDef) and x.name in renames:
                x.name = renames[x.name]
            elif isinstance(x, ast.Name) and x.id in renames:
                x.id = renames[x.id]
            elif isinstance(x, ast.Attribute) and x.attr in renames:
                x.attr = renames[x.attr]
            elif isinstance(x, ast.alias) and x.name in renames:
                x.name = renames[x.name]
            elif isinstance(x, ast.Constant) and isinstance(x.value, str) and x.value in renames:
                x.value = renames[x.value]
            elif isinstance(x, ast.keyword) and x.arg in renames:
                pass
    return [d for d in done if d[1] in renames]


def restore_constant_names(trees: Dict[str, ast.Module]) -> List[Tuple[str, str, str]]:
    """A pinned module-level constant that is gone while its module has a *new* one with the pinned value (or, failing that, exactly one
    new constant of the same kind of value when exactly one pinned constant of that kind is gone) was renamed: it gets its pinned name
    back, with every reference in the package."""
    import hashlib
    from .normalize import load_baseline
    base = load_baseline()
    cvals: Dict[str, Tuple[str, str]] = {}
    for b in base:
        if b.startswith("cval:") and "=" in b:
            q, v = b[5:].split("=", 1)
            dg, _, kind = v.partition(":")
            cvals[q] = (dg, kind)
    if not cvals:
        return []
    _funcs, consts, base_modules = _baseline()
    renames: Dict[str, str] = {}
    done: List[Tuple[str, str, str]] = []
    for m in sorted(trees):
        if m not in base_modules:
            continue
        tree = trees[m]
        mb = _bindings(tree)
        pinned_here = {q.split(".", 1)[1] for q in cvals if q.split(".")[0] == m and q.count(".") == 1}
        missing = sorted(n for n in pinned_here if n not in mb)
        new = {n: node for n, (kind, node) in mb.items() if kind == "assign" and isinstance(node, ast.Assign) and n not in pinned_here and f"{m}.{n}" not in consts}
        for old in missing:
            dg, kind = cvals[f"{m}.{old}"]
            cands = [n for n, node in new.items() if hashlib.sha1(ast.dump(node.value).encode()).hexdigest()[:16] == dg and n not in renames]
            if not cands:
                same_kind_missing = [o for o in missing if cvals[f"{m}.{o}"][1] == kind]
                cands = [n for n, node in new.items() if type(node.value).__name__ == kind and n not in renames]
                if len(same_kind_missing) != 1:
                    cands = []
            if len(cands) == 1:
                renames[cands[0]] = old
                done.append((m, cands[0], old))
    if not renames:
        return done
    for g in list(renames):
        n_defs = sum(1 for t in trees.values() for st in t.body if isinstance(st, ast.Assign) and any(isinstance(x, ast.Name) and x.id == g for x in st.targets))
        if n_defs != 1:
            del renames[g]
    for t in trees.values():
        for x in ast.walk(t):
            if isinstance(x, ast.Name) and x.id in renames:
                x.id = renames[x.id]
            elif isinstance(x, ast.Attribute) and x.attr in renames:
                x.attr = renames[x.attr]
            elif isinstance(x, ast.alias) and x.name in renames:
                x.name = renames[x.name]
            elif isinstance(x, ast.Constant) and isinstance(x.value, str) and x.value in renames:
                x.value = renames[x.value]
    return [d for d in done if d[1] in renames]


def restore_attribute_names(trees: Dict[str, ast.Module]) -> List[Tuple[str, str, str]]:
    """Private attributes (`self._x`) of a pinned class that were renamed get their pinned names back, package-wide: the class stores
    the same number of private attributes in the same order of first store, the pinned name occurs nowhere in the package any more
    and the new name is not a pinned attribute of any class."""
    from .normalize import load_baseline
    base = load_baseline()
    pinned: Dict[str, List[str]] = {}
    for b in base:
        if b.startswith("attrs:") and "=" in b:
            q, v = b[6:].split("=", 1)
            pinned[q] = [x for x in v.split(",") if x]
    if not pinned:
        return []
    all_pinned = {a for v in pinned.values() for a in v}
    used = {x.attr for t in trees.values() for x in ast.walk(t) if isinstance(x, ast.Attribute)}
    renames: Dict[str, str] = {}
    done: List[Tuple[str, str, str]] = []
    for m, tree in trees.items():
        for cls in [st for st in tree.body if isinstance(st, ast.ClassDef)]:
            want = pinned.get(f"{m}.{cls.name}")
            if not want:
                continue
            have: List[str] = []
            for x in sorted([x for x in ast.walk(cls) if isinstance(x, ast.Attribute) and isinstance(x.ctx, ast.Store) and isinstance(x.value, ast.Name)
                             and x.value.id == "self" and x.attr.startswith("_") and not x.attr.startswith("__")], key=lambda x: (x.lineno, x.col_offset)):
                if x.attr not in have:
                    have.append(x.attr)
            if len(have) != len(want):
                continue
            for old, new in zip(want, have):
                if old != new and old not in used and new not in all_pinned and new not in renames:
                    renames[new] = old
                    done.append((f"{m}.{cls.name}", new, old))
    if not renames:
        return done
    for t in trees.values():
        for x in ast.walk(t):
            if isinstance(x, ast.Attribute) and x.attr in renames:
                x.attr = renames[x.attr]
            elif isinstance(x, ast.Constant) and isinstance(x.value, str) and x.value in renames:
                x.value = renames[x.value]
    return done
