"""hvsa: static analysis of hvsrpy for the properties in /verif/properties.jsonl."""
