"""Hand-written variants of the current tree for the thorough-tier self-test.

Each entry: prop, kind ("B" must be reported / "N" must stay silent), name, file, old text (must occur
exactly once in the file, else the variant is skipped and counted), new text, optional note.
"""
CATALOGUE = []


def B(prop, name, file, old, new, note=""):
    CATALOGUE.append(dict(prop=prop, kind="B", name=name, file="hvsrpy/" + file, old=old, new=new, note=note))


def N(prop, name, file, old, new, note=""):
    CATALOGUE.append(dict(prop=prop, kind="N", name=name, file="hvsrpy/" + file, old=old, new=new, note=note))


# ----------------------------------------------------------------------------- C01
B("C01", "drop-sqrt-squared-average", "processing.py", "return np.sqrt((ns*ns + ew*ew)/2)", "return (ns*ns + ew*ew)/2")
B("C01", "arith-mean-no-half", "processing.py", "return (ns+ew) / 2", "return (ns+ew)")
B("C01", "geometric-mean-sum", "processing.py", "return np.sqrt(ns * ew)", "return np.sqrt(ns + ew)")
B("C01", "max-to-min", "processing.py", "return np.where(ns > ew, ns, ew)", "return np.where(ns > ew, ew, ns)")
B("C01", "swap-cos-sin", "processing.py", "return ns*np.cos(radians_from_north) + ew*np.sin(radians_from_north)",
  "return ns*np.sin(radians_from_north) + ew*np.cos(radians_from_north)")
B("C01", "inverted-ratio-traditional", "processing.py",
  "                     count] = smooth_spectra[:count] / smooth_spectra[count:]\n        hvsr_idx += count\n\n    # reorder hvsr spectra to follow original order.\n    hvsr_spectra = hvsr_spectra[hvsr_indices_to_order]\n\n    if np.isnan",
  "                     count] = smooth_spectra[count:] / smooth_spectra[:count]\n        hvsr_idx += count\n\n    # reorder hvsr spectra to follow original order.\n    hvsr_spectra = hvsr_spectra[hvsr_indices_to_order]\n\n    if np.isnan")
B("C01", "alias-vector-summation", "processing.py", '"vector_summation": total_horizontal_energy,', '"vector_summation": squared_average,')
B("C01", "fft-min-length", "processing.py", 'settings.fft_settings["n"] = good_n if good_n > user_n else user_n', 'settings.fft_settings["n"] = min(good_n, user_n)')
B("C01", "percentile-includes-vertical", "processing.py", "smooth_h = np.percentile(smooth_spectra[:-1],", "smooth_h = np.percentile(smooth_spectra,")
B("C01", "diffuse-sqrt-misplaced", "processing.py", "np.sqrt(hor/ver), meta=", "np.sqrt(hor)/ver, meta=")
B("C01", "diffuse-only-ns", "processing.py", "spectra = np.array([psd_ns + psd_ew, psd_vt])", "spectra = np.array([psd_ns, psd_vt])")
B("C01", "no-abs-vertical", "processing.py", "v = np.abs(rfft(vt.amplitude, **settings.fft_settings))", "v = np.real(rfft(vt.amplitude, **settings.fft_settings))")
B("C01", "taper-after-fft-missing", "processing.py", "            vt = TimeSeries.from_timeseries(record.vt)\n            vt.window(*settings.window_type_and_width)\n\n            # compute fft of horizontals",
  "            vt = TimeSeries.from_timeseries(record.vt)\n\n            # compute fft of horizontals")
N("C01", "hypot", "processing.py", "return np.sqrt((ns*ns + ew*ew))", "return np.hypot(ns, ew)")
N("C01", "np-maximum", "processing.py", "return np.where(ns > ew, ns, ew)", "return np.maximum(ns, ew)")
N("C01", "temporaries-squared-average", "processing.py", "return np.sqrt((ns*ns + ew*ew)/2)", "ns2 = ns**2\n    ew2 = np.square(ew)\n    return np.sqrt((ns2 + ew2)/2)")
N("C01", "max-builtin-fftlen", "processing.py", 'settings.fft_settings["n"] = good_n if good_n > user_n else user_n', 'settings.fft_settings["n"] = max(good_n, user_n)')

# ----------------------------------------------------------------------------- C02
B("C02", "drop-sumwindow", "smoothing.py", "            sumproduct += window*spectrum[:, f_index]\n            sumwindow += window\n\n        if sumwindow > 0:\n            smoothed_spectrum[:, fc_index] = sumproduct / sumwindow\n        else:\n            smoothed_spectrum[:, fc_index] = 0\n\n    return smoothed_spectrum\n\n\n@njit(cache=True)\ndef parzen",
  "            sumproduct += window*spectrum[:, f_index]\n\n        if sumwindow > 0:\n            smoothed_spectrum[:, fc_index] = sumproduct / sumwindow\n        else:\n            smoothed_spectrum[:, fc_index] = 0\n\n    return smoothed_spectrum\n\n\n@njit(cache=True)\ndef parzen")
B("C02", "ko-one-squaring-fewer", "smoothing.py", "                window = bandwidth * np.log10(f_on_fc)\n                window = np.sin(window) / window\n                window *= window\n                window *= window",
  "                window = bandwidth * np.log10(f_on_fc)\n                window = np.sin(window) / window\n                window *= window")
B("C02", "ko-natural-log", "smoothing.py", "window = bandwidth * np.log10(f_on_fc)", "window = bandwidth * np.log(f_on_fc)")
B("C02", "ko-asymmetric-limit", "smoothing.py", "    n = 3\n    upper_limit = np.power(10, +n/bandwidth)\n    lower_limit = np.power(10, -n/bandwidth)",
  "    n = 3\n    upper_limit = np.power(10, +n/bandwidth)\n    lower_limit = np.power(10, -2/bandwidth)")
B("C02", "sg-constant", "smoothing.py", "coefficients[idx] = ((3*m*m - 7 - 20*abs(i*i))/4)", "coefficients[idx] = ((3*m*m - 7 - 25*abs(i*i))/4)")
B("C02", "fastmath", "smoothing.py", "@njit(cache=True)\ndef parzen", "@njit(cache=True, fastmath=True)\ndef parzen")
B("C02", "registry-cross", "smoothing.py", '"log_triangular": log_triangular,', '"log_triangular": linear_triangular,')
B("C02", "unnormalised-store", "smoothing.py", "            smoothed_spectrum[:, fc_index] = sumproduct/sumwindow\n        else:\n            smoothed_spectrum[:, fc_index] = 0\n\n    return smoothed_spectrum\n\n\n@njit(cache=True)\ndef log_triangular",
  "            smoothed_spectrum[:, fc_index] = sumproduct\n        else:\n            smoothed_spectrum[:, fc_index] = 0\n\n    return smoothed_spectrum\n\n\n@njit(cache=True)\ndef log_triangular")
B("C02", "parzen-constant", "smoothing.py", "a = (np.pi*280) / (2*151)", "a = (np.pi*280) / (2*115)")
N("C02", "ko-power4", "smoothing.py", "                window = bandwidth * np.log10(f_on_fc)\n                window = np.sin(window) / window\n                window *= window\n                window *= window",
  "                x = bandwidth * np.log10(f_on_fc)\n                window = (np.sin(x) / x)**4")
N("C02", "reorder-accumulations", "smoothing.py", "            sumproduct += window*spectrum[:, f_index]\n            sumwindow += window\n\n        if sumwindow > 0:\n            smoothed_spectrum[:, fc_index] = sumproduct / sumwindow\n        else:\n            smoothed_spectrum[:, fc_index] = 0\n\n    return smoothed_spectrum\n\n\n@njit(cache=True)\ndef parzen",
  "            sumwindow += window\n            sumproduct += window*spectrum[:, f_index]\n\n        if sumwindow > 0:\n            smoothed_spectrum[:, fc_index] = sumproduct / sumwindow\n        else:\n            smoothed_spectrum[:, fc_index] = 0\n\n    return smoothed_spectrum\n\n\n@njit(cache=True)\ndef parzen")

# ----------------------------------------------------------------------------- C03
B("C03", "drop-gather-single-azimuth", "processing.py", "    hvsr_spectra = hvsr_spectra[hvsr_indices_to_order]\n\n    return HvsrTraditional(fcs, hvsr_spectra, meta={**records[0].meta, **settings.attr_dict})\n\n\ndef traditional_rotdpp",
  "    return HvsrTraditional(fcs, hvsr_spectra, meta={**records[0].meta, **settings.attr_dict})\n\n\ndef traditional_rotdpp")
B("C03", "hvsr-idx-plus-one", "processing.py", "                     count] = smooth_spectra[:count] / smooth_spectra[count:]\n        hvsr_idx += count\n\n    # reorder hvsr spectra to follow original order.\n    hvsr_spectra = hvsr_spectra[hvsr_indices_to_order]\n\n    return",
  "                     count] = smooth_spectra[:count] / smooth_spectra[count:]\n        hvsr_idx += 1\n\n    # reorder hvsr spectra to follow original order.\n    hvsr_spectra = hvsr_spectra[hvsr_indices_to_order]\n\n    return")
B("C03", "nyquist-on-min", "processing.py", "    check_nyquist_frequency(max(dt_with_count.keys()), fcs)\n\n    # process in groups of constant dt for efficiency.\n    hvsr_idx = 0\n    cur_idx = 0\n    hvsr_indices_to_order = np.empty(len(records), dtype=int)\n    # TODO",
  "    check_nyquist_frequency(min(dt_with_count.keys()), fcs)\n\n    # process in groups of constant dt for efficiency.\n    hvsr_idx = 0\n    cur_idx = 0\n    hvsr_indices_to_order = np.empty(len(records), dtype=int)\n    # TODO")
B("C03", "smallest-uses-max", "processing.py", "smallest_dt = min(dt_with_count.keys())", "smallest_dt = max(dt_with_count.keys())")
B("C03", "insert-front", "processing.py", "            if record.ns.dt_in_seconds == majority_dt:\n                abbr_records.append(record)", "            if record.ns.dt_in_seconds == majority_dt:\n                abbr_records.insert(0, record)")
B("C03", "majority-minimum", "processing.py", "if potential_count > majority_count:", "if potential_count < majority_count or majority_count == 0:")
N("C03", "majority-ge", "processing.py", "if potential_count > majority_count:", "if potential_count >= majority_count:")

# ----------------------------------------------------------------------------- C04
B("C04", "sign-flip-ew", "seismic_recording_3c.py", "self.ew.amplitude = ew*c - ns*s", "self.ew.amplitude = ew*c + ns*s")
B("C04", "reads-overwritten", "seismic_recording_3c.py", "self.ns.amplitude = ew*s + ns*c", "self.ns.amplitude = self.ew.amplitude*s + ns*c")
B("C04", "current-minus-target", "seismic_recording_3c.py", "angle_diff_degrees = degrees_from_north - self.degrees_from_north", "angle_diff_degrees = self.degrees_from_north - degrees_from_north")
B("C04", "drop-smoothing-forward", "processing.py", "        window_type_and_width=settings.window_type_and_width,\n        smoothing=settings.smoothing,\n", "        window_type_and_width=settings.window_type_and_width,\n")
B("C04", "negate-orientation", "preprocessing.py", "            srecord3c.orient_sensor_to(settings.orient_to_degrees_from_north)\n\n        # time-domain filter raw signal.\n        with warnings.catch_warnings():\n            warnings.simplefilter(\"ignore\")\n            srecord3c.butterworth_filter(settings.filter_corner_frequencies_in_hz)\n\n        # divide",
  "            srecord3c.orient_sensor_to(-settings.orient_to_degrees_from_north)\n\n        # time-domain filter raw signal.\n        with warnings.catch_warnings():\n            warnings.simplefilter(\"ignore\")\n            srecord3c.butterworth_filter(settings.filter_corner_frequencies_in_hz)\n\n        # divide")
B("C04", "drop-radians", "processing.py", "radians_from_north = np.radians(degrees_from_north)", "radians_from_north = degrees_from_north")
N("C04", "matrix-temporaries", "seismic_recording_3c.py", "        self.ew.amplitude = ew*c - ns*s\n        self.ns.amplitude = ew*s + ns*c",
  "        new_ew = c*ew - s*ns\n        new_ns = s*ew + c*ns\n        self.ew.amplitude = new_ew\n        self.ns.amplitude = new_ns")

# ----------------------------------------------------------------------------- C05
B("C05", "unmasked-mean-curve", "hvsr_traditional.py", "            return _nanmean_weighted(distribution,\n                                     self.amplitude[self.valid_window_boolean_mask],",
  "            return _nanmean_weighted(distribution,\n                                     self.amplitude,")
B("C05", "cov-ddof0", "hvsr_traditional.py", "return np.cov(frequencies, amplitudes, ddof=1)", "return np.cov(frequencies, amplitudes, ddof=0)")
B("C05", "exp-on-lognormal-std", "statistics.py", '    "lognormal": {"mean": lambda values: np.exp(values),\n                  "std": lambda values: values}', '    "lognormal": {"mean": lambda values: np.exp(values),\n                  "std": lambda values: np.exp(values)}')
B("C05", "nist-denominator-sum", "statistics.py", "denominator = (1-(1/non_nan_weights))*np.nansum(weights, **std_kwargs)", "denominator = np.nansum(weights, **std_kwargs)")
B("C05", "nth-std-product", "statistics.py", "return (mean + n*std)", "return (mean * n*std)")
B("C05", "peak-mask-for-curves", "hvsr_traditional.py", "                                    self.amplitude[self.valid_window_boolean_mask],\n                                    std_kwargs=dict(axis=0))",
  "                                    self.amplitude[self.valid_peak_boolean_mask],\n                                    std_kwargs=dict(axis=0))")
B("C05", "accessor-writes-mask", "hvsr_traditional.py", '        return _nanstd_weighted(distribution, self.peak_amplitudes)', '        self.valid_peak_boolean_mask[np.isnan(self._main_peak_amp)] = False\n        return _nanstd_weighted(distribution, self.peak_amplitudes)')
B("C05", "raw-alias-compare", "statistics.py", '    if DISTRIBUTION_MAP.get(distribution.lower(), None) == "lognormal":\n        mean = np.log(mean)', '    if distribution == "lognormal":\n        mean = np.log(mean)',
  "the defect repaired by 5bc5be7: 'log-normal' takes deviations about the linear mean")
B("C05", "cov-raw-name", "hvsr_traditional.py", "        distribution = DISTRIBUTION_MAP[distribution]\n\n        frequencies = self.peak_frequencies", "        frequencies = self.peak_frequencies",
  "cov_fn compares the raw spelling: 'log-normal' is refused / mis-handled")
N("C05", "alias-resolved-local", "statistics.py", '    if DISTRIBUTION_MAP.get(distribution.lower(), None) == "lognormal":\n        mean = np.log(mean)', '    resolved = DISTRIBUTION_MAP.get(distribution.lower(), None)\n    if resolved == "lognormal":\n        mean = np.log(mean)')
N("C05", "keyword-call", "hvsr_traditional.py", "return _nanmean_weighted(distribution, self.peak_frequencies)", "return _nanmean_weighted(distribution=distribution, values=self.peak_frequencies)")

# ----------------------------------------------------------------------------- C06
B("C06", "remove-post-loop-return", "window_rejection.py", "    logger.warning(msg)\n    return max_iterations\n", "    logger.warning(msg)\n")
B("C06", "return-iteration-minus-one", "window_rejection.py", '            msg = f"Performed {c_iteration} iterations, returning b/c rejection converged."\n            logger.info(msg)\n            return c_iteration',
  '            msg = f"Performed {c_iteration} iterations, returning b/c rejection converged."\n            logger.info(msg)\n            return c_iteration - 1')
B("C06", "or-convergence", "window_rejection.py", "if (d_diff < 0.01) and (s_diff < 0.01):", "if (d_diff < 0.01) or (s_diff < 0.01):")
B("C06", "one-mask-only", "window_rejection.py", "                hvsr.valid_window_boolean_mask[_idx] = False\n                hvsr.valid_peak_boolean_mask[_idx] = False\n\n        mean_fn_after", "                hvsr.valid_peak_boolean_mask[_idx] = False\n\n        mean_fn_after")
B("C06", "while-true", "window_rejection.py", "    for c_iteration in range(1, max_iterations+1):\n        logger.debug(f\"c_iteration: {c_iteration}\")", "    c_iteration = 0\n    while True:\n        c_iteration += 1\n        logger.debug(f\"c_iteration: {c_iteration}\")")
B("C06", "nonstrict-bounds", "window_rejection.py", "if c_peak > lower_bound and c_peak < upper_bound:", "if c_peak >= lower_bound and c_peak <= upper_bound:")
N("C06", "return-loop-var-after", "window_rejection.py", "    logger.warning(msg)\n    return max_iterations\n", "    logger.warning(msg)\n    return c_iteration\n")

# ----------------------------------------------------------------------------- C07
B("C07", "saf-swap-columns", "data_wrangler.py", "        data[idx, 1] = float(channels[n_ch])\n        data[idx, 2] = float(channels[e_ch])", "        data[idx, 1] = float(channels[e_ch])\n        data[idx, 2] = float(channels[n_ch])")
B("C07", "arrange-duplicate-accepted", "data_wrangler.py", '        if trace.meta.channel.endswith("E") and not found_ew:', '        if trace.meta.channel.endswith("E"):',
  "a second E trace silently replaces the first")
B("C07", "arrange-band-letter", "data_wrangler.py", '        elif trace.meta.channel.endswith("N") and not found_ns:', '        elif trace.meta.channel.startswith("N") and not found_ns:')
N("C07", "arrange-last-letter-index", "data_wrangler.py", '        if trace.meta.channel.endswith("E") and not found_ew:', '        if trace.meta.channel[-1] == "E" and not found_ew:')
N("C07", "arrange-nested-ifs", "data_wrangler.py", '        if trace.meta.channel.endswith("E") and not found_ew:\n            ew = TimeSeries.from_trace(trace)\n            found_ew = True\n        elif',
  '        is_east = trace.meta.channel.endswith("E")\n        if is_east and not found_ew:\n            found_ew = True\n            ew = TimeSeries.from_trace(trace)\n        elif')
B("C07", "arrange-return-order", "data_wrangler.py", "    return ns, ew, vt\n\n\ndef _check_npts", "    return ew, ns, vt\n\n\ndef _check_npts")
B("C07", "drop-gain", "data_wrangler.py", "    data /= gain\n    data /= conversion", "    data /= conversion")
B("C07", "drop-check-npts-peer", "data_wrangler.py", "        _check_npts(npts_header, idx)\n\n        component_list.append", "        component_list.append")
B("C07", "read-guard-wrong-variable", "data_wrangler.py", "if isinstance(degrees_from_north, (int, float, type(None))):", "if isinstance(obspy_read_kwargs, (dict, type(None))):")
B("C07", "unconditional-orientation-gcf", "data_wrangler.py", "    ns, ew, vt = _arrange_traces(traces)\n\n    if degrees_from_north is None:\n        degrees_from_north = 0.\n\n    meta = {\"file name(s)\": str(fname)}", "    ns, ew, vt = _arrange_traces(traces)\n\n    degrees_from_north = 0.\n\n    meta = {\"file name(s)\": str(fname)}")
B("C07", "minishark-unpack-order", "data_wrangler.py", "        vt, ns, ew = group.groups()", "        ns, vt, ew = group.groups()")
B("C07", "regex-lose-group", "regex.py", 'mshark_row_expr = r"(-?\\d+)\\t(-?\\d+)\\t(-?\\d+)[\\r\\n?|\\n]"', 'mshark_row_expr = r"(-?\\d+)\\t(-?\\d+)\\t-?\\d+[\\r\\n?|\\n]"')
B("C07", "check-npts-never-raises", "data_wrangler.py", "    if npts_header != npts_found: # pragma: no cover", "    if npts_header < npts_found: # pragma: no cover")

# ----------------------------------------------------------------------------- C08
B("C08", "misaligned-slices", "hvsr_curve.py", "amplitude[f_low_idx:f_high_idx],", "amplitude[f_low_idx+1:f_high_idx],")
B("C08", "argmin", "hvsr_curve.py", "sub_idx = np.argmax(potential_peak_amplitudes)", "sub_idx = np.argmin(potential_peak_amplitudes)")
B("C08", "range-not-stored", "hvsr_traditional.py", "            self._search_range_in_hz = tuple(search_range_in_hz)\n            self._find_peaks_kwargs", "            self._find_peaks_kwargs")
B("C08", "fanout-defaults", "hvsr_azimuthal.py", "            hvsr.update_peaks_bounded(search_range_in_hz=search_range_in_hz,\n                                      find_peaks_kwargs=find_peaks_kwargs)\n\n    @property\n    def peak_frequencies",
  "            hvsr.update_peaks_bounded(find_peaks_kwargs=find_peaks_kwargs)\n\n    @property\n    def peak_frequencies")
B("C08", "break-on-absent", "hvsr_traditional.py", "                self.valid_peak_boolean_mask[_idx] = False\n            else:\n                all_curves_flat = False", "                self.valid_peak_boolean_mask[_idx] = False\n                break\n            else:\n                all_curves_flat = False")
B("C08", "mean-curve-peak-full-range", "hvsr_traditional.py", "                                                      search_range_in_hz=self._search_range_in_hz,\n                                                      find_peaks_kwargs=self._find_peaks_kwargs)\n\n        if f_peak is None or a_peak is None:\n            msg = \"Mean curve does not have a peak in the specified range.\"\n            raise ValueError(msg)\n\n        return (f_peak, a_peak)\n\n    def nth_std_fn_frequency",
  "                                                      find_peaks_kwargs=self._find_peaks_kwargs)\n\n        if f_peak is None or a_peak is None:\n            msg = \"Mean curve does not have a peak in the specified range.\"\n            raise ValueError(msg)\n\n        return (f_peak, a_peak)\n\n    def nth_std_fn_frequency")

B("C08", "upper-bound-exclusive", "hvsr_curve.py", "f_high_idx = np.argmin(np.abs(frequency - f_high)) + 1", "f_high_idx = np.argmin(np.abs(frequency - f_high))",
  "the defect repaired by da22104: the sample nearest to the upper limit is dropped")
N("C08", "upper-bound-named", "hvsr_curve.py", "f_high_idx = np.argmin(np.abs(frequency - f_high)) + 1", "nearest = np.argmin(np.abs(frequency - f_high))\n            f_high_idx = nearest + 1")

# ----------------------------------------------------------------------------- C09
B("C09", "record-window-in-place", "processing.py", "            ns = TimeSeries.from_timeseries(record.ns)\n            ns.window(*settings.window_type_and_width)", "            ns = record.ns\n            ns.window(*settings.window_type_and_width)")
B("C09", "asarray-in-timeseries", "timeseries.py", "self.amplitude = np.array(amplitude, dtype=np.double)", "self.amplitude = np.asarray(amplitude, dtype=np.double)")
B("C09", "settings-counter", "processing.py", "    settings = copy.deepcopy(settings)\n    return PROCESSING_METHODS", "    settings.n_calls = getattr(settings, \"n_calls\", 0) + 1\n    settings = copy.deepcopy(settings)\n    return PROCESSING_METHODS")
B("C09", "no-private-settings", "processing.py", "    settings = copy.deepcopy(settings)\n    return PROCESSING_METHODS", "    return PROCESSING_METHODS")
N("C09", "counter-on-the-copy", "processing.py", "    return PROCESSING_METHODS[settings.processing_method](records, settings)", "    settings.n_calls = getattr(settings, \"n_calls\", 0) + 1\n    return PROCESSING_METHODS[settings.processing_method](records, settings)")
B("C09", "detrend-records-in-process", "processing.py", "    prepare_fft_settings(records, settings)\n\n    records, dt_with_count = prepare_records_with_inconsistent_dt(\n        records, settings)\n\n    if len(dt_with_count.keys()) > 1:",
  "    prepare_fft_settings(records, settings)\n    for record in records:\n        record.detrend(\"constant\")\n\n    records, dt_with_count = prepare_records_with_inconsistent_dt(\n        records, settings)\n\n    if len(dt_with_count.keys()) > 1:")
N("C09", "copy-records-first", "processing.py", "def traditional_hvsr_processing(records, settings):\n    prepare_fft_settings(records, settings)", "def traditional_hvsr_processing(records, settings):\n    records = list(records)\n    prepare_fft_settings(records, settings)")

# ----------------------------------------------------------------------------- C10
B("C10", "detrend-before-split", "preprocessing.py", "        # divide raw signal into time windows.\n        if settings.window_length_in_seconds is not None:\n            windows = srecord3c.split(settings.window_length_in_seconds)\n        else:\n            windows = [srecord3c]\n\n        # detrend each time window individually.\n        if (settings.detrend is not None) and (settings.detrend != \"none\"):\n            for window in windows:\n                window.detrend(type=settings.detrend)\n\n        preprocessed_records.extend(windows)\n\n    return preprocessed_records\n\ndef psd_preprocess",
  "        if (settings.detrend is not None) and (settings.detrend != \"none\"):\n            srecord3c.detrend(type=settings.detrend)\n\n        # divide raw signal into time windows.\n        if settings.window_length_in_seconds is not None:\n            windows = srecord3c.split(settings.window_length_in_seconds)\n        else:\n            windows = [srecord3c]\n\n        preprocessed_records.extend(windows)\n\n    return preprocessed_records\n\ndef psd_preprocess")
B("C10", "start-equals-end", "timeseries.py", "start_idx = end_idx - 1", "start_idx = end_idx")
B("C10", "drop-plus-one", "timeseries.py", "samples_per_window = int(round(window_length_in_seconds/self.dt_in_seconds, 6)) + 1", "samples_per_window = int(round(window_length_in_seconds/self.dt_in_seconds, 6))")
B("C10", "bare-int", "timeseries.py", "samples_per_window = int(round(window_length_in_seconds/self.dt_in_seconds, 6)) + 1", "samples_per_window = int(window_length_in_seconds/self.dt_in_seconds) + 1")
B("C10", "sosfilt", "timeseries.py", "self.amplitude = sosfiltfilt(sos, self.amplitude)", "self.amplitude = sosfilt(sos, self.amplitude)")
B("C10", "split-different-arguments", "seismic_recording_3c.py", "self.vt.split(window_length_in_seconds)):", "self.vt.split(window_length_in_seconds + self.vt.dt_in_seconds)):")
N("C10", "floor-plus-eps", "timeseries.py", "samples_per_window = int(round(window_length_in_seconds/self.dt_in_seconds, 6)) + 1", "samples_per_window = int(window_length_in_seconds/self.dt_in_seconds + 1e-9) + 1")

# ----------------------------------------------------------------------------- C11
B("C11", "weight-per-azimuth-only", "hvsr_azimuthal.py", "weights.extend([1/(n_azimuths*n_valid_peaks)]*n_valid_peaks)", "weights.extend([1/n_valid_peaks]*n_valid_peaks)")
B("C11", "default-denominator", "hvsr_azimuthal.py", "                                values=np.array(_flatten_list(self.peak_amplitudes)),\n                                denominator=\"cheng\")", "                                values=np.array(_flatten_list(self.peak_amplitudes)))")
B("C11", "cov-without-aweights", "hvsr_azimuthal.py", "return np.cov(frequencies, amplitudes, aweights=weights)", "return np.cov(frequencies, amplitudes)")
B("C11", "reversed-azimuth-order", "hvsr_azimuthal.py", "        for hvsr in self.hvsrs:\n            n_valid_peaks = int(np.sum(hvsr.valid_peak_boolean_mask))", "        for hvsr in reversed(self.hvsrs):\n            n_valid_peaks = int(np.sum(hvsr.valid_peak_boolean_mask))")
B("C11", "window-mask-for-weights", "hvsr_azimuthal.py", "n_valid_peaks = int(np.sum(hvsr.valid_peak_boolean_mask))", "n_valid_peaks = int(np.sum(hvsr.valid_window_boolean_mask))")
B("C11", "cheng-denominator-wrong", "statistics.py", "denominator = 1-np.nansum(weights**2, **std_kwargs)", "denominator = 1-np.nansum(weights, **std_kwargs)**2")

# ----------------------------------------------------------------------------- C12
B("C12", "shadow-hvsr", "object_io.py", "        for _hvsr in hvsr.hvsrs:\n            stop_index = start_index + _hvsr.n_curves\n            array[:, start_index:stop_index] = _hvsr.amplitude.T",
  "        for hvsr in hvsr.hvsrs:\n            stop_index = start_index + hvsr.n_curves\n            array[:, start_index:stop_index] = hvsr.amplitude.T")
B("C12", "fmt-6e", "object_io.py", 'np.savetxt(fname, array, delimiter=",", header=header, encoding="utf-8")', 'np.savetxt(fname, array, delimiter=",", header=header, encoding="utf-8", fmt="%.6e")')
B("C12", "masks-before-update-traditional", "object_io.py", "        hvsr.meta = meta\n        hvsr.update_peaks_bounded(\n            search_range_in_hz=tuple(meta[\"search_range_in_hz\"]),\n            find_peaks_kwargs=meta[\"find_peaks_kwargs\"]\n        )\n        hvsr.valid_window_boolean_mask = np.array(\n            meta.pop(\"valid_window_boolean_mask\")\n        )\n        hvsr.valid_peak_boolean_mask = np.array(\n            meta.pop(\"valid_peak_boolean_mask\")\n        )",
  "        hvsr.meta = meta\n        hvsr.valid_window_boolean_mask = np.array(\n            meta.pop(\"valid_window_boolean_mask\")\n        )\n        hvsr.valid_peak_boolean_mask = np.array(\n            meta.pop(\"valid_peak_boolean_mask\")\n        )\n        hvsr.update_peaks_bounded(\n            search_range_in_hz=tuple(meta[\"search_range_in_hz\"]),\n            find_peaks_kwargs=meta[\"find_peaks_kwargs\"]\n        )")
B("C12", "key-typo", "object_io.py", 'meta["valid_peak_boolean_mask"] = hvsr.valid_peak_boolean_mask.tolist()', 'meta["valid_peaks_boolean_mask"] = hvsr.valid_peak_boolean_mask.tolist()')
B("C12", "reader-slice", "object_io.py", "hvsr = HvsrTraditional(array[:, 0], array[:, 1:-2].T)", "hvsr = HvsrTraditional(array[:, 0], array[:, 1:-1].T)")
B("C12", "writer-mutates-meta", "object_io.py", "    meta = deepcopy(hvsr.meta)", "    meta = hvsr.meta")
N("C12", "mean-before-loop", "object_io.py", "        array[:, 0] = hvsr.frequency\n        start_index = 1\n", "        array[:, 0] = hvsr.frequency\n        array[:, -2] = hvsr.mean_curve(distribution=distribution_mc)\n        start_index = 1\n")

# ----------------------------------------------------------------------------- C13
B("C13", "append-copy", "window_rejection.py", "            valid_window_boolean_mask.append(True)\n            passing_records.append(record)", "            valid_window_boolean_mask.append(True)\n            passing_records.append(copy.copy(record))")
B("C13", "missing-break", "window_rejection.py", "                valid_window_boolean_mask.append(False)\n                break", "                valid_window_boolean_mask.append(False)")
B("C13", "flipped-comparison", "window_rejection.py", "if maximum_value < maximum_value_threshold:", "if maximum_value > maximum_value_threshold:")
B("C13", "normalise-by-first", "window_rejection.py", "maximum_values /= np.max(np.abs(maximum_values))", "maximum_values /= maximum_values[0]")
B("C13", "one-mask-only", "window_rejection.py", "            hvsr.valid_window_boolean_mask = np.array(valid_window_boolean_mask)\n            hvsr.valid_peak_boolean_mask = np.array(valid_window_boolean_mask)\n        elif isinstance(hvsr, HvsrAzimuthal):\n            for _hvsr in hvsr.hvsrs:\n                _hvsr.valid_window_boolean_mask = np.array(valid_window_boolean_mask)\n                _hvsr.valid_peak_boolean_mask = np.array(valid_window_boolean_mask)\n        else:\n            raise NotImplementedError\n\n    return passing_records\n\n# TODO",
  "            hvsr.valid_window_boolean_mask = np.array(valid_window_boolean_mask)\n        elif isinstance(hvsr, HvsrAzimuthal):\n            for _hvsr in hvsr.hvsrs:\n                _hvsr.valid_window_boolean_mask = np.array(valid_window_boolean_mask)\n                _hvsr.valid_peak_boolean_mask = np.array(valid_window_boolean_mask)\n        else:\n            raise NotImplementedError\n\n    return passing_records\n\n# TODO")
B("C13", "lta-of-previous-window", "window_rejection.py", "            lta = np.mean(np.abs(short_timeseries[:npts_in_lta]))\n",
  "            lta = np.mean(np.abs(short_timeseries[:npts_in_lta]))\n            lta, previous_lta = (previous_lta if valid_window_boolean_mask else lta), lta\n")

# ----------------------------------------------------------------------------- C14
B("C14", "raw-weights-in-stddev", "hvsr_spatial.py", "    for row_value, weight in zip(values, norm_weights):\n        diff = row_value - mean", "    for row_value, weight in zip(values, weights):\n        diff = row_value - mean")
B("C14", "swap-exp-log", "hvsr_spatial.py", '    if distribution_generators == "lognormal" and distribution_spatial == "normal":\n        realizations = np.exp(realizations)', '    if distribution_generators == "lognormal" and distribution_spatial == "normal":\n        realizations = np.log(realizations)')
B("C14", "np-random-normal", "hvsr_spatial.py", "return rng.normal(mean, stddev, size=n_realizations)", "return np.random.normal(mean, stddev, size=n_realizations)")
B("C14", "index-outside-test", "hvsr_spatial.py", "                passing_points.append([x, y])\n                passing_indices.append(index)\n            else:", "                passing_points.append([x, y])\n            else:")
B("C14", "reseed", "hvsr_spatial.py", "    if rng is None:\n        rng = default_rng()", "    rng = default_rng(1824)")

B("C14", "closing-distance-small", "hvsr_spatial.py", "def _bounded_voronoi(self, mask, radius=1E6):", "def _bounded_voronoi(self, mask, radius=1E3):")
B("C14", "closing-distance-fallback", "hvsr_spatial.py", "regions, vertices = self._voronoi_finite_polygons_2d(vor,\n                                                             radius=radius)", "regions, vertices = self._voronoi_finite_polygons_2d(vor)")
N("C14", "closing-distance-larger", "hvsr_spatial.py", "def _bounded_voronoi(self, mask, radius=1E6):", "def _bounded_voronoi(self, mask, radius=1E7):")
# ----------------------------------------------------------------------------- C15
B("C15", "omit-attr", "settings.py", '        self.attrs.extend(["method_to_combine_horizontals",\n                           "azimuth_in_degrees",\n                           ])', '        self.attrs.extend(["method_to_combine_horizontals",\n                           ])')
B("C15", "do-not-forward-fft-settings", "settings.py", "                         smoothing=smoothing,\n                         fft_settings=fft_settings,\n                         handle_dissimilar_time_steps_by=handle_dissimilar_time_steps_by,\n                         )\n        self.attrs.extend([\"processing_method\"])",
  "                         smoothing=smoothing,\n                         handle_dissimilar_time_steps_by=handle_dissimilar_time_steps_by,\n                         )\n        self.attrs.extend([\"processing_method\"])")
B("C15", "uncopied-default", "settings.py", "self.filter_corner_frequencies_in_hz = deepcopy(filter_corner_frequencies_in_hz)", "self.filter_corner_frequencies_in_hz = filter_corner_frequencies_in_hz")
B("C15", "dispatcher-rotdpp", "object_io.py", '            if attr_dict["method_to_combine_horizontals"] == "rotdpp":\n                settings_object = HvsrTraditionalRotDppProcessingSettings()', '            if attr_dict["method_to_combine_horizontals"] == "rotdpp":\n                settings_object = HvsrTraditionalSingleAzimuthProcessingSettings()')
B("C15", "cross-wired-store", "settings.py", "        self.window_length_in_seconds = window_length_in_seconds\n        self.detrend = detrend", "        self.window_length_in_seconds = window_length_in_seconds\n        self.detrend = window_length_in_seconds")
N("C15", "tuple-default", "settings.py", "                 orient_to_degrees_from_north=0.,\n                 filter_corner_frequencies_in_hz=[None, None],\n                 window_length_in_seconds=60.,\n                 detrend=\"linear\",\n                 ignore_dissimilar_time_step_warning=False,\n                 ):\n        \"\"\"Base class for preprocessing.",
  "                 orient_to_degrees_from_north=0.,\n                 filter_corner_frequencies_in_hz=(None, None),\n                 window_length_in_seconds=60.,\n                 detrend=\"linear\",\n                 ignore_dissimilar_time_step_warning=False,\n                 ):\n        \"\"\"Base class for preprocessing.")

# ----------------------------------------------------------------------------- C16
B("C16", "theta-typo", "sesame.py", "        epsilon = 0.1\n        theta = 1.78", "        epsilon = 0.1\n        theta = 1.87")
B("C16", "nc-100", "sesame.py", "    if nc > 200:", "    if nc > 100:")
B("C16", "band-edge", "sesame.py", "    elif mc_peak_frq < 0.5:\n        epsilon = 0.2", "    elif mc_peak_frq < 0.6:\n        epsilon = 0.2")
B("C16", "verdict-in-verbose", "sesame.py", "    # Criteria iii)\n    if mc_peak_amp > 2:\n        criteria[2] = 1\n\n    if verbose > 0:", "    # Criteria iii)\n    if verbose > 0:\n        if mc_peak_amp > 2:\n            criteria[2] = 1\n\n    if verbose > 0:")
B("C16", "flip-v", "sesame.py", "    if fn_std < epsilon*mc_peak_frq:", "    if fn_std > epsilon*mc_peak_frq:")
B("C16", "sigma-band", "sesame.py", "sigma_a_max = np.max(sigma_a[np.logical_and(frequency > 0.5*mc_peak_frq,\n                                                frequency < 2*mc_peak_frq)])", "sigma_a_max = np.max(sigma_a[np.logical_and(frequency > 0.5*mc_peak_frq,\n                                                frequency < 4*mc_peak_frq)])")

# ----------------------------------------------------------------------------- C17
B("C17", "drop-times-two", "processing.py", "    # scale by two b/c only looking at positive frequencies.\n    psd *= 2\n", "    # scale by two b/c only looking at positive frequencies.\n")
B("C17", "n-samples-squared", "processing.py", "    psd /= tseries.n_samples\n\n    # scaly", "    psd /= tseries.n_samples**2\n\n    # scaly")
B("C17", "mean-w-squared", "processing.py", "window_scaling_factor = np.mean(window.amplitude**2)", "window_scaling_factor = np.mean(window.amplitude)**2")
B("C17", "derivative-without-j", "instrument_response.py", "transfer_funtion = 2*np.pi*frq*1j", "transfer_funtion = 2*np.pi*frq")
B("C17", "keys-crossed", "processing.py", "    return dict(ns=Psd(fft_frq, psd_ns),\n                ew=Psd(fft_frq, psd_ew),", "    return dict(ns=Psd(fft_frq, psd_ew),\n                ew=Psd(fft_frq, psd_ns),")
B("C17", "nextpow2-nearest", "processing.py", '    power_of_two = minimum_power_of_two\n    while True:\n        if power_of_two > n:\n            return power_of_two\n        power_of_two *= 2\n', "    return max(2**int(np.round(np.log2(n))), minimum_power_of_two)\n")
N("C17", "nextpow2-ceil-plus-one", "processing.py", '    power_of_two = minimum_power_of_two\n    while True:\n        if power_of_two > n:\n            return power_of_two\n        power_of_two *= 2\n', "    return max(2**(int(np.floor(np.log2(n))) + 1), minimum_power_of_two)\n")
N("C17", "factor-order", "processing.py", "    psd /= window_scaling_factor\n\n    # scale by number of samples;\n    # Welch (1967) shows (1/L)**2 * L scaling for I_{k} simplify to 1/L.\n    psd /= tseries.n_samples", "    psd /= tseries.n_samples\n    psd /= window_scaling_factor")

# ----------------------------------------------------------------------------- C18
B("C18", "store-components-uncopied", "seismic_recording_3c.py", "            tseries.append(TimeSeries.from_timeseries(component))", "            tseries.append(component)")
B("C18", "to-dict-omits-orientation", "seismic_recording_3c.py", "                    degrees_from_north=self.degrees_from_north,\n                    meta=self.meta)", "                    meta=self.meta)")
B("C18", "trim-without-plus-one", "timeseries.py", "self.amplitude = self.amplitude[start_index:end_index+1]", "self.amplitude = self.amplitude[start_index:end_index]")
B("C18", "refusal-removed", "timeseries.py", "        if start_time >= end_time:\n", "        if False:\n")
N("C18", "explicit-copy", "timeseries.py", "self.amplitude = np.array(amplitude, dtype=np.double)", "self.amplitude = np.array(amplitude, dtype=np.double, copy=True)")

B("C18", "load-memoised", "seismic_recording_3c.py", "    @classmethod\n    def load(cls, fname):", "    @classmethod\n    @__import__('functools').lru_cache(maxsize=8)\n    def load(cls, fname):")
# ----------------------------------------------------------------------------- C19
N("C19", "shared-processing-settings", "cli.py", "    processing_settings = copy.deepcopy(processing_settings)\n", "", note="process() works on its own copy since 6984ed3: sharing the processing settings between tasks is harmless")
B("C19", "constant-output-name", "cli.py", 'f"{pathlib.Path(fname).stem}.csv",', '"output.csv",')
B("C19", "module-cache", "cli.py", "def _process_hvsr(fname, preprocessing_settings, processing_settings, settings): # pragma: no cover\n    start = time.perf_counter()", "_SEEN = []\n\ndef _process_hvsr(fname, preprocessing_settings, processing_settings, settings): # pragma: no cover\n    _SEEN.append(fname)\n    start = time.perf_counter()")
B("C19", "swapped-settings-files", "cli.py", 'preprocessing_settings = read_settings_object_from_file(kwargs.pop("preprocessing_settings_file"))\n    processing_settings = read_settings_object_from_file(kwargs.pop("processing_settings_file"))',
  'preprocessing_settings = read_settings_object_from_file(kwargs.pop("processing_settings_file"))\n    processing_settings = read_settings_object_from_file(kwargs.pop("preprocessing_settings_file"))')

B("C19", "file-names-resolved", "cli.py", "@click.argument('file_names', nargs=-1, type=click.Path())", "@click.argument('file_names', nargs=-1, type=click.Path(resolve_path=True))")
N("C19", "file-names-must-exist", "cli.py", "@click.argument('file_names', nargs=-1, type=click.Path())", "@click.argument('file_names', nargs=-1, type=click.Path(exists=True, dir_okay=False))")
# ----------------------------------------------------------------------------- C20
B("C20", "restore-omitted", "postprocessing.py", "    hvsr.valid_window_boolean_mask = store_valid_window_boolean_mask\n    hvsr.valid_peak_boolean_mask = store_valid_peak_boolean_mask\n", "    hvsr.valid_window_boolean_mask = store_valid_window_boolean_mask\n")
B("C20", "helper-scales-amplitude", "postprocessing.py", "    for hvsr in hvsrs:\n        to_plot = hvsr.valid_window_boolean_mask if valid else ~hvsr.valid_window_boolean_mask\n", "    for hvsr in hvsrs:\n        hvsr.amplitude /= np.max(hvsr.amplitude)\n        to_plot = hvsr.valid_window_boolean_mask if valid else ~hvsr.valid_window_boolean_mask\n")
B("C20", "rejected-with-accepted-mask", "postprocessing.py", "to_plot = hvsr.valid_window_boolean_mask if valid else ~hvsr.valid_window_boolean_mask", "to_plot = hvsr.valid_window_boolean_mask if valid else hvsr.valid_window_boolean_mask")
B("C20", "one-over-std", "postprocessing.py", "                    1/hvsr.mean_fn_frequency(distribution=distribution_fn),\n                    hvsr.std_fn_frequency(distribution=distribution_fn),", "                    1/hvsr.mean_fn_frequency(distribution=distribution_fn),\n                    1/hvsr.std_fn_frequency(distribution=distribution_fn),")
B("C20", "hard-coded-distribution", "postprocessing.py", "    ax.plot(hvsr.frequency, hvsr.mean_curve(\n        distribution=distribution), **plot_kwargs)", "    ax.plot(hvsr.frequency, hvsr.mean_curve(\n        distribution=\"lognormal\"), **plot_kwargs)")
B("C20", "summary-crossed-options", "postprocessing.py", "        plot_invalid_curves=plot_invalid_curves,\n        plot_mean_curve=plot_mean_curve,\n        plot_frequency_std=plot_frequency_std,\n        plot_peak_mean_curve=plot_mean_curve,", "        plot_invalid_curves=plot_peak_individual_invalid_curves,\n        plot_mean_curve=plot_mean_curve,\n        plot_frequency_std=plot_frequency_std,\n        plot_peak_mean_curve=plot_mean_curve,")
B("C20", "summary-crossed-distribution", "postprocessing.py", "        distribution_mc=distribution_mc,\n        distribution_fn=distribution_fn,\n        plot_valid_curves=plot_valid_curves,", "        distribution_mc=distribution_fn,\n        distribution_fn=distribution_fn,\n        plot_valid_curves=plot_valid_curves,")
