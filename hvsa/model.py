"""E0 source model: parse hvsrpy, symbol tables, imports, classes, registries.

The model is rebuilt from the working tree on every run (no caching across
runs).  ``VERIF_REPO`` points at a scratch copy; ``overrides`` supplies
in-memory source text for the self-test.
hvsrpy is never imported.
"""
from __future__ import annotations

import ast
import hashlib
import os
from dataclasses import dataclass, field
from pathlib import Path
from typing import Dict, List, Optional, Tuple

PKG = "hvsrpy"


class AnalysisError(Exception):
    """The analysis cannot decide (anchor missing, unknown idiom, floor not met)."""


def repo_root() -> Path:
    return Path(os.environ.get("VERIF_REPO", "/repo"))


def norm_key(node: ast.AST, limit: int = 160) -> str:
    """Normalised text of a statement/expression: no comments, no layout."""
    if node is None:
        return "<none>"
    try:
        if isinstance(node, (ast.FunctionDef, ast.AsyncFunctionDef, ast.ClassDef)):
            return f"def {node.name}"
        if isinstance(node, (ast.If, ast.While)):
            txt = ("if " if isinstance(node, ast.If) else "while ") + ast.unparse(node.test)
        elif isinstance(node, ast.For):
            txt = f"for {ast.unparse(node.target)} in {ast.unparse(node.iter)}"
        elif isinstance(node, ast.With):
            txt = "with " + ", ".join(ast.unparse(i) for i in node.items)
        elif isinstance(node, ast.Try):
            txt = "try"
        else:
            txt = ast.unparse(node)
    except Exception:  # pragma: no cover
        txt = type(node).__name__
    txt = " ".join(txt.split())
    return txt if len(txt) <= limit else txt[: limit - 3] + "..."


@dataclass
class Module:
    name: str            # e.g. "processing"
    relpath: str         # e.g. "hvsrpy/processing.py"
    src: str
    tree: ast.Module
    # name -> ("func"|"class"|"const"|"import_pkg"|"import_ext"|"module_ext"|"module_pkg", payload)
    symbols: Dict[str, Tuple[str, object]] = field(default_factory=dict)
    all_names: Optional[List[str]] = None

    def line(self, node: ast.AST) -> int:
        return getattr(node, "lineno", 0)


@dataclass
class Func:
    qualname: str                 # "processing.process" / "timeseries.TimeSeries.window"
    name: str
    module: Module
    node: ast.AST                 # FunctionDef or Lambda
    cls: Optional["Class"] = None
    kind: str = "function"        # function|method|staticmethod|classmethod|property|lambda|nested
    decorators: List[str] = field(default_factory=list)
    parent: Optional["Func"] = None   # enclosing function for nested defs / lambdas

    @property
    def params(self) -> List[str]:
        a = self.node.args
        names = [x.arg for x in a.posonlyargs] + [x.arg for x in a.args]
        return names

    @property
    def kwonly(self) -> List[str]:
        return [x.arg for x in self.node.args.kwonlyargs]

    @property
    def vararg(self) -> Optional[str]:
        return self.node.args.vararg.arg if self.node.args.vararg else None

    @property
    def kwarg(self) -> Optional[str]:
        return self.node.args.kwarg.arg if self.node.args.kwarg else None

    def defaults(self) -> Dict[str, ast.AST]:
        a = self.node.args
        pos = [x.arg for x in a.posonlyargs] + [x.arg for x in a.args]
        out = {}
        for name, d in zip(pos[len(pos) - len(a.defaults):], a.defaults):
            out[name] = d
        for x, d in zip(a.kwonlyargs, a.kw_defaults):
            if d is not None:
                out[x.arg] = d
        return out

    @property
    def body(self) -> List[ast.stmt]:
        if isinstance(self.node, ast.Lambda):
            return [ast.Return(value=self.node.body)]
        return self.node.body

    def loc(self, node: Optional[ast.AST] = None) -> str:
        n = node if node is not None else self.node
        return f"{self.module.relpath}:{getattr(n, '_src_lineno', getattr(n, 'lineno', 0))}"

    def __hash__(self):
        return hash(self.qualname)

    def __eq__(self, other):
        return isinstance(other, Func) and other.qualname == self.qualname

    def __repr__(self):
        return f"<Func {self.qualname}>"


class _Methods(dict):
    """Methods of a class by name.  A helper that used to be a (static) method of the class and now lives at module level under
    the same name - or the other way round - is still the same anchor: a missing name is looked up among the functions of the
    class's module."""
    fallback = None

    def __missing__(self, key):
        f = self.fallback(key) if self.fallback is not None else None
        if f is None:
            raise KeyError(key)
        return f

    def get(self, key, default=None):
        if key in self:
            return dict.__getitem__(self, key)
        f = self.fallback(key) if self.fallback is not None else None
        return f if f is not None else default


@dataclass
class Class:
    name: str
    module: Module
    node: ast.ClassDef
    base_names: List[str]
    methods: Dict[str, Func] = field(default_factory=_Methods)
    bases: List["Class"] = field(default_factory=list)

    @property
    def qualname(self):
        return f"{self.module.name}.{self.name}"

    def mro(self) -> List["Class"]:
        out, seen = [], set()

        def walk(c):
            if c.name in seen:
                return
            seen.add(c.name)
            out.append(c)
            for b in c.bases:
                walk(b)
        walk(self)
        return out

    def find_method(self, name: str) -> Optional[Func]:
        for c in self.mro():
            if name in c.methods:
                return c.methods[name]
        for c in self.mro():
            f = c.methods.get(name)         # a helper of the same name that now lives at module level
            if f is not None:
                return f
        return None

    def __hash__(self):
        return hash(self.qualname)

    def __eq__(self, other):
        return isinstance(other, Class) and other.qualname == self.qualname

    def __repr__(self):
        return f"<Class {self.qualname}>"


def _set_parents(tree: ast.AST):
    for parent in ast.walk(tree):
        for child in ast.iter_child_nodes(parent):
            child._parent = parent  # type: ignore[attr-defined]
    tree._parent = None  # type: ignore[attr-defined]


def parent_of(node):
    return getattr(node, "_parent", None)


def enclosing_stmt(node):
    n = node
    while n is not None and not isinstance(n, ast.stmt):
        n = parent_of(n)
    return n


def deco_name(d: ast.AST) -> str:
    if isinstance(d, ast.Call):
        d = d.func
    try:
        return ast.unparse(d).strip()
    except Exception:  # pragma: no cover
        return "?"


class Program:
    def __init__(self, root: Optional[Path] = None, overrides: Optional[Dict[str, str]] = None, normalize: bool = True):
        self.root = Path(root) if root else repo_root()
        self.normalize = normalize
        self.modules: Dict[str, Module] = {}
        self.funcs: Dict[str, Func] = {}
        self.classes: Dict[str, Class] = {}       # by class name (unique in this package)
        self.lambdas: Dict[int, Func] = {}        # id(node) -> Func
        self.nested: Dict[int, Func] = {}         # id(FunctionDef node) -> Func for nested defs
        self.digest = ""
        self._load(overrides or {})
        self._index()

    # ------------------------------------------------------------------ load
    def _load(self, overrides: Dict[str, str]):
        pkgdir = self.root / PKG
        if not pkgdir.is_dir():
            raise AnalysisError(f"package directory {pkgdir} not found")
        h = hashlib.sha256()
        names = sorted(p.name for p in pkgdir.glob("*.py"))
        for rel in overrides:
            n = Path(rel).name
            if n not in names:
                names.append(n)
        for fname in sorted(names):
            rel = f"{PKG}/{fname}"
            if rel in overrides:
                src = overrides[rel]
            else:
                src = (pkgdir / fname).read_text(encoding="utf-8")
            h.update(rel.encode())
            h.update(src.encode())
            try:
                tree = ast.parse(src, filename=rel)
            except SyntaxError as e:
                raise AnalysisError(f"{rel} does not parse: {e}")
            mod = Module(name=fname[:-3], relpath=rel, src=src, tree=tree)
            self.modules[mod.name] = mod
        self.inlined, self.not_inlined = [], []
        if self.normalize:
            from .normalize import inline_new_helpers, desugar_match, propagate_new_constants, restore_parameter_names
            from .relocate import relocate_moved_definitions
            self.relocated = relocate_moved_definitions({m.name: m.tree for m in self.modules.values()})
            from .relocate import reattach_static_aliases
            self.relocated += reattach_static_aliases({m.name: m.tree for m in self.modules.values()})
            from .relocate import flatten_new_bases
            self.relocated += flatten_new_bases({m.name: m.tree for m in self.modules.values()})
            from .relocate import restore_attribute_names
            self.relocated += restore_attribute_names({m.name: m.tree for m in self.modules.values()})
            from .relocate import restore_constant_names
            self.relocated += restore_constant_names({m.name: m.tree for m in self.modules.values()})
            from .relocate import restore_function_names
            self.relocated += restore_function_names({m.name: m.tree for m in self.modules.values()})
            from .normalize import fold_none_defaults
            fold_none_defaults({m.name: m.tree for m in self.modules.values()})
            from .normalize import simplify_assignments
            simplify_assignments({m.name: m.tree for m in self.modules.values()})
            from .normalize import drop_observability
            drop_observability({m.name: m.tree for m in self.modules.values()})
            from .normalize import merge_early_returns
            merge_early_returns({m.name: m.tree for m in self.modules.values()})
            from .normalize import canonical_numpy_spellings
            canonical_numpy_spellings({m.name: m.tree for m in self.modules.values()})
            self.renamed_parameters = restore_parameter_names({m.name: m.tree for m in self.modules.values()})
            from .normalize import restore_local_names
            self.renamed_locals = restore_local_names({m.name: m.tree for m in self.modules.values()})
            from .normalize import positionalise_calls
            positionalise_calls({m.name: m.tree for m in self.modules.values()})
            from .normalize import expand_table_spreads
            expand_table_spreads({m.name: m.tree for m in self.modules.values()})
            self.new_constants = propagate_new_constants({m.name: m.tree for m in self.modules.values()})
            from .normalize import desugar_first_match
            desugar_first_match({m.name: m.tree for m in self.modules.values()})
            desugar_match({m.name: m.tree for m in self.modules.values()})
            self.inlined, self.not_inlined = inline_new_helpers({m.name: m.tree for m in self.modules.values()})
            from .normalize import split_tuple_assignments, desugar_namedtuples, desugar_after_inlining
            desugar_after_inlining({m.name: m.tree for m in self.modules.values()})
            self.records = desugar_namedtuples({m.name: m.tree for m in self.modules.values()})
            split_tuple_assignments({m.name: m.tree for m in self.modules.values()})
            from .normalize import coalesce_copies
            coalesce_copies({m.name: m.tree for m in self.modules.values()})
        self.absorbed = {h for _caller, h in self.inlined}       # new helpers whose bodies are analysed at their call sites
        for mod in self.modules.values():
            _set_parents(mod.tree)
        self.digest = h.hexdigest()[:16]

    # ----------------------------------------------------------------- index
    def _index(self):
        for mod in self.modules.values():
            self._index_module(mod)
        # resolve class bases
        for cls in self.classes.values():
            for b in cls.base_names:
                t = self.resolve_name(cls.module, b)
                if t and t[0] == "class":
                    cls.bases.append(t[1])
        # nested functions and lambdas
        for f in list(self.funcs.values()):
            self._index_nested(f)
        for cls in self.classes.values():
            if isinstance(cls.methods, _Methods):
                def _fb(name, c=cls, m=cls.module):
                    if name.startswith("__"):
                        return None
                    # a method moved to a base class / mixin of the package is inherited: the same anchor
                    for b in c.mro()[1:]:
                        if dict.__contains__(b.methods, name):
                            return dict.__getitem__(b.methods, name)
                    return self.funcs.get(f"{m.name}.{name}")
                cls.methods.fallback = _fb

    def _index_module(self, mod: Module):
        for st in mod.tree.body:
            if isinstance(st, ast.FunctionDef):
                f = Func(f"{mod.name}.{st.name}", st.name, mod, st,
                         decorators=[deco_name(d) for d in st.decorator_list])
                self.funcs[f.qualname] = f
                mod.symbols[st.name] = ("func", f)
            elif isinstance(st, ast.ClassDef):
                cls = Class(st.name, mod, st, [ast.unparse(b) for b in st.bases])
                self.classes[st.name] = cls
                mod.symbols[st.name] = ("class", cls)
                for m in st.body:
                    if isinstance(m, ast.FunctionDef):
                        decos = [deco_name(d) for d in m.decorator_list]
                        kind = "method"
                        for d in decos:
                            if d in ("staticmethod", "classmethod", "property"):
                                kind = d
                        acc = [d.rsplit(".", 1)[1] for d in decos if d.endswith((".setter", ".deleter", ".getter"))]
                        if acc and acc[0] in ("setter", "deleter"):
                            # the write half of a property: kept beside the getter, never in its place
                            f = Func(f"{mod.name}.{st.name}.{m.name}.{acc[0]}", m.name, mod, m, cls=cls, kind=acc[0], decorators=decos)
                            cls.methods[f"{m.name}.{acc[0]}"] = f
                            self.funcs[f.qualname] = f
                            continue
                        f = Func(f"{mod.name}.{st.name}.{m.name}", m.name, mod, m, cls=cls,
                                 kind=kind, decorators=decos)
                        cls.methods[m.name] = f
                        self.funcs[f.qualname] = f
                    elif isinstance(m, ast.Assign) and len(m.targets) == 1 and isinstance(m.targets[0], ast.Name):
                        # `name = staticmethod(module_function)` / `name = module_function`: the method is that function under another name
                        v = m.value
                        kind = "method"
                        if isinstance(v, ast.Call) and isinstance(v.func, ast.Name) and v.func.id in ("staticmethod", "classmethod") and len(v.args) == 1 and not v.keywords:
                            kind, v = v.func.id, v.args[0]
                        if isinstance(v, ast.Name) and m.targets[0].id not in cls.methods:
                            src = [x for x in mod.tree.body if isinstance(x, ast.FunctionDef) and x.name == v.id]
                            if len(src) == 1:
                                f = Func(f"{mod.name}.{st.name}.{m.targets[0].id}", m.targets[0].id, mod, src[0], cls=cls, kind=kind,
                                         decorators=[kind] if kind != "method" else [])
                                cls.methods[m.targets[0].id] = f
                                self.funcs[f.qualname] = f
            elif isinstance(st, (ast.Import, ast.ImportFrom)):
                self._index_import(mod, st)
            elif isinstance(st, ast.Assign):
                for t in st.targets:
                    if isinstance(t, ast.Name):
                        mod.symbols[t.id] = ("const", st.value)
                        if t.id == "__all__" and isinstance(st.value, (ast.List, ast.Tuple)):
                            mod.all_names = [e.value for e in st.value.elts
                                             if isinstance(e, ast.Constant)]
            elif isinstance(st, ast.AnnAssign) and isinstance(st.target, ast.Name) and st.value is not None:
                mod.symbols[st.target.id] = ("const", st.value)

    def _index_import(self, mod: Module, st):
        if isinstance(st, ast.Import):
            for a in st.names:
                top = a.name.split(".")[0]
                bind = a.asname or top
                if top == PKG:
                    mod.symbols[bind] = ("module_pkg", a.name if a.asname else PKG)
                else:
                    mod.symbols[bind] = ("module_ext", a.name if a.asname else top)
        else:
            src = st.module or ""
            is_pkg = st.level > 0 or src == PKG or src.startswith(PKG + ".")
            if is_pkg:
                target = src.split(".")[-1] if src and src != PKG else "__init__"
                if st.level > 0 and not src:
                    target = "__init__"
                for a in st.names:
                    if a.name == "*":
                        mod.symbols.setdefault("*", ("star", []))
                        mod.symbols["*"][1].append(target)
                    else:
                        mod.symbols[a.asname or a.name] = ("import_pkg", (target, a.name))
            else:
                for a in st.names:
                    mod.symbols[a.asname or a.name] = ("import_ext", f"{src}.{a.name}")

    def _index_nested(self, outer: Func):
        for node in ast.walk(outer.node):
            if node is outer.node:
                continue
            if isinstance(node, ast.FunctionDef):
                # only direct nesting level matters for this package
                f = Func(f"{outer.qualname}.<locals>.{node.name}", node.name, outer.module, node,
                         cls=None, kind="nested", parent=outer)
                self.nested[id(node)] = f
                self.funcs[f.qualname] = f
            elif isinstance(node, ast.Lambda):
                f = Func(f"{outer.qualname}.<lambda@{node.lineno}:{node.col_offset}>", "<lambda>",
                         outer.module, node, kind="lambda", parent=outer)
                self.lambdas[id(node)] = f
        # module-level lambdas (statistics tables) are indexed lazily in lambda_func

    def lambda_func(self, mod: Module, node: ast.Lambda) -> Func:
        f = self.lambdas.get(id(node))
        if f is None:
            f = Func(f"{mod.name}.<lambda@{node.lineno}:{node.col_offset}>", "<lambda>", mod, node,
                     kind="lambda")
            self.lambdas[id(node)] = f
        return f

    # --------------------------------------------------------------- resolve
    def resolve_name(self, mod: Module, name: str, _depth=0):
        """Resolve a module-level name to (kind, payload).

        kinds: func, class, const (ast value, defining module), ext (dotted name),
        module_ext (module dotted name), module_pkg
        """
        if _depth > 8:
            return None
        sym = mod.symbols.get(name)
        if sym is None:
            star = mod.symbols.get("*")
            if star:
                for target in star[1]:
                    tm = self.modules.get(target)
                    if tm is None:
                        continue
                    if tm.all_names is not None and name not in tm.all_names:
                        continue
                    r = self.resolve_name(tm, name, _depth + 1)
                    if r:
                        return r
            return None
        kind, payload = sym
        if kind in ("func", "class"):
            return (kind, payload)
        if kind == "const":
            return ("const", (payload, mod))
        if kind == "import_pkg":
            target, orig = payload
            tm = self.modules.get(target)
            if tm is None:
                # from . import x  (module import)
                if orig in self.modules:
                    return ("module_pkg", orig)
                return None
            return self.resolve_name(tm, orig, _depth + 1)
        if kind == "import_ext":
            return ("ext", payload)
        if kind == "module_ext":
            return ("module_ext", payload)
        if kind == "module_pkg":
            return ("module_pkg", payload)
        return None

    def resolve_pkg_attr(self, modpath: str, attr: str):
        """hvsrpy.read -> resolve through __init__; hvsrpy.object_io.x -> module."""
        parts = modpath.split(".")
        if parts[0] != PKG:
            return None
        if len(parts) == 1:
            if attr in self.modules:
                return ("module_pkg", f"{PKG}.{attr}")
            init = self.modules.get("__init__")
            return self.resolve_name(init, attr) if init else None
        m = self.modules.get(parts[-1])
        return self.resolve_name(m, attr) if m else None

    # ----------------------------------------------------------------- access
    def func(self, qualname: str) -> Func:
        f = self.funcs.get(qualname)
        if f is None:
            # the same helper moved between a class and module level (staticmethod <-> function) keeps its name and module
            parts = qualname.split(".")
            if len(parts) in (2, 3) and not parts[-1].startswith("__"):
                cands = [g for q, g in self.funcs.items() if q.split(".")[0] == parts[0] and q.split(".")[-1] == parts[-1]
                         and "<locals>" not in q and g.kind != "lambda" and len(q.split(".")) in (2, 3)]
                if len(cands) == 1:
                    return cands[0]
            raise AnalysisError(f"anchor function {qualname} not found")
        return f

    def cls(self, name: str) -> Class:
        c = self.classes.get(name)
        if c is None:
            raise AnalysisError(f"anchor class {name} not found")
        return c

    def module(self, name: str) -> Module:
        m = self.modules.get(name)
        if m is None:
            raise AnalysisError(f"anchor module {name} not found")
        return m

    def registry(self, modname: str, name: str) -> Dict[str, ast.AST]:
        """Module-level dict literal with constant string keys."""
        m = self.module(modname)
        sym = m.symbols.get(name)
        if sym and sym[0] == "const" and isinstance(sym[1], ast.DictComp):
            # {f.__name__: f for f in (<functions>)}: a table keyed by the functions' own names
            dc = sym[1]
            if len(dc.generators) == 1 and not dc.generators[0].ifs and isinstance(dc.generators[0].target, ast.Name):
                var = dc.generators[0].target.id
                it = dc.generators[0].iter
                if isinstance(it, ast.Name):
                    s2 = m.symbols.get(it.id)
                    it = s2[1] if s2 and s2[0] == "const" else it
                key_ok = isinstance(dc.key, ast.Attribute) and dc.key.attr == "__name__" and isinstance(dc.key.value, ast.Name) and dc.key.value.id == var
                val_ok = isinstance(dc.value, ast.Name) and dc.value.id == var
                if key_ok and val_ok and isinstance(it, (ast.Tuple, ast.List)) and all(isinstance(e, ast.Name) for e in it.elts):
                    return {e.id: e for e in it.elts}
        if not sym or sym[0] != "const" or not isinstance(sym[1], ast.Dict):
            raise AnalysisError(f"registry {modname}.{name} not found as dict literal")
        out = {}
        for k, v in zip(sym[1].keys, sym[1].values):
            if not (isinstance(k, ast.Constant) and isinstance(k.value, str)):
                raise AnalysisError(f"registry {modname}.{name} has a non-literal key")
            out[k.value] = v
        return out

    def subclasses(self, cls: Class) -> List[Class]:
        return [c for c in self.classes.values() if cls in c.mro()]

    def methods_named(self, name: str) -> List[Func]:
        out = []
        for c in self.classes.values():
            if name in c.methods:
                out.append(c.methods[name])
        return out

    def all_functions(self) -> List[Func]:
        return [f for f in self.funcs.values()]
